"""C12 demo (change A: Agent.front spelled through Position.from_orientation).

Runs from the worktree root: `/venv/bin/python _seed/A/demo.py`.  Exits 0 on
the pristine tree and with the patch applied.

It checks, against a reference implementation embedded here (which only uses
raw `grid.objects[y][x]`, `agent.transform` and its own direction tables):

* every built-in reward / termination component on (state, action, next
  state) triples, with next states from the real dynamics and arbitrary ones;
* composite rewards (sum) and terminations (any/all), including empty lists;
* exit reward paid exactly on the steps on which exit-termination fires, along
  trajectories of python mirrors of the shipped configurations;
* purity, determinism, re-seeding, interleaved environments;
* the site of the change: `Agent.front()` for every heading, on borders, in
  corners, at negative / huge coordinates, after setter mutation, repeatedly.
"""
import itertools as itt
import math
import os
import pickle
import sys
import warnings
from collections import deque
from functools import partial

warnings.simplefilter('ignore')
sys.path.insert(0, os.getcwd())  # the worktree root, not the demo's folder

import numpy.random as rnd  # noqa: E402

from gym_gridverse.action import Action  # noqa: E402
from gym_gridverse.agent import Agent  # noqa: E402
from gym_gridverse.envs import reset_functions as resets  # noqa: E402
from gym_gridverse.envs import reward_functions as R  # noqa: E402
from gym_gridverse.envs import terminating_functions as T  # noqa: E402
from gym_gridverse.envs import transition_functions as trans  # noqa: E402
from gym_gridverse.geometry import (  # noqa: E402
    Orientation,
    Position,
    Shape,
    Transform,
    distance_function_factory,
)
from gym_gridverse.grid import Grid  # noqa: E402
from gym_gridverse.grid_object import (  # noqa: E402
    Beacon,
    Color,
    Door,
    Exit,
    Floor,
    Key,
    MovingObstacle,
    NoneGridObject,
    Telepod,
    Wall,
)
from gym_gridverse.state import State  # noqa: E402

CHECKS = 0


def check(condition, *context):
    global CHECKS
    CHECKS += 1
    if not condition:
        print('FAILED:', *context)
        sys.exit(1)


def same(a, b):
    """exact equality of value and type (floats: also same sign of zero / inf)"""
    if type(a) is not type(b):
        return False
    if isinstance(a, float):
        if math.isnan(a) or math.isnan(b):
            return math.isnan(a) and math.isnan(b)
        return a == b and math.copysign(1.0, a) == math.copysign(1.0, b)
    return a == b


# ---------------------------------------------------------------------------
# reference implementation (independent of Grid.__getitem__, Area, Agent.front,
# Position arithmetic, get_next_position)
# ---------------------------------------------------------------------------

CLOCKWISE = [Orientation.F, Orientation.R, Orientation.B, Orientation.L]
STEP = {
    Orientation.F: (-1, 0),
    Orientation.R: (0, 1),
    Orientation.B: (1, 0),
    Orientation.L: (0, -1),
}
MOVE = {
    Action.MOVE_FORWARD: Orientation.F,
    Action.MOVE_RIGHT: Orientation.R,
    Action.MOVE_BACKWARD: Orientation.B,
    Action.MOVE_LEFT: Orientation.L,
}


def ref_compose(heading, relative):
    return CLOCKWISE[
        (CLOCKWISE.index(heading) + CLOCKWISE.index(relative)) % 4
    ]


def ref_dims(state):
    rows = state.grid.objects
    return len(rows), len(rows[0])


def ref_agent_yx(state):
    position = state.agent.transform.position
    return position.y, position.x


def ref_heading(state):
    return state.agent.transform.orientation


def ref_inside(state, y, x):
    height, width = ref_dims(state)
    return 0 <= y < height and 0 <= x < width


def ref_cell(state, y, x):
    return state.grid.objects[y][x]


def ref_front_yx(state):
    y, x = ref_agent_yx(state)
    dy, dx = STEP[ref_heading(state)]
    return y + dy, x + dx


def ref_overlap(next_state, object_type):
    y, x = ref_agent_yx(next_state)
    return isinstance(ref_cell(next_state, y, x), object_type)


def ref_bump_into_wall(state, action):
    y, x = ref_agent_yx(state)
    if action in MOVE:
        dy, dx = STEP[ref_compose(ref_heading(state), MOVE[action])]
        y, x = y + dy, x + dx
    return ref_inside(state, y, x) and isinstance(ref_cell(state, y, x), Wall)


def ref_unique_yx(state, object_type):
    height, width = ref_dims(state)
    found = [
        (y, x)
        for y in range(height)
        for x in range(width)
        if isinstance(ref_cell(state, y, x), object_type)
    ]
    assert len(found) == 1, found
    return found[0]


def ref_distance(state, object_type, kind):
    oy, ox = ref_unique_yx(state, object_type)
    ay, ax = ref_agent_yx(state)
    if kind == 'manhattan':
        return abs(ay - oy) + abs(ax - ox)
    return math.sqrt((ay - oy) ** 2 + (ax - ox) ** 2)


def ref_sign_reward(prev, nxt, closer, further):
    return closer if nxt < prev else further if nxt > prev else 0.0


def ref_path_distance(state, object_type):
    height, width = ref_dims(state)
    source = ref_unique_yx(state, object_type)
    distances = {source: 0.0}
    frontier = deque([source])
    while frontier:
        y, x = frontier.popleft()
        for dy, dx in STEP.values():
            cell = (y + dy, x + dx)
            if (
                ref_inside(state, *cell)
                and cell not in distances
                and not ref_cell(state, *cell).blocks_movement
            ):
                distances[cell] = distances[(y, x)] + 1
                frontier.append(cell)
    return distances.get(ref_agent_yx(state), float('inf'))


def ref_actuate_door(state, action, next_state, reward_open, reward_close):
    if action is not Action.ACTUATE:
        return 0.0
    y, x = ref_front_yx(state)
    if not ref_inside(state, y, x):
        return 0.0
    door = ref_cell(state, y, x)
    next_door = ref_cell(next_state, y, x)
    if not isinstance(door, Door) or not isinstance(next_door, Door):
        return 0.0
    was_open = door.state is Door.Status.OPEN
    is_open = next_door.state is Door.Status.OPEN
    if not was_open and is_open:
        return reward_open
    if was_open and not is_open:
        return reward_close
    return 0.0


def ref_pickndrop(state, next_state, object_type, reward_pick, reward_drop):
    had = isinstance(state.agent.grid_object, object_type)
    has = isinstance(next_state.agent.grid_object, object_type)
    return reward_pick if has and not had else reward_drop if had and not has else 0.0


def ref_reach_exit_memory(next_state, reward_good, reward_bad):
    height, width = ref_dims(next_state)
    beacon_color = None
    for y in range(height):
        for x in range(width):
            if beacon_color is None and isinstance(
                ref_cell(next_state, y, x), Beacon
            ):
                beacon_color = ref_cell(next_state, y, x).color
    assert beacon_color is not None
    y, x = ref_agent_yx(next_state)
    cell = ref_cell(next_state, y, x)
    if not isinstance(cell, Exit):
        return 0.0
    return reward_good if cell.color is beacon_color else reward_bad


# ---------------------------------------------------------------------------
# scenario generation
# ---------------------------------------------------------------------------

COLORS = [Color.NONE, Color.RED, Color.GREEN, Color.BLUE, Color.YELLOW]
SHAPES = [(1, 1), (1, 4), (5, 1), (2, 3), (3, 2), (3, 7), (6, 4), (4, 4)]


def snapshot(state):
    return pickle.dumps(
        (
            [
                [(type(o).__name__, o.state_index, o.color) for o in row]
                for row in state.grid.objects
            ],
            state.agent.transform.position.yx,
            state.agent.transform.orientation,
            type(state.agent.grid_object).__name__,
            state.agent.grid_object.color,
        )
    )


def random_filler(rng):
    kind = rng.integers(9)
    color = COLORS[rng.integers(len(COLORS))]
    if kind <= 2:
        return Floor()
    if kind <= 4:
        return Wall()
    if kind == 5:
        return Door(list(Door.Status)[rng.integers(3)], color)
    if kind == 6:
        return Key(color)
    if kind == 7:
        return MovingObstacle()
    return Telepod(color)


def random_state(rng, height, width, *, unique_exit):
    objects = [
        [random_filler(rng) for _ in range(width)] for _ in range(height)
    ]
    cells = [(y, x) for y in range(height) for x in range(width)]
    rng.shuffle(cells)
    cells = [tuple(int(v) for v in cell) for cell in cells]
    # exactly one exit (needed by the distance rewards), at least one beacon
    # when there is room for it
    y, x = cells[0]
    objects[y][x] = Exit(COLORS[rng.integers(len(COLORS))])
    num_beacons = min(len(cells) - 1, int(rng.integers(1, 3)))
    for y, x in cells[1 : 1 + num_beacons]:
        objects[y][x] = Beacon(COLORS[rng.integers(len(COLORS))])
    if not unique_exit:
        for y, x in cells[1 + num_beacons : 3 + num_beacons]:
            objects[y][x] = Exit(COLORS[rng.integers(len(COLORS))])

    held = [None, Key(Color.YELLOW), Key(Color.NONE), MovingObstacle()][
        rng.integers(4)
    ]
    agent = Agent(
        Position(int(rng.integers(height)), int(rng.integers(width))),
        CLOCKWISE[rng.integers(4)],
        held,
    )
    return State(Grid(objects), agent)


def has_beacon(state):
    return any(isinstance(o, Beacon) for row in state.grid.objects for o in row)


DYNAMICS = partial(
    trans.chain,
    transition_functions=[
        trans.move_agent,
        trans.turn_agent,
        trans.actuate_door,
        trans.pickndrop,
        trans.move_obstacles,
    ],
)

PARAMS = [
    (1.0, -1.0),
    (5.0, 0.0),
    (0.0, 0.0),
    (-0.0, 0.25),
    (float('inf'), -1e300),
    (3, -7),  # ints are passed through untouched
]


def check_triple(state, action, next_state, *, unique_exit, tag):
    before = snapshot(state), snapshot(next_state)
    beacon = has_beacon(next_state)

    for on, off in PARAMS:
        # exits
        exit_next = ref_overlap(next_state, Exit)
        got = R.reach_exit(state, action, next_state, reward_on=on, reward_off=off)
        check(same(got, on if exit_next else off), tag, 'reach_exit', got)
        got = T.reach_exit(state, action, next_state)
        check(got is exit_next, tag, 'T.reach_exit', got)

        # generic overlap
        for object_type in (Exit, Wall, Floor, MovingObstacle, Door, Beacon):
            expected = ref_overlap(next_state, object_type)
            got = R.overlap(
                state,
                action,
                next_state,
                object_type=object_type,
                reward_on=on,
                reward_off=off,
            )
            check(same(got, on if expected else off), tag, 'overlap', object_type)
            got = T.overlap(state, action, next_state, object_type=object_type)
            check(got is expected, tag, 'T.overlap', object_type)

        # moving obstacles
        obstacle_next = ref_overlap(next_state, MovingObstacle)
        got = R.bump_moving_obstacle(state, action, next_state, reward=on)
        check(same(got, on if obstacle_next else 0.0), tag, 'bump_obstacle')
        check(
            T.bump_moving_obstacle(state, action, next_state) is obstacle_next,
            tag,
            'T.bump_obstacle',
        )

        # walls
        bump = ref_bump_into_wall(state, action)
        got = R.bump_into_wall(state, action, next_state, reward=on)
        check(same(got, on if bump else 0.0), tag, 'bump_into_wall', got, bump)
        check(
            T.bump_into_wall(state, action, next_state) is bump,
            tag,
            'T.bump_into_wall',
        )

        # doors and pick/drop
        got = R.actuate_door(
            state, action, next_state, reward_open=on, reward_close=off
        )
        check(
            same(got, ref_actuate_door(state, action, next_state, on, off)),
            tag,
            'actuate_door',
            got,
        )
        for object_type in (Key, MovingObstacle, NoneGridObject):
            got = R.pickndrop(
                state,
                action,
                next_state,
                object_type=object_type,
                reward_pick=on,
                reward_drop=off,
            )
            check(
                same(got, ref_pickndrop(state, next_state, object_type, on, off)),
                tag,
                'pickndrop',
                object_type,
            )

        # living
        check(
            same(R.living_reward(state, action, next_state, reward=on), on),
            tag,
            'living',
        )

        # memory
        if beacon:
            got = R.reach_exit_memory(
                state, action, next_state, reward_good=on, reward_bad=off
            )
            check(
                same(got, ref_reach_exit_memory(next_state, on, off)),
                tag,
                'memory',
                got,
            )

        # distances
        if unique_exit:
            for kind in ('manhattan', 'euclidean'):
                function = distance_function_factory(kind)
                prev = ref_distance(state, Exit, kind)
                nxt = ref_distance(next_state, Exit, kind)
                got = R.getting_closer(
                    state,
                    action,
                    next_state,
                    distance_function=function,
                    object_type=Exit,
                    reward_closer=on,
                    reward_further=off,
                )
                check(
                    same(got, ref_sign_reward(prev, nxt, on, off)),
                    tag,
                    'getting_closer',
                    kind,
                )
                if math.isfinite(on):
                    got = R.proportional_to_distance(
                        state,
                        action,
                        next_state,
                        distance_function=function,
                        object_type=Exit,
                        reward_per_unit_distance=on,
                    )
                    check(same(got, on * nxt), tag, 'proportional', kind, got)

            prev = ref_path_distance(state, Exit)
            nxt = ref_path_distance(next_state, Exit)
            got = R.getting_closer_shortest_path(
                state,
                action,
                next_state,
                object_type=Exit,
                reward_closer=on,
                reward_further=off,
            )
            check(
                same(got, ref_sign_reward(prev, nxt, on, off)),
                tag,
                'shortest_path',
                got,
                prev,
                nxt,
            )

    # composites: sum of the parts, any / all of the parts, any order, empty
    parts = [
        partial(R.reach_exit, reward_on=5.0, reward_off=0.0),
        partial(R.bump_moving_obstacle, reward=-1.0),
        partial(R.bump_into_wall, reward=-1.0),
        partial(R.actuate_door, reward_open=1.0, reward_close=-1.0),
        partial(R.pickndrop, object_type=Key, reward_pick=1.0, reward_drop=-1.0),
        partial(R.living_reward, reward=-0.05),
    ]
    for subset in ([], parts[:1], parts[:3], parts, parts[::-1]):
        values = [part(state, action, next_state) for part in subset]
        got = R.reduce_sum(state, action, next_state, reward_functions=subset)
        check(same(got, sum(values)), tag, 'reduce_sum', got, values)
        nested = R.reduce_sum(
            state,
            action,
            next_state,
            reward_functions=[
                partial(R.reduce_sum, reward_functions=subset),
                partial(R.living_reward, reward=0.5),
            ],
        )
        check(same(nested, sum([sum(values), 0.5])), tag, 'nested sum')

    terminations = [T.reach_exit, T.bump_moving_obstacle, T.bump_into_wall]
    for subset in ([], terminations[:1], terminations, terminations[::-1]):
        values = [part(state, action, next_state) for part in subset]
        got = T.reduce_any(state, action, next_state, terminating_functions=subset)
        check(got is any(values), tag, 'reduce_any', values)
        got = T.reduce_all(state, action, next_state, terminating_functions=subset)
        check(got is all(values), tag, 'reduce_all', values)

    # agreement: exit reward paid exactly when exit-termination fires
    paid = R.reach_exit(state, action, next_state, reward_on=5.0, reward_off=0.0)
    check(
        (paid == 5.0) is T.reach_exit(state, action, next_state), tag, 'agree'
    )

    # purity
    check(before == (snapshot(state), snapshot(next_state)), tag, 'mutated')


def random_triples():
    rng = rnd.default_rng(12)
    for height, width in SHAPES:
        for unique_exit in (True, False):
            for repeat in range(6):
                state = random_state(rng, height, width, unique_exit=unique_exit)
                arbitrary = random_state(
                    rng, height, width, unique_exit=unique_exit
                )
                for action in Action:
                    real = trans.transition_with_copy(
                        DYNAMICS, state, action, rng=rng
                    )
                    tag = (height, width, unique_exit, repeat, action.name)
                    check_triple(
                        state,
                        action,
                        real,
                        unique_exit=unique_exit,
                        tag=tag + ('real',),
                    )
                    check_triple(
                        state,
                        action,
                        arbitrary,
                        unique_exit=unique_exit,
                        tag=tag + ('arbitrary',),
                    )


# ---------------------------------------------------------------------------
# hand-made scenarios with hard-coded expectations
# ---------------------------------------------------------------------------


def door_scene(heading, status, *, held=None):
    """2x3 non-square grid, agent in a corner, door wherever `heading` points

    The agent sits at (0, 0);  only R and B have an in-grid cell in front.
    """
    grid = Grid.from_shape((2, 3))
    grid[0, 1] = Door(status, Color.YELLOW)
    grid[1, 0] = Door(status, Color.NONE)
    grid[1, 2] = Exit()
    return State(grid, Agent(Position(0, 0), heading, held))


def hand_made():
    dynamics = partial(
        trans.chain,
        transition_functions=[
            trans.move_agent,
            trans.turn_agent,
            trans.actuate_door,
            trans.pickndrop,
        ],
    )
    reward = partial(R.actuate_door, reward_open=2.0, reward_close=-3.0)

    expectations = {
        # (heading, status, holds yellow key) -> reward of ACTUATE
        (Orientation.R, Door.Status.CLOSED, False): 2.0,
        (Orientation.R, Door.Status.LOCKED, False): 0.0,
        (Orientation.R, Door.Status.LOCKED, True): 2.0,
        (Orientation.R, Door.Status.OPEN, False): 0.0,
        (Orientation.B, Door.Status.CLOSED, False): 2.0,
        (Orientation.B, Door.Status.LOCKED, True): 0.0,  # colour NONE != YELLOW
        (Orientation.B, Door.Status.OPEN, True): 0.0,
        # facing out of the grid from the corner
        (Orientation.F, Door.Status.CLOSED, False): 0.0,
        (Orientation.L, Door.Status.CLOSED, True): 0.0,
        (Orientation.F, Door.Status.LOCKED, True): 0.0,
        (Orientation.L, Door.Status.OPEN, False): 0.0,
    }
    for (heading, status, with_key), expected in expectations.items():
        held = Key(Color.YELLOW) if with_key else None
        state = door_scene(heading, status, held=held)
        next_state = trans.transition_with_copy(dynamics, state, Action.ACTUATE)
        got = reward(state, Action.ACTUATE, next_state)
        check(same(got, expected), 'door', heading, status, with_key, got)
        # any other action never pays, even with the same next state
        for action in Action:
            if action is not Action.ACTUATE:
                check(
                    same(reward(state, action, next_state), 0.0),
                    'door other action',
                    action,
                )
        # closing (arbitrary next state): door in front goes OPEN -> CLOSED
        if heading in (Orientation.R, Orientation.B):
            opened = door_scene(heading, Door.Status.OPEN)
            closed = door_scene(heading, Door.Status.CLOSED)
            check(
                same(reward(opened, Action.ACTUATE, closed), -3.0), 'closing'
            )
            check(same(reward(closed, Action.ACTUATE, opened), 2.0), 'opening')
        else:
            opened = door_scene(heading, Door.Status.OPEN)
            closed = door_scene(heading, Door.Status.CLOSED)
            check(same(reward(opened, Action.ACTUATE, closed), 0.0), 'no door')

    # the door on the other side of the grid (bottom-right corner, 3x2)
    for heading, door_at, fires in [
        (Orientation.F, (1, 1), True),
        (Orientation.L, (2, 0), True),
        (Orientation.R, (1, 1), False),
        (Orientation.B, (2, 0), False),
    ]:
        grid = Grid.from_shape((3, 2))
        grid[door_at] = Door(Door.Status.CLOSED, Color.NONE)
        state = State(grid, Agent(Position(2, 1), heading))
        next_state = trans.transition_with_copy(dynamics, state, Action.ACTUATE)
        got = reward(state, Action.ACTUATE, next_state)
        check(same(got, 2.0 if fires else 0.0), 'corner door', heading, got)

    # pick / drop through the cell in front, all headings, centre of a 3x3
    for heading in CLOCKWISE:
        dy, dx = STEP[heading]
        grid = Grid.from_shape((3, 3))
        grid[1 + dy, 1 + dx] = Key(Color.NONE)
        state = State(grid, Agent(Position(1, 1), heading))
        picked = trans.transition_with_copy(dynamics, state, Action.PICK_N_DROP)
        pay = partial(
            R.pickndrop, object_type=Key, reward_pick=1.5, reward_drop=-2.5
        )
        check(same(pay(state, Action.PICK_N_DROP, picked), 1.5), 'pick', heading)
        dropped = trans.transition_with_copy(
            dynamics, picked, Action.PICK_N_DROP
        )
        check(same(pay(picked, Action.PICK_N_DROP, dropped), -2.5), 'drop')
        check(
            isinstance(dropped.grid.objects[1 + dy][1 + dx], Key), 'drop cell'
        )
        check(same(pay(state, Action.PICK_N_DROP, state), 0.0), 'no change')


# ---------------------------------------------------------------------------
# the site of the change: Agent.front
# ---------------------------------------------------------------------------


def front_site():
    expectations = {
        Orientation.F: Position(-1, 0),
        Orientation.R: Position(0, 1),
        Orientation.B: Position(1, 0),
        Orientation.L: Position(0, -1),
    }
    coordinates = [0, 1, 2, 7, -1, -5, 10**9, -(10**9)]
    for y, x in itt.product(coordinates, repeat=2):
        for heading, step in expectations.items():
            agent = Agent(Position(y, x), heading)
            front = agent.front()
            check(type(front) is Position, 'front type')
            check(front == Position(y + step.y, x + step.x), 'front', y, x, heading)
            check(type(front.y) is int and type(front.x) is int, 'front ints')
            # repeated calls, no aliasing with the agent's own position
            check(agent.front() == front and agent.front() == front, 'repeat')
            check(front is not agent.position, 'alias')
            check(agent.position == Position(y, x), 'agent moved')
            check(agent.orientation is heading, 'agent turned')
            # the old spelling
            check(
                front == agent.transform * Position.from_orientation(Orientation.F),
                'transform spelling',
            )
            check(front == Transform(Position(y, x), heading) * Position(-1, 0), 'T')

    # follows the setters (Transform is mutable)
    agent = Agent(Position(3, 4), Orientation.F)
    check(agent.front() == Position(2, 4), 'setter 0')
    agent.orientation = Orientation.L
    check(agent.front() == Position(3, 3), 'setter 1')
    agent.position = Position(0, 0)
    check(agent.front() == Position(0, -1), 'setter 2')
    agent.orientation *= Orientation.R
    check(agent.front() == Position(-1, 0), 'setter 3')
    agent.transform = Transform(Position(9, 9), Orientation.B)
    check(agent.front() == Position(10, 9), 'setter 4')
    # aliases of the enum members
    check(Agent(Position(1, 1), Orientation.R).front() == Position(1, 2), 'alias R')
    # the tabulated unit steps are never handed out for mutation: Position is
    # frozen, and the table still holds the documented values afterwards
    for heading, step in expectations.items():
        check(Position.from_orientation(heading) == step, 'table', heading)
    # copies of agents behave the same
    clone = pickle.loads(pickle.dumps(Agent(Position(5, 6), Orientation.R)))
    check(clone.front() == Position(5, 7), 'pickled agent')


# ---------------------------------------------------------------------------
# trajectories of python mirrors of the shipped configurations
# ---------------------------------------------------------------------------

MANHATTAN = distance_function_factory('manhattan')
NAVIGATION = [
    partial(R.reach_exit, reward_on=5.0, reward_off=0.0),
    partial(
        R.getting_closer,
        distance_function=MANHATTAN,
        object_type=Exit,
        reward_closer=0.2,
        reward_further=-0.2,
    ),
    partial(R.living_reward, reward=-0.05),
]
MEMORY = [
    partial(R.reach_exit_memory, reward_good=5.0, reward_bad=-5.0),
    partial(R.living_reward, reward=-0.05),
]
ALL_COLORS = {Color.RED, Color.GREEN, Color.BLUE, Color.YELLOW}

CONFIGURATIONS = {
    'empty.4x4': (
        partial(resets.empty, Shape(4, 4), random_agent=True),
        [trans.move_agent, trans.turn_agent],
        NAVIGATION,
        T.reach_exit,
    ),
    'empty.4x7': (
        partial(resets.empty, Shape(4, 7), random_agent=True, random_exit=True),
        [trans.move_agent, trans.turn_agent],
        NAVIGATION,
        T.reach_exit,
    ),
    'crossing.7x7': (
        partial(resets.crossing, Shape(7, 7), num_rivers=2, object_type=Wall),
        [trans.move_agent, trans.turn_agent],
        NAVIGATION,
        T.reach_exit,
    ),
    'four_rooms.9x9': (
        partial(resets.rooms, Shape(9, 9), layout=(2, 2)),
        [trans.move_agent, trans.turn_agent],
        NAVIGATION,
        T.reach_exit,
    ),
    'nine_rooms.10x13': (
        partial(resets.rooms, Shape(10, 13), layout=(3, 3)),
        [trans.move_agent, trans.turn_agent],
        NAVIGATION,
        T.reach_exit,
    ),
    'teleport.7x7': (
        partial(resets.teleport, Shape(7, 7)),
        [trans.move_agent, trans.turn_agent, trans.teleport],
        NAVIGATION,
        T.reach_exit,
    ),
    'dynamic_obstacles.7x7': (
        partial(resets.dynamic_obstacles, Shape(7, 7), num_obstacles=2),
        [trans.move_agent, trans.turn_agent, trans.move_obstacles],
        NAVIGATION[:1]
        + [
            partial(R.bump_moving_obstacle, reward=-1.0),
            partial(R.bump_into_wall, reward=-1.0),
        ]
        + NAVIGATION[1:],
        partial(
            T.reduce_any,
            terminating_functions=[
                T.reach_exit,
                T.bump_moving_obstacle,
                T.bump_into_wall,
            ],
        ),
    ),
    'dynamic_obstacles.5x8': (
        partial(
            resets.dynamic_obstacles,
            Shape(5, 8),
            num_obstacles=4,
            random_agent=True,
        ),
        [trans.move_agent, trans.turn_agent, trans.move_obstacles],
        NAVIGATION[:1]
        + [
            partial(R.bump_moving_obstacle, reward=-1.0),
            partial(R.bump_into_wall, reward=-1.0),
        ]
        + NAVIGATION[1:],
        partial(
            T.reduce_any,
            terminating_functions=[
                T.reach_exit,
                T.bump_moving_obstacle,
                T.bump_into_wall,
            ],
        ),
    ),
    'keydoor.9x9': (
        partial(resets.keydoor, Shape(9, 9)),
        [
            trans.move_agent,
            trans.turn_agent,
            trans.actuate_door,
            trans.pickndrop,
        ],
        NAVIGATION[:1]
        + [
            partial(
                R.pickndrop, object_type=Key, reward_pick=1.0, reward_drop=-1.0
            ),
            partial(R.actuate_door, reward_open=1.0, reward_close=-1.0),
        ]
        + NAVIGATION[1:],
        T.reach_exit,
    ),
    'keydoor.4x8': (
        partial(resets.keydoor, Shape(4, 8)),
        [
            trans.move_agent,
            trans.turn_agent,
            trans.actuate_door,
            trans.pickndrop,
        ],
        NAVIGATION[:1]
        + [
            partial(
                R.pickndrop, object_type=Key, reward_pick=1.0, reward_drop=-1.0
            ),
            partial(R.actuate_door, reward_open=1.0, reward_close=-1.0),
        ]
        + NAVIGATION[1:],
        T.reach_exit,
    ),
    'memory.9x9': (
        partial(resets.memory, Shape(9, 9), colors=ALL_COLORS),
        [trans.move_agent, trans.turn_agent],
        MEMORY,
        T.reach_exit,
    ),
    'memory.5x9': (
        partial(resets.memory, Shape(5, 9), colors=ALL_COLORS),
        [trans.move_agent, trans.turn_agent],
        MEMORY,
        T.reach_exit,
    ),
    'memory_four_rooms.7x7': (
        partial(
            resets.memory_rooms,
            Shape(7, 7),
            layout=(2, 2),
            colors=ALL_COLORS,
            num_beacons=1,
            num_exits=2,
        ),
        [trans.move_agent, trans.turn_agent],
        MEMORY,
        T.reach_exit,
    ),
}


def ref_step_reward(name, state, action, next_state):
    """reference value of the whole composite reward of a configuration"""
    exit_part = 5.0 if ref_overlap(next_state, Exit) else 0.0
    living = -0.05
    if name.startswith('memory'):
        return sum([ref_reach_exit_memory(next_state, 5.0, -5.0), living])

    closer = ref_sign_reward(
        ref_distance(state, Exit, 'manhattan'),
        ref_distance(next_state, Exit, 'manhattan'),
        0.2,
        -0.2,
    )
    if name.startswith('dynamic_obstacles'):
        return sum(
            [
                exit_part,
                -1.0 if ref_overlap(next_state, MovingObstacle) else 0.0,
                -1.0 if ref_bump_into_wall(state, action) else 0.0,
                closer,
                living,
            ]
        )
    if name.startswith('keydoor'):
        return sum(
            [
                exit_part,
                ref_pickndrop(state, next_state, Key, 1.0, -1.0),
                ref_actuate_door(state, action, next_state, 1.0, -1.0),
                closer,
                living,
            ]
        )
    return sum([exit_part, closer, living])


def ref_step_terminal(name, state, action, next_state):
    if name.startswith('dynamic_obstacles'):
        return (
            ref_overlap(next_state, Exit)
            or ref_overlap(next_state, MovingObstacle)
            or ref_bump_into_wall(state, action)
        )
    return ref_overlap(next_state, Exit)


def run_trajectory(name, seed, steps):
    reset, transitions, rewards, termination = CONFIGURATIONS[name]
    dynamics = partial(trans.chain, transition_functions=transitions)
    reward = partial(R.reduce_sum, reward_functions=rewards)
    exit_reward = rewards[0]

    rng = rnd.default_rng(seed)
    actions = list(Action)
    state = reset(rng=rng)
    log = []
    for step in range(steps):
        action = actions[rng.integers(len(actions))]
        next_state = trans.transition_with_copy(dynamics, state, action, rng=rng)
        value = reward(state, action, next_state)
        terminal = termination(state, action, next_state)
        tag = (name, seed, step, action.name)

        check(
            same(value, ref_step_reward(name, state, action, next_state)),
            tag,
            'reward',
            value,
        )
        check(
            terminal is ref_step_terminal(name, state, action, next_state),
            tag,
            'terminal',
        )
        # exit reward paid exactly on the steps on which exit-termination fires
        exit_fires = T.reach_exit(state, action, next_state)
        paid = exit_reward(state, action, next_state)
        if name.startswith('memory'):
            check((paid != 0.0) is exit_fires, tag, 'memory agree')
        else:
            check((paid == 5.0) is exit_fires, tag, 'exit agree')
        if exit_fires:
            check(terminal is True, tag, 'exit terminates')
        # repeated evaluation
        check(same(reward(state, action, next_state), value), tag, 'repeat')

        log.append((action, value, terminal, snapshot(next_state)))
        state = reset(rng=rng) if terminal else next_state
    return log


def trajectories():
    for name in CONFIGURATIONS:
        first = run_trajectory(name, seed=3, steps=120)
        # re-seeding reproduces the run exactly
        check(first == run_trajectory(name, seed=3, steps=120), name, 'reseed')
        run_trajectory(name, seed=4, steps=60)

    # several environments stepped in one process, interleaved
    names = ['keydoor.4x8', 'dynamic_obstacles.5x8', 'memory.5x9']
    solo = {name: run_trajectory(name, seed=11, steps=40) for name in names}
    again = {name: run_trajectory(name, seed=11, steps=40) for name in reversed(names)}
    check(solo == again, 'interleaved')

    # a scripted run that is certain to reach the exit: empty 4x4, agent at
    # (1, 1) facing right, exit at (2, 2)
    state = resets.empty(Shape(4, 4), rng=rnd.default_rng(0))
    dynamics = partial(
        trans.chain, transition_functions=[trans.move_agent, trans.turn_agent]
    )
    reward = partial(R.reduce_sum, reward_functions=NAVIGATION)
    script = [
        (Action.MOVE_LEFT, sum([0.0, 0.0, -0.05]), False),  # wall above
        (Action.MOVE_FORWARD, sum([0.0, 0.2, -0.05]), False),
        (Action.MOVE_FORWARD, sum([0.0, 0.0, -0.05]), False),  # wall ahead
        (Action.TURN_RIGHT, sum([0.0, 0.0, -0.05]), False),
        (Action.MOVE_BACKWARD, sum([0.0, 0.0, -0.05]), False),  # wall behind
        (Action.MOVE_RIGHT, sum([0.0, -0.2, -0.05]), False),
        (Action.MOVE_LEFT, sum([0.0, 0.2, -0.05]), False),
        (Action.MOVE_FORWARD, sum([5.0, 0.2, -0.05]), True),
    ]
    for action, expected_reward, expected_terminal in script:
        next_state = trans.transition_with_copy(dynamics, state, action)
        value = reward(state, action, next_state)
        terminal = T.reach_exit(state, action, next_state)
        check(same(value, expected_reward), 'script', action, value)
        check(terminal is expected_terminal, 'script terminal', action)
        state = next_state


def main():
    front_site()
    hand_made()
    random_triples()
    trajectories()
    print(f'OK ({CHECKS} checks)')


if __name__ == '__main__':
    main()
