"""Demo for change A (Grid.subgrid computes the column split once per call).

Run from the worktree root:  /venv/bin/python _seed/A/demo.py

Exits 0 both on the pristine tree and with the patch applied.  Checks

1. `Grid.subgrid` against a reference implementation embedded here (the
   per-cell bounds check), on square / non-square / single-row / single-column
   grids and on areas inside, partially outside (every border and corner) and
   completely outside the grid, plus a few hard-coded expectations;
2. the observation pipeline built on top of it (all four headings, agents on
   borders and in corners, asymmetric view areas) against a reference
   observation computed cell by cell;
3. property C20 (the gym adapter is a faithful view of the wrapped
   environment) on every shipped configuration -- wrapped directly and through
   the registered ids -- and on a few hand-built awkward environments, for
   several seeds, action-index sequences and representation names.
"""
import itertools
import os
import sys
import types
import warnings

warnings.filterwarnings('ignore')
sys.path.insert(0, os.getcwd())

import numpy as np  # noqa: E402

# --------------------------------------------------------------------------
# a YAML reader for the shipped configuration files, used only if PyYAML is
# not installed (the shipped files only use block mappings, block lists, flow
# lists and plain scalars)
# --------------------------------------------------------------------------


def _scalar(text):
    text = text.strip()
    if text.startswith('['):
        assert text.endswith(']'), text
        inner = text[1:-1]
        items, depth, current = [], 0, ''
        for ch in inner:
            if ch == '[':
                depth += 1
            elif ch == ']':
                depth -= 1
            if ch == ',' and depth == 0:
                items.append(current)
                current = ''
            else:
                current += ch
        if current.strip():
            items.append(current)
        return [_scalar(item) for item in items]
    if text in ('True', 'true'):
        return True
    if text in ('False', 'false'):
        return False
    try:
        return int(text)
    except ValueError:
        pass
    try:
        return float(text)
    except ValueError:
        pass
    return text


def _parse_block(lines, i, indent):
    """parses the block of lines starting at i whose indentation is indent"""
    if lines[i][1].startswith('- '):
        result = []
        while i < len(lines) and lines[i][0] == indent:
            assert lines[i][1].startswith('- '), lines[i]
            item = lines[i][1][2:].strip()
            if ':' in item and not item.startswith('['):
                # inline start of a mapping, continued on deeper lines
                lines[i] = (indent + 2, item)
                value, i = _parse_block(lines, i, indent + 2)
            else:
                value, i = _scalar(item), i + 1
            result.append(value)
        return result, i

    result = {}
    while i < len(lines) and lines[i][0] == indent:
        key, _, rest = lines[i][1].partition(':')
        key, rest = key.strip(), rest.strip()
        if rest:
            result[key] = _scalar(rest)
            i += 1
        else:
            assert lines[i + 1][0] > indent, lines[i]
            result[key], i = _parse_block(lines, i + 1, lines[i + 1][0])
    return result, i


def mini_yaml_load(stream):
    text = stream if isinstance(stream, str) else stream.read()
    lines = []
    for raw in text.splitlines():
        raw = raw.split('#')[0].rstrip()
        if raw.strip():
            lines.append((len(raw) - len(raw.lstrip()), raw.strip()))
    data, i = _parse_block(lines, 0, 0)
    assert i == len(lines)
    return data


try:
    import yaml as _yaml

    if not hasattr(_yaml, 'safe_load'):
        raise ImportError
except ImportError:
    _yaml = types.ModuleType('yaml')
    _yaml.safe_load = mini_yaml_load  # type: ignore
    sys.modules['yaml'] = _yaml

assert mini_yaml_load(
    'a:\n  b: [ [ -6, 0 ], [-3, 3 ] ]\n  c: False\nd:\n  - name: x\n    r: -0.5\n  - y\n'
) == {'a': {'b': [[-6, 0], [-3, 3]], 'c': False}, 'd': [{'name': 'x', 'r': -0.5}, 'y']}

from gym_gridverse.action import Action  # noqa: E402
from gym_gridverse.agent import Agent  # noqa: E402
from gym_gridverse.envs import observation_functions as observation_fs  # noqa: E402
from gym_gridverse.envs import reward_functions as reward_fs  # noqa: E402
from gym_gridverse.envs import terminating_functions as terminating_fs  # noqa: E402
from gym_gridverse.envs import transition_functions as transition_fs  # noqa: E402
from gym_gridverse.envs.gridworld import GridWorld  # noqa: E402
from gym_gridverse.geometry import Area, Orientation, Position, Shape  # noqa: E402
from gym_gridverse.grid import Grid  # noqa: E402
from gym_gridverse.grid_object import (  # noqa: E402
    Color,
    Door,
    Exit,
    Floor,
    Hidden,
    Key,
    NoneGridObject,
    Wall,
)
from gym_gridverse.outer_env import OuterEnv  # noqa: E402
from gym_gridverse.representations.observation_representations import (  # noqa: E402
    make_observation_representation,
)
from gym_gridverse.representations.state_representations import (  # noqa: E402
    make_state_representation,
)
from gym_gridverse.spaces import ActionSpace, ObservationSpace, StateSpace  # noqa: E402
from gym_gridverse.state import State  # noqa: E402

checks = 0


def ok(condition, message=''):
    global checks
    checks += 1
    if not condition:
        raise AssertionError(message)


# --------------------------------------------------------------------------
# 1. Grid.subgrid against the reference (per-cell) implementation
# --------------------------------------------------------------------------


def make_labelled_grid(height, width):
    """grid of distinguishable objects (the identity of each cell matters)"""
    colors = list(Color)
    rows = []
    for y in range(height):
        row = []
        for x in range(width):
            k = (y * width + x) % 4
            if k == 0:
                obj = Floor()
            elif k == 1:
                obj = Wall()
            elif k == 2:
                obj = Key(colors[(y + x) % len(colors)])
            else:
                obj = Door(
                    list(Door.Status)[(y + 2 * x) % 3],
                    colors[(2 * y + x) % len(colors)],
                )
            row.append(obj)
        rows.append(row)
    return Grid(rows)


def reference_subgrid_cells(grid, area):
    """the documented behaviour, cell by cell: (kind, object) per cell"""
    height, width = len(grid.objects), len(grid.objects[0])
    return [
        [
            ('same', grid.objects[y][x])
            if 0 <= y < height and 0 <= x < width
            else ('hidden', None)
            for x in range(area.xs[0], area.xs[1] + 1)
        ]
        for y in range(area.ys[0], area.ys[1] + 1)
    ]


def check_subgrid(grid, area):
    before = [list(row) for row in grid.objects]
    sub = grid.subgrid(area)
    expected = reference_subgrid_cells(grid, area)

    ok(isinstance(sub, Grid))
    ok(sub is not grid)
    ok(sub.shape == Shape(area.height, area.width), (sub.shape, area))
    ok(sub.area == Area((0, area.height - 1), (0, area.width - 1)))
    ok(len(sub.objects) == len(expected))
    hidden_seen = []
    for row, expected_row in zip(sub.objects, expected):
        ok(isinstance(row, list))
        ok(len(row) == len(expected_row))
        for obj, (kind, expected_obj) in zip(row, expected_row):
            if kind == 'same':
                # the very same object, not a copy
                ok(obj is expected_obj)
            else:
                ok(type(obj) is Hidden)
                hidden_seen.append(obj)
    # every out-of-grid cell gets its own Hidden instance
    ok(len(set(map(id, hidden_seen))) == len(hidden_seen))
    # rows of the result are fresh lists: writing in the subgrid does not
    # write in the grid
    ok(all(row is not grow for row in sub.objects for grow in grid.objects))
    # the source grid is untouched
    ok(
        all(
            a is b
            for r1, r2 in zip(before, grid.objects)
            for a, b in zip(r1, r2)
        )
    )
    ok(len(before) == len(grid.objects))
    # repeated calls give equal results
    ok(grid.subgrid(area) == sub)


num_areas = 0
for height, width in [(1, 1), (1, 4), (4, 1), (2, 3), (3, 3), (3, 5), (5, 2)]:
    grid = make_labelled_grid(height, width)
    bounds_y = range(-3, height + 3)
    bounds_x = range(-3, width + 3)
    for ymin, ymax in itertools.combinations_with_replacement(bounds_y, 2):
        for xmin, xmax in itertools.combinations_with_replacement(bounds_x, 2):
            check_subgrid(grid, Area((ymin, ymax), (xmin, xmax)))
            num_areas += 1

# far away areas, on every side
grid = make_labelled_grid(3, 4)
for dy, dx in itertools.product([-1000, 0, 1000], repeat=2):
    check_subgrid(grid, Area((dy - 1, dy + 2), (dx - 2, dx + 1)))

# hard-coded expectations
grid = Grid([[Wall(), Floor(), Exit()], [Key(Color.RED), Floor(), Wall()]])
sub = grid.subgrid(Area((-1, 1), (1, 3)))
ok(
    [[type(obj).__name__ for obj in row] for row in sub.objects]
    == [
        ['Hidden', 'Hidden', 'Hidden'],
        ['Floor', 'Exit', 'Hidden'],
        ['Floor', 'Wall', 'Hidden'],
    ]
)
sub = grid.subgrid(Area((1, 2), (-2, 0)))
ok(
    [[type(obj).__name__ for obj in row] for row in sub.objects]
    == [['Hidden', 'Hidden', 'Key'], ['Hidden', 'Hidden', 'Hidden']]
)
ok(sub.objects[0][2] is grid.objects[1][0])
sub = grid.subgrid(Area((0, 1), (0, 2)))
ok(sub == grid and sub is not grid)
sub = grid.subgrid(Area((5, 5), (-4, -3)))
ok([[type(obj) for obj in row] for row in sub.objects] == [[Hidden, Hidden]])

# rows of the grid replaced after construction are honoured (the container is
# read at call time)
grid = make_labelled_grid(3, 3)
grid.objects[1] = [Exit(), Exit(), Exit()]
check_subgrid(grid, Area((-1, 3), (-1, 3)))
grid[1, 1] = Key(Color.BLUE)
check_subgrid(grid, Area((1, 1), (0, 5)))


# --------------------------------------------------------------------------
# 2. observations: reference computed cell by cell
# --------------------------------------------------------------------------


def reference_fully_transparent(state, area):
    """cell (i, j) of the observation shows the cell of the state grid which
    is at the relative position (area.ymin + i, area.xmin + j) in the frame of
    the agent"""
    rows = []
    for i in range(area.height):
        row = []
        for j in range(area.width):
            relative = Position(area.ys[0] + i, area.xs[0] + j)
            orientation = state.agent.orientation
            if orientation is Orientation.F:
                dy, dx = relative.y, relative.x
            elif orientation is Orientation.B:
                dy, dx = -relative.y, -relative.x
            elif orientation is Orientation.R:
                dy, dx = relative.x, -relative.y
            else:
                dy, dx = -relative.x, relative.y
            y, x = state.agent.position.y + dy, state.agent.position.x + dx
            inside = 0 <= y < state.grid.shape.height and (
                0 <= x < state.grid.shape.width
            )
            row.append(state.grid.objects[y][x] if inside else None)
        rows.append(row)
    return rows


view_areas = [
    Area((-6, 0), (-3, 3)),  # shipped
    Area((-2, 0), (-1, 1)),
    Area((-3, 1), (-1, 3)),  # asymmetric, sees behind
    Area((-1, 2), (-4, 0)),  # asymmetric, mostly to the left
    Area((0, 0), (0, 0)),  # only the agent cell
    Area((-4, -2), (2, 4)),  # does not even contain the agent
]
for height, width in [(2, 5), (4, 3), (3, 3), (1, 6)]:
    grid = make_labelled_grid(height, width)
    for area in view_areas:
        f = observation_fs.factory('fully_transparent', area=area)
        for y, x in itertools.product(range(height), range(width)):
            for orientation in [
                Orientation.F,
                Orientation.B,
                Orientation.L,
                Orientation.R,
            ]:
                state = State(
                    grid, Agent(Position(y, x), orientation, Key(Color.GREEN))
                )
                observation = f(state)
                expected = reference_fully_transparent(state, area)
                ok(observation.grid.shape == Shape(area.height, area.width))
                for row, expected_row in zip(observation.grid.objects, expected):
                    ok(len(row) == len(expected_row))
                    for obj, expected_obj in zip(row, expected_row):
                        if expected_obj is None:
                            ok(type(obj) is Hidden)
                        else:
                            ok(obj is expected_obj)
                ok(observation.agent.position == Position(-area.ymin, -area.xmin))
                ok(observation.agent.orientation is Orientation.F)
                ok(observation.agent.grid_object is state.agent.grid_object)


# --------------------------------------------------------------------------
# 3. property C20 at the gym layer
# --------------------------------------------------------------------------

import gym  # noqa: E402

import gym_gridverse.gym as gv_gym  # noqa: E402
from gym_gridverse.envs.yaml.factory import factory_env_from_data  # noqa: E402
from gym_gridverse.gym import (  # noqa: E402
    GymEnvironment,
    GymStateWrapper,
    outer_space_to_gym_space,
)

REPRESENTATIONS = ['default', 'no-overlap', 'compact']


def assert_same_dict(a, b):
    ok(list(a.keys()) == list(b.keys()), (list(a), list(b)))
    for key in a:
        ok(type(a[key]) is np.ndarray and type(b[key]) is np.ndarray)
        ok(a[key].dtype == b[key].dtype, key)
        ok(a[key].shape == b[key].shape, key)
        ok(np.array_equal(a[key], b[key]), key)


def assert_advertised(gym_space, representation):
    """the advertised gym space is the image of the representation space"""
    space = representation.space
    ok(isinstance(gym_space, gym.spaces.Dict))
    ok(sorted(gym_space.spaces.keys()) == sorted(space.keys()))
    for key, inner_space in space.items():
        box = gym_space.spaces[key]
        ok(isinstance(box, gym.spaces.Box))
        ok(box.shape == inner_space.lower_bound.shape)
        ok(np.array_equal(box.low, inner_space.lower_bound))
        ok(np.array_equal(box.high, inner_space.upper_bound))
    ok(gym_space == outer_space_to_gym_space(space))


def action_sequences(num_actions, length, seed):
    rng = np.random.default_rng(seed)
    yield list(range(num_actions)) * 2  # every index, in order, twice
    yield list(range(num_actions - 1, -1, -1))  # every index, reversed
    yield [int(i) for i in rng.integers(num_actions, size=length)]
    yield []


def check_gym_env(
    make_inner, seeds, length=25, through=None, allow_state=True
):
    """the gym view of the environment against a twin inner environment
    driven directly with Action objects"""
    for observation_name, state_name in [
        ('default', 'default'),
        ('no-overlap', 'compact'),
        ('compact', 'no-overlap'),
    ]:
        twin = make_inner()
        if through is None:
            inner = make_inner()
            genv = GymEnvironment(
                OuterEnv(
                    inner,
                    observation_representation=make_observation_representation(
                        'default', inner.observation_space
                    ),
                )
            )
            top = genv
        else:
            top = through()
            genv = top.unwrapped
            ok(type(genv) is GymEnvironment)
            inner = genv.outer_env.inner_env

        # as shipped: default observation representation, no state
        ok(genv.state_space is None)
        assert_advertised(
            genv.observation_space,
            make_observation_representation('default', twin.observation_space),
        )
        actions = twin.action_space.actions
        ok(isinstance(genv.action_space, gym.spaces.Discrete))
        ok(genv.action_space.n == len(actions))
        ok(genv.action_space.n == inner.action_space.num_actions)
        for i, action in enumerate(actions):
            ok(inner.action_space.int_to_action(i) is action)

        # switching representations updates the advertised spaces
        twin_orep = make_observation_representation(
            observation_name, twin.observation_space
        )
        genv.set_observation_representation(observation_name)
        assert_advertised(genv.observation_space, twin_orep)

        representable = twin.state_space.can_be_represented
        # (the agent part of the state representation is undefined on grids
        # with a single row or column)
        has_state = representable and allow_state
        if has_state:
            twin_srep = make_state_representation(state_name, twin.state_space)
            genv.set_state_representation(state_name)
            assert_advertised(genv.state_space, twin_srep)
            wrapped = GymStateWrapper(genv)
            ok(wrapped.observation_space is genv.state_space)
            ok(wrapped.action_space is genv.action_space)
        elif not representable:
            try:
                genv.set_state_representation(state_name)
            except ValueError:
                pass
            else:
                ok(False, 'state representation should not be available')
            ok(genv.state_space is None)

        for seed in seeds:
            for sequence in action_sequences(len(actions), length, seed):
                inner.set_seed(seed)
                twin.set_seed(seed)

                use_wrapper = has_state and (seed + len(sequence)) % 2 == 0
                env = wrapped if use_wrapper else genv

                counter = [0]

                def check_output(output, info=None):
                    counter[0] += 1
                    expected_o = twin_orep.convert(twin.observation)
                    if use_wrapper:
                        expected_s = twin_srep.convert(twin.state)
                        assert_same_dict(output, expected_s)
                        ok(genv.state_space.contains(output))
                        ok(wrapped.observation_space.contains(output))
                        if info is not None:
                            ok(list(info.keys()) == ['observation'])
                            assert_same_dict(info['observation'], expected_o)
                            ok(
                                genv.observation_space.contains(
                                    info['observation']
                                )
                            )
                    else:
                        assert_same_dict(output, expected_o)
                        ok(genv.observation_space.contains(output))
                        if info is not None:
                            ok(info == {})
                    if info is not None and counter[0] % 4 != 0:
                        return
                    # the properties show the same thing
                    assert_same_dict(genv.observation, expected_o)
                    if has_state:
                        assert_same_dict(
                            genv.state, twin_srep.convert(twin.state)
                        )
                    ok(inner.state == twin.state)
                    ok(inner.observation == twin.observation)

                twin.reset()
                check_output(env.reset())
                for index in sequence:
                    output, reward, done, info = env.step(index)
                    expected_reward, expected_done = twin.step(actions[index])
                    ok(type(reward) is type(expected_reward))
                    ok(reward == expected_reward)
                    ok(done is expected_done)
                    check_output(output, info)
                    if done:
                        twin.reset()
                        check_output(env.reset())

        if through is not None:
            # driving through the wrappers installed by gym.make
            inner.set_seed(seeds[0])
            twin.set_seed(seeds[0])
            twin.reset()
            assert_same_dict(
                top.reset(), twin_orep.convert(twin.observation)
            )
            output = top.step(len(actions) - 1)
            expected_reward, expected_done = twin.step(actions[-1])
            ok(len(output) == 4)
            assert_same_dict(output[0], twin_orep.convert(twin.observation))
            ok(output[1] == expected_reward and output[2] is expected_done)
            ok(output[3] == {})


# -- shipped configurations ------------------------------------------------

registered_dir = os.path.join(
    os.path.dirname(gv_gym.__file__), 'registered_envs'
)
ok(len(gv_gym.STRING_TO_YAML_FILE) == 21)
for env_id, filename in gv_gym.STRING_TO_YAML_FILE.items():
    path = os.path.join(registered_dir, filename)

    def make_inner(path=path):
        with open(path) as f:
            return factory_env_from_data(_yaml.safe_load(f))

    def through(env_id=env_id):
        return gym.make(env_id, disable_env_checker=True)

    big = any(size in env_id for size in ['9x9', '10x10', '13x13'])
    seeds = [7] if big else [0, 1337]
    check_gym_env(make_inner, seeds, length=6 if big else 12)
    check_gym_env(make_inner, seeds[:1], length=5, through=through)


# -- hand-built awkward environments ----------------------------------------


def make_awkward_inner(shape, area, start, orientation, object_types, colors):
    """non-square walled room with a locked door, its key and an exit, seen
    through an arbitrary (possibly asymmetric) view area"""
    height, width = shape

    def reset_function(*, rng=None):
        grid = Grid.from_shape((height, width))
        if width > 2:
            grid[0, width - 1] = Exit()
            grid[height - 1, width - 2] = Door(Door.Status.LOCKED, Color.YELLOW)
            grid[height - 1, 0] = Key(Color.YELLOW)
        if height > 2:
            grid[1, width - 1] = Wall()
        return State(grid, Agent(Position(*start), orientation))

    transition_function = transition_fs.factory(
        'chain',
        transition_functions=[
            transition_fs.factory('move_agent'),
            transition_fs.factory('turn_agent'),
            transition_fs.factory('actuate_door'),
            transition_fs.factory('pickndrop'),
        ],
    )
    reward_function = reward_fs.factory(
        'reduce_sum',
        reward_functions=[
            reward_fs.factory('reach_exit', reward_on=5.0, reward_off=0.0),
            reward_fs.factory('living_reward', reward=-0.05),
            reward_fs.factory(
                'pickndrop', object_type=Key, reward_pick=1.0, reward_drop=-1.0
            ),
        ],
    )
    # `partially_occluded` needs the agent on the bottom row of the view
    observation_function = observation_fs.factory(
        'partially_occluded' if area.ymax == 0 else 'raytracing', area=area
    )
    terminating_function = terminating_fs.factory('reach_exit')
    return GridWorld(
        StateSpace(Shape(height, width), object_types, colors),
        ActionSpace(list(Action)),
        ObservationSpace(Shape(area.height, area.width), object_types, colors),
        reset_function,
        transition_function,
        observation_function,
        reward_function,
        terminating_function,
    )


object_types = [Wall, Floor, Exit, Door, Key]
for shape, area, orientations in [
    ((2, 7), Area((-6, 0), (-3, 3)), list(Orientation)[:4]),
    ((6, 3), Area((-3, 1), (-1, 3)), list(Orientation)[:4]),
    ((3, 4), Area((-1, 2), (-4, 0)), [Orientation.L, Orientation.B]),
    ((1, 5), Area((0, 0), (0, 0)), [Orientation.R]),
    ((4, 4), Area((-2, 2), (0, 2)), [Orientation.F, Orientation.R]),
]:
    height, width = shape
    corners = [
        (0, 0),
        (0, width - 1),
        (height - 1, 0),
        (height - 1, width - 1),
    ]
    for start, orientation in zip(
        itertools.cycle(corners), orientations
    ):
        if shape[1] > 2 and start == (0, width - 1):
            start = (0, 1 % width)  # not on the exit
        check_gym_env(
            lambda: make_awkward_inner(
                shape,
                area,
                start,
                orientation,
                object_types,
                [Color.NONE, Color.YELLOW],
            ),
            seeds=[3],
            length=30,
            allow_state=min(shape) > 1,
        )

# several environments alive in one process, interleaved
path_a = os.path.join(registered_dir, 'gv_keydoor.5x5.yaml')
path_b = os.path.join(registered_dir, 'gv_dynamic_obstacles.7x7.yaml')
envs = []
for path in [path_a, path_b, path_a]:
    with open(path) as f:
        inner = factory_env_from_data(_yaml.safe_load(f))
    with open(path) as f:
        twin = factory_env_from_data(_yaml.safe_load(f))
    genv = GymEnvironment(
        OuterEnv(
            inner,
            observation_representation=make_observation_representation(
                'compact', inner.observation_space
            ),
        )
    )
    inner.set_seed(11)
    twin.set_seed(11)
    envs.append(
        (
            genv,
            twin,
            make_observation_representation('compact', twin.observation_space),
        )
    )
for genv, twin, rep in envs:
    twin.reset()
    assert_same_dict(genv.reset(), rep.convert(twin.observation))
for t in range(20):
    for k, (genv, twin, rep) in enumerate(envs):
        index = (t + k) % genv.action_space.n
        output, reward, done, info = genv.step(index)
        expected_reward, expected_done = twin.step(
            twin.action_space.actions[index]
        )
        assert_same_dict(output, rep.convert(twin.observation))
        ok(genv.observation_space.contains(output))
        ok(reward == expected_reward and done is expected_done)
        if done:
            twin.reset()
            assert_same_dict(genv.reset(), rep.convert(twin.observation))

print(f'OK ({num_areas} subgrid areas, {checks} checks)')
