import copy
import functools
import glob
import importlib
import inspect
import itertools
import os
import sys

sys.path.insert(0, os.getcwd())
sys.path.insert(0, os.path.join(os.getcwd(), 'examples'))  # for coin_env

import numpy as np
from schema import SchemaError

import gym_gridverse.grid_object as grid_object_module
from gym_gridverse.action import Action
from gym_gridverse.envs import (
    observation_functions as observation_fs,
    reset_functions as reset_fs,
    reward_functions as reward_fs,
    terminating_functions as terminating_fs,
    transition_functions as transition_fs,
    visibility_functions as visibility_fs,
)
from gym_gridverse.envs.gridworld import GridWorld
from gym_gridverse.envs.yaml import factory as yaml_factory
from gym_gridverse.envs.yaml.schemas import schemas
from gym_gridverse.geometry import Area, Position, Shape
from gym_gridverse.grid_object import Color
from gym_gridverse.rng import get_gv_rng, reset_gv_rng
from gym_gridverse.spaces import ActionSpace, ObservationSpace, StateSpace

CHECKS = 0


def check(condition, *info):
    global CHECKS
    CHECKS += 1
    if not condition:
        print('CHECK FAILED:', *info)
        raise SystemExit(1)


def raises(exception_types, function, *args, **kwargs):
    """returns the exception raised by the call (None if it does not raise)"""
    try:
        function(*args, **kwargs)
    except exception_types as error:  # noqa
        return error
    return None

# ---------------------------------------------------------------------------
# minimal YAML reader (PyYAML is not available): supports exactly the subset
# used by the shipped configuration files -- block mappings, block sequences
# (of scalars or mappings), nested flow sequences, and plain scalars.
# ---------------------------------------------------------------------------


def _yaml_scalar(text):
    text = text.strip()
    if text in ('True', 'true'):
        return True
    if text in ('False', 'false'):
        return False
    if text in ('null', '~', ''):
        return None
    try:
        return int(text)
    except ValueError:
        pass
    try:
        return float(text)
    except ValueError:
        pass
    if len(text) >= 2 and text[0] == text[-1] and text[0] in '\'"':
        return text[1:-1]
    return text


def _yaml_flow(text):
    """parses a (nested) flow sequence such as `[ [ -6, 0 ], [-3, 3 ] ]`"""
    pos = 0

    def skip():
        nonlocal pos
        while pos < len(text) and text[pos] in ' \t':
            pos += 1

    def value():
        nonlocal pos
        skip()
        if text[pos] == '[':
            pos += 1
            items = []
            skip()
            if text[pos] == ']':
                pos += 1
                return items
            while True:
                items.append(value())
                skip()
                if text[pos] == ',':
                    pos += 1
                    continue
                assert text[pos] == ']', text
                pos += 1
                return items
        start = pos
        while pos < len(text) and text[pos] not in ',]':
            pos += 1
        return _yaml_scalar(text[start:pos])

    result = value()
    skip()
    assert pos == len(text), text
    return result


def _yaml_value(text):
    text = text.strip()
    return _yaml_flow(text) if text.startswith('[') else _yaml_scalar(text)


def mini_yaml_load(text):
    lines = []
    for raw in text.splitlines():
        if '#' in raw:
            raw = raw[: raw.index('#')]
        if raw.strip():
            assert '\t' not in raw
            lines.append((len(raw) - len(raw.lstrip(' ')), raw.strip()))

    def block(i, indent):
        """parses the block starting at line i, with the given indentation"""
        assert lines[i][0] == indent
        if lines[i][1].startswith('- ') or lines[i][1] == '-':
            items = []
            while i < len(lines) and lines[i][0] == indent:
                content = lines[i][1]
                assert content.startswith('-')
                rest = content[1:]
                inner = rest.lstrip(' ')
                inner_indent = indent + 1 + (len(rest) - len(inner))
                if ':' in inner and not inner.startswith('['):
                    # mapping item: re-interpret the line as a mapping line
                    lines[i] = (inner_indent, inner)
                    item, i = block(i, inner_indent)
                else:
                    item, i = _yaml_value(inner), i + 1
                items.append(item)
            assert i == len(lines) or lines[i][0] < indent
            return items, i

        mapping = {}
        while i < len(lines) and lines[i][0] == indent:
            content = lines[i][1]
            key, _, rest = content.partition(':')
            assert _ == ':' and (rest == '' or rest[0] == ' '), content
            key = _yaml_scalar(key)
            assert key not in mapping
            if rest.strip():
                mapping[key], i = _yaml_value(rest), i + 1
            else:
                child_indent = lines[i + 1][0]
                assert child_indent > indent or (
                    child_indent == indent and lines[i + 1][1].startswith('-')
                )
                mapping[key], i = block(i + 1, child_indent)
        assert i == len(lines) or lines[i][0] < indent, lines[i]
        return mapping, i

    data, end = block(0, lines[0][0])
    assert end == len(lines)
    return data

# ---------------------------------------------------------------------------
# shipped configurations
# ---------------------------------------------------------------------------


def load_shipped_configs():
    """returns {path: data} for every shipped configuration file"""
    paths = (
        sorted(glob.glob('yaml/*.yaml'))
        + sorted(glob.glob('gym_gridverse/registered_envs/*.yaml'))
        + sorted(glob.glob('examples/*.yaml'))
    )
    check(len(paths) == 43, 'unexpected number of configuration files', paths)
    configs = {}
    for path in paths:
        with open(path) as f:
            configs[path] = mini_yaml_load(f.read())
    return configs


# ---------------------------------------------------------------------------
# independent `by hand` assembly of an environment from named components
# ---------------------------------------------------------------------------

# kind -> (registry, number of positional protocol parameters)
KINDS = {
    'reset': (reset_fs.reset_function_registry, 0),
    'transition': (transition_fs.transition_function_registry, 2),
    'reward': (reward_fs.reward_function_registry, 3),
    'terminating': (terminating_fs.terminating_function_registry, 3),
    'observation': (observation_fs.observation_function_registry, 1),
    'visibility': (visibility_fs.visibility_function_registry, 2),
}

DISTANCES = {
    'manhattan': Position.manhattan_distance,
    'euclidean': Position.euclidean_distance,
}


def hand_accepted_parameters(kind, function):
    """(required, optional) parameter names, excluding protocol parameters"""
    _, num_positional = KINDS[kind]
    parameters = list(inspect.signature(function).parameters.values())
    required, optional = [], []
    for parameter in parameters[num_positional:]:
        if parameter.name == 'rng':
            continue
        if parameter.default is inspect.Parameter.empty:
            required.append(parameter.name)
        else:
            optional.append(parameter.name)
    return required, optional


def hand_object_type(name):
    if ':' in name:
        module_name, name = name.split(':')
        return getattr(importlib.import_module(module_name), name)
    return getattr(grid_object_module, name)


def hand_parameter(key, value):
    """python value of a configuration parameter"""
    if key == 'transition_functions':
        return [hand_component('transition', v) for v in value]
    if key == 'reward_functions':
        return [hand_component('reward', v) for v in value]
    if key == 'terminating_functions':
        return [hand_component('terminating', v) for v in value]
    if key == 'reward_function':
        return hand_component('reward', value)
    if key == 'visibility_function':
        return hand_component('visibility', value)
    if key == 'distance_function':
        return DISTANCES[value]
    if key == 'shape':
        height, width = value
        return Shape(height, width)
    if key == 'layout':
        return (value[0], value[1])
    if key == 'area':
        (ymin, ymax), (xmin, xmax) = value
        return Area((ymin, ymax), (xmin, xmax))
    if key == 'object_type':
        return getattr(grid_object_module, value)
    if key == 'colors':
        return {getattr(Color, name) for name in value}
    return value


def hand_component(kind, spec):
    """the named function with the accepted parameters bound (others ignored)"""
    registry, _ = KINDS[kind]
    name = spec['name']
    if ':' in name:
        module_name, name = name.split(':')
        importlib.import_module(module_name)
    function = registry.data[name]
    required, optional = hand_accepted_parameters(kind, function)
    bound = {
        key: hand_parameter(key, value)
        for key, value in spec.items()
        if key != 'name' and key in required + optional
    }
    assert all(key in bound for key in required), (kind, spec)
    return functools.partial(function, **bound)


def hand_env(data):
    """assembles the environment described by `data` by hand"""
    reset_function = hand_component('reset', data['reset_function'])
    transition_function = functools.partial(
        transition_fs.chain,
        transition_functions=[
            hand_component('transition', spec)
            for spec in data['transition_functions']
        ],
    )
    reward_function = functools.partial(
        reward_fs.reduce_sum,
        reward_functions=[
            hand_component('reward', spec) for spec in data['reward_functions']
        ],
    )
    observation_function = hand_component(
        'observation', data['observation_function']
    )
    terminating_function = hand_component(
        'terminating', data['terminating_function']
    )

    if 'action_space' in data:
        actions = [getattr(Action, name) for name in data['action_space']]
    else:
        actions = list(Action)

    # the shapes are those of an initial state and of its observation
    state = reset_function()
    observation = observation_function(state)

    state_space = StateSpace(
        state.grid.shape,
        [hand_object_type(name) for name in data['state_space']['objects']],
        [getattr(Color, name) for name in data['state_space']['colors']],
    )
    observation_space = ObservationSpace(
        observation.grid.shape,
        [
            hand_object_type(name)
            for name in data['observation_space']['objects']
        ],
        [getattr(Color, name) for name in data['observation_space']['colors']],
    )
    return GridWorld(
        state_space,
        ActionSpace(actions),
        observation_space,
        reset_function,
        transition_function,
        observation_function,
        reward_function,
        terminating_function,
    )


# ---------------------------------------------------------------------------
# behavioural comparison of two environments
# ---------------------------------------------------------------------------


def rng_state(rng):
    return repr(rng.bit_generator.state)


def space_signature(space):
    return (
        type(space).__name__,
        space.grid_shape,
        list(space.object_types),
        set(space.colors),
    )


def check_same_spaces(env, ref, info):
    check(
        space_signature(env.state_space) == space_signature(ref.state_space),
        'state space',
        info,
    )
    check(
        space_signature(env.observation_space)
        == space_signature(ref.observation_space),
        'observation space',
        info,
    )
    check(
        list(env.action_space.actions) == list(ref.action_space.actions),
        'action space',
        info,
    )


def check_same_behaviour(env, ref, seeds, num_steps, info):
    """same trajectories (and same random draws) under the same seeds/actions"""
    actions = list(ref.action_space.actions)
    for seed in seeds:
        env.set_seed(seed)
        ref.set_seed(seed)
        env.reset()
        ref.reset()
        action_rng = np.random.default_rng(1000 + seed)
        for t in range(num_steps):
            check(env.state == ref.state, 'state', info, seed, t)
            check(env.observation == ref.observation, 'obs', info, seed, t)
            check(env.state_space.contains(env.state), 'contains', info)
            check(
                env.observation_space.contains(env.observation),
                'obs contains',
                info,
            )
            action = actions[action_rng.integers(len(actions))]
            reward, done = env.step(action)
            ref_reward, ref_done = ref.step(action)
            check(
                reward == ref_reward and type(reward) is type(ref_reward),
                'reward',
                info,
                seed,
                t,
                reward,
                ref_reward,
            )
            check(done is ref_done or done == ref_done, 'done', info, seed, t)
            check(
                rng_state(env._rng) == rng_state(ref._rng),
                'rng consumption',
                info,
                seed,
                t,
            )
            if done:
                env.reset()
                ref.reset()
        check(env.state == ref.state, 'final state', info, seed)
    # actions outside of the action space are rejected by both
    for action in Action:
        if action not in actions:
            check(
                raises(ValueError, env.step, action) is not None,
                'action outside of action space',
                info,
                action,
            )


def check_config_builds_described_env(path, data, seeds, num_steps):
    """factory_env_from_data(data) == by-hand assembly;  data untouched"""
    pristine = copy.deepcopy(data)

    schemas['env'].validate(data)
    check(data == pristine, 'validation changed the data', path)

    reset_gv_rng(12345)
    env = yaml_factory.factory_env_from_data(data)
    rng_after_factory = rng_state(get_gv_rng())
    check(data == pristine, 'building changed the data', path)
    check(repr(data) == repr(pristine), 'building changed the data', path)

    reset_gv_rng(12345)
    ref = hand_env(pristine)
    check(
        rng_after_factory == rng_state(get_gv_rng()),
        'library-level random draws while building',
        path,
    )

    check(type(env) is GridWorld, path)
    check_same_spaces(env, ref, path)
    check_same_behaviour(env, ref, seeds, num_steps, path)

    # repeatable
    env2 = yaml_factory.factory_env_from_data(data)
    check(data == pristine, 'rebuilding changed the data', path)
    check_same_spaces(env2, ref, path)
    check_same_behaviour(env2, ref, seeds[:1], num_steps, path)
    return env


# ---------------------------------------------------------------------------
# packaged copies and gym registration
# ---------------------------------------------------------------------------


def check_packaging_and_registration():
    import gym

    import gym_gridverse.gym as gv_gym

    names = sorted(os.listdir('yaml'))
    check(names == sorted(os.listdir('gym_gridverse/registered_envs')), names)
    for name in names:
        with open(os.path.join('yaml', name), 'rb') as f:
            shipped = f.read()
        with open(os.path.join('gym_gridverse/registered_envs', name), 'rb') as f:
            packaged = f.read()
        check(shipped == packaged, 'packaged copy differs', name)

    check(sorted(gv_gym.STRING_TO_YAML_FILE.values()) == names)
    check(gv_gym.env_ids == list(gv_gym.STRING_TO_YAML_FILE.keys()))
    registered = [k for k in gym.envs.registry.keys() if k.startswith('GV-')]
    check(sorted(registered) == sorted(gv_gym.env_ids), registered)
    for env_id, name in gv_gym.STRING_TO_YAML_FILE.items():
        spec = gym.spec(env_id)
        check(spec.entry_point == 'gym_gridverse.gym:from_factory', env_id)
        factory = spec.kwargs['factory']
        check(factory.func is gv_gym.outer_env_factory, env_id)
        check(len(factory.args) == 1 and not factory.keywords, env_id)
        expected = os.path.join(
            os.getcwd(), 'gym_gridverse', 'registered_envs', name
        )
        check(
            os.path.realpath(factory.args[0]) == os.path.realpath(expected),
            env_id,
            factory.args,
        )


# ---------------------------------------------------------------------------
# systematic corruptions of a configuration:  all must be rejected
# ---------------------------------------------------------------------------

CHILD_LISTS = {
    'transition_functions': 'transition',
    'reward_functions': 'reward',
    'terminating_functions': 'terminating',
}
CHILD_ITEMS = {'reward_function': 'reward', 'visibility_function': 'visibility'}


def component_specs(data):
    """yields (kind, path) of every component spec in the configuration"""

    def walk(kind, path, spec):
        yield kind, path
        for key, value in spec.items():
            if key in CHILD_LISTS:
                for i, child in enumerate(value):
                    yield from walk(CHILD_LISTS[key], path + (key, i), child)
            elif key in CHILD_ITEMS:
                yield from walk(CHILD_ITEMS[key], path + (key,), value)

    yield from walk('reset', ('reset_function',), data['reset_function'])
    for i, spec in enumerate(data['transition_functions']):
        yield from walk('transition', ('transition_functions', i), spec)
    for i, spec in enumerate(data['reward_functions']):
        yield from walk('reward', ('reward_functions', i), spec)
    yield from walk(
        'observation', ('observation_function',), data['observation_function']
    )
    yield from walk(
        'terminating', ('terminating_function',), data['terminating_function']
    )


def get_path(data, path):
    for key in path:
        data = data[key]
    return data


BAD_SHAPES = [[0, 5], [5, 0], [-3, 5], [5], [], [5, 5, 5], ['a', 5], [5.0, 5], 'x', 7, None]
BAD_COLORS = [['PURPLE'], ['RED', 'PURPLE'], [], ['RED', 'RED'], 'RED', [1], None, ['red']]
BAD_ACTIONS = [['JUMP'], [], ['TURN_LEFT', 'TURN_LEFT'], 'TURN_LEFT', [0], None, ['turn_left']]
BAD_OBJECTS = [['Nope'], [], ['Wall', 'Wall'], 'Wall', [3], None]


def corruptions(data):
    """yields (description, corrupted deep copy, expected exception types)"""

    def corrupted(path, mutate):
        new = copy.deepcopy(data)
        mutate(get_path(new, path))
        return new

    both = (SchemaError, ValueError)

    # top-level structure
    for key in list(data):
        if key != 'action_space':
            yield f'no {key}', corrupted((), lambda d: d.pop(key)), (SchemaError,)
    yield 'extra key', corrupted((), lambda d: d.update(extra=1)), (SchemaError,)
    for key in ('transition_functions', 'reward_functions'):
        yield f'empty {key}', corrupted((), lambda d: d.update({key: []})), (SchemaError,)

    # spaces
    for space in ('state_space', 'observation_space'):
        for bad in BAD_COLORS:
            yield f'{space} colors {bad}', corrupted((space,), lambda d: d.update(colors=bad)), (SchemaError,)
        for bad in BAD_OBJECTS:
            yield f'{space} objects {bad}', corrupted((space,), lambda d: d.update(objects=bad)), both
        yield f'{space} extra', corrupted((space,), lambda d: d.update(shape=[3, 3])), (SchemaError,)
        yield f'{space} no colors', corrupted((space,), lambda d: d.pop('colors')), (SchemaError,)
    for bad in BAD_ACTIONS:
        yield f'actions {bad}', corrupted((), lambda d: d.update(action_space=bad)), (SchemaError,)

    # components
    for kind, path in component_specs(data):
        spec = get_path(data, path)
        yield f'{path} unknown name', corrupted(path, lambda d: d.update(name='no_such_function')), (ValueError,)
        yield f'{path} unknown module', corrupted(path, lambda d: d.update(name='no_such_module_xyz:f')), (ImportError,)
        yield f'{path} no name', corrupted(path, lambda d: d.pop('name')), (SchemaError,)
        yield f'{path} name not str', corrupted(path, lambda d: d.update(name=3)), (SchemaError,)

        name = spec['name']
        if ':' in name:
            module_name, name = name.split(':')
            importlib.import_module(module_name)
        function = KINDS[kind][0].data[name]
        required, _ = hand_accepted_parameters(kind, function)
        for key in required:
            yield f'{path} missing {key}', corrupted(path, lambda d: d.pop(key)), (ValueError,)

        # malformed reserved values are rejected wherever they appear (even if
        # the component would not accept the parameter)
        for bad in BAD_SHAPES:
            yield f'{path} shape {bad}', corrupted(path, lambda d: d.update(shape=bad)), (SchemaError,)
            yield f'{path} layout {bad}', corrupted(path, lambda d: d.update(layout=bad)), (SchemaError,)
        for bad in BAD_COLORS:
            yield f'{path} colors {bad}', corrupted(path, lambda d: d.update(colors=bad)), (SchemaError,)
        yield f'{path} object_type', corrupted(path, lambda d: d.update(object_type='Nope')), (ValueError,)
        yield f'{path} object_type 3', corrupted(path, lambda d: d.update(object_type=3)), (SchemaError,)
        yield f'{path} distance', corrupted(path, lambda d: d.update(distance_function='chebyshev')), (SchemaError,)
        for key, child_kind in CHILD_LISTS.items():
            yield f'{path} {key} []', corrupted(path, lambda d: d.update({key: []})), (SchemaError,)
            yield f'{path} {key} unknown', corrupted(path, lambda d: d.update({key: [{'name': 'no_such_function'}]})), (ValueError,)
            yield f'{path} {key} noname', corrupted(path, lambda d: d.update({key: [{'nome': 'x'}]})), (SchemaError,)
        yield f'{path} reward_function', corrupted(path, lambda d: d.update(reward_function={'name': 'no_such_function'})), (ValueError,)
        yield f'{path} reward_function 2', corrupted(path, lambda d: d.update(reward_function='living_reward')), (SchemaError,)
        yield f'{path} visibility_function', corrupted(path, lambda d: d.update(visibility_function={'name': 'no_such_function'})), (ValueError,)


def check_corruptions_rejected(path, data):
    count = 0
    for description, corrupted, expected in corruptions(data):
        pristine = copy.deepcopy(corrupted)
        error = raises(Exception, yaml_factory.factory_env_from_data, corrupted)
        check(
            error is not None and isinstance(error, expected),
            'corruption not rejected as expected',
            path,
            description,
            repr(error),
        )
        check(corrupted == pristine, 'rejection changed the data', path, description)
        count += 1
    return count


# ---------------------------------------------------------------------------
# specific to this refactoring:  the schemas
# ---------------------------------------------------------------------------

import hashlib
import json

from schema import And, Optional, Schema

from gym_gridverse.envs.yaml import schemas as schemas_module

FUNCTION_KEYS = [
    'reset_function',
    'transition_function',
    'reward_function',
    'observation_function',
    'visibility_function',
    'terminating_function',
]
FUNCTION_DESCRIPTIONS = {
    'reset_function': 'A reset function',
    'transition_function': 'A transition function',
    'reward_function': 'A reward function',
    'observation_function': 'An observation function',
    'visibility_function': 'A visibility function',
    'terminating_function': 'A terminating function',
}
LIST_DESCRIPTIONS = {
    'reset_functions': 'A list of reset functions',
    'transition_functions': 'A list of transition functions',
    'reward_functions': 'A list of reward functions',
    'terminating_functions': 'A list of terminating functions',
}
RESERVED_KEYS = [
    'reset_function',
    'transition_function',
    'reward_function',
    'terminating_function',
    'reset_functions',
    'transition_functions',
    'reward_functions',
    'terminating_functions',
    'shape',
    'layout',
    'object_type',
    'colors',
]
SCHEMA_KEYS = [
    'shape',
    'layout',
    'area',
    'object_type',
    'action',
    'color',
    'object_types',
    'actions',
    'colors',
    'reset_function',
    'transition_function',
    'reward_function',
    'observation_function',
    'visibility_function',
    'terminating_function',
    'distance_function',
    'reset_functions',
    'transition_functions',
    'reward_functions',
    'terminating_functions',
    'state_space',
    'action_space',
    'observation_space',
    'env',
]

# sha256 prefixes of json.dumps(schemas[key].json_schema('x')), with and
# without sort_keys, as generated by the library before any refactoring
JSON_SCHEMA_DIGESTS = {
    'shape': ('a47a7a3db2eb7f8d', '7834fdf3fc87bcdf'),
    'layout': ('a47a7a3db2eb7f8d', '7834fdf3fc87bcdf'),
    'area': ('39d0030f6597fbe5', '02458f96fe626832'),
    'object_type': ('acd6062e328f3f25', 'ecd21cd4309b7d6e'),
    'action': ('6a919ad9d7f4f776', '3a4704635b9d841f'),
    'color': ('84ab3fb3002ab815', '248e6751c7244b89'),
    'object_types': ('1176cea79cfc2f78', '024f74d34c664802'),
    'actions': ('995b3f4b1c504734', '3cf63573c78d5fcd'),
    'colors': ('ee4806125df1264e', '64cb9db549929d9b'),
    'reset_function': ('c6cde527eb4b705d', 'c2923a19f5993616'),
    'transition_function': ('8a0477051e1526b9', 'c342037e18e52a36'),
    'reward_function': ('53b4e5ec160e92c5', '3d532e73e6e3dcca'),
    'observation_function': ('de84c48eb572e20f', 'f9527762c1f6e023'),
    'visibility_function': ('6493064124cbe416', '169746ceb7c4ff8c'),
    'terminating_function': ('0724be1d4c0e15b9', '58d68ebba71e2982'),
    'distance_function': ('065e6eca2071de7c', 'c613aa819e22e9ea'),
    'reset_functions': ('d0fba0ab4f54dba8', '57a0cd4bde1aa1b5'),
    'transition_functions': ('7ee85bed2591b9d8', 'dfda1745a3d84f8f'),
    'reward_functions': ('59569347d85db61a', '63bf76dcf660b449'),
    'terminating_functions': ('cfd849ed1ec66773', 'e3532c55f679d6d5'),
    'state_space': ('bd8a9ae6f96ae47f', '7103d4b7c8a5d701'),
    'action_space': ('f51dde5c85e52686', 'f51dde5c85e52686'),
    'observation_space': ('037136cddf42d88d', '2ad5d5e04990f949'),
    'env': ('f7b920f977ba5bc0', 'c9d289d7cd4fba1a'),
}


def check_schema_table_structure():
    check(list(schemas) == SCHEMA_KEYS, list(schemas))
    check(all(isinstance(s, Schema) for s in schemas.values()))
    check(schemas_module.schema_keys == FUNCTION_KEYS, schemas_module.schema_keys)
    check(schemas_module.reserved_keys == RESERVED_KEYS, schemas_module.reserved_keys)

    # function schemas:  distinct objects, each validating the reserved keys
    # with the (unique, shared) schemas of those keys
    check(len({id(schemas[key]) for key in FUNCTION_KEYS}) == 6)
    check(len({id(schemas[key].schema) for key in FUNCTION_KEYS}) == 6)
    for key in FUNCTION_KEYS:
        schema = schemas[key]
        check(schema.name == key, key, schema.name)
        check(schema.description == FUNCTION_DESCRIPTIONS[key], key, schema.description)
        check(schema.as_reference is True, key)
        check(type(schema.schema) is dict, key)
        skeys = list(schema.schema)
        check(skeys[0] == 'name' and schema.schema['name'] is str, key)
        check(type(skeys[1]) is Optional and skeys[1].schema is object, key)
        check(schema.schema[skeys[1]] is object, key)
        check(len(skeys) == 2 + len(RESERVED_KEYS), key, skeys)
        for skey, reserved_key in zip(skeys[2:], RESERVED_KEYS):
            check(type(skey) is Optional and skey.schema == reserved_key, key, skey)
            check(schema.schema[skey] is schemas[reserved_key], key, reserved_key)

    for key, description in LIST_DESCRIPTIONS.items():
        schema = schemas[key]
        check(schema.description == description, key, schema.description)
        check(schema.name is None and schema.as_reference is False, key)
        check(type(schema.schema) is And, key)
        items, non_empty = schema.schema.args
        check(type(items) is list and len(items) == 1, key)
        check(items[0] is schemas[key[:-1]], key)
        check(non_empty is schemas_module._non_empty_schema(), key)
        check(non_empty is schemas['object_types'].schema.args[1], key)

    distance = schemas['distance_function']
    check(distance.description == 'A distance function')
    check(distance.name is None and distance.as_reference is False)
    check(list(distance.schema.args) == ['manhattan', 'euclidean'])

    # the env schema refers to the very same schema objects
    env_schema = schemas['env'].schema
    for skey, svalue in env_schema.items():
        name = skey.schema if isinstance(skey, Optional) else skey
        check(svalue is schemas[name], name)
    check(
        [k.schema if isinstance(k, Optional) else k for k in env_schema]
        == [
            'state_space',
            'action_space',
            'observation_space',
            'reset_function',
            'transition_functions',
            'reward_functions',
            'observation_function',
            'terminating_function',
        ]
    )

    for key, (sorted_digest, digest) in JSON_SCHEMA_DIGESTS.items():
        json_schema = schemas[key].json_schema('x')
        text = json.dumps(json_schema, sort_keys=True)
        check(hashlib.sha256(text.encode()).hexdigest()[:16] == sorted_digest, 'json schema', key)
        text = json.dumps(json_schema)
        check(hashlib.sha256(text.encode()).hexdigest()[:16] == digest, 'json schema order', key)


# independent validators, written from the documentation of the format

COLOR_NAMES = ['NONE', 'RED', 'GREEN', 'BLUE', 'YELLOW']
ACTION_NAMES = [
    'MOVE_FORWARD',
    'MOVE_BACKWARD',
    'MOVE_LEFT',
    'MOVE_RIGHT',
    'TURN_LEFT',
    'TURN_RIGHT',
    'ACTUATE',
    'PICK_N_DROP',
]


def is_str(x):
    return isinstance(x, str)


def is_name(names):
    # NOTE:  1 == True == 1.0, but names are strings
    return lambda x: any(x == name for name in names)


def is_list_of(valid_item, non_empty=False, unique=False, length=None):
    def valid(x):
        if not isinstance(x, list):
            return False
        if not all(valid_item(item) for item in x):
            return False
        if non_empty and len(x) == 0:
            return False
        if unique and len(set(x)) != len(x):
            return False
        return length is None or len(x) == length

    return valid


def is_int(x):
    return isinstance(x, int) and not isinstance(x, bool)


def is_positive_int(x):
    return is_int(x) and x > 0


is_shape = is_list_of(is_positive_int, length=2)
is_colors = is_list_of(is_name(COLOR_NAMES), non_empty=True, unique=True)
is_actions = is_list_of(is_name(ACTION_NAMES), non_empty=True, unique=True)
is_object_types = is_list_of(is_str, non_empty=True, unique=True)
is_area = is_list_of(is_list_of(is_int, length=2), length=2)


def is_function(x):
    if not isinstance(x, dict):
        return False
    if 'name' not in x or not isinstance(x['name'], str):
        return False
    return all(
        RESERVED_VALIDATORS[key](value)
        for key, value in x.items()
        if isinstance(key, str) and key in RESERVED_VALIDATORS
    )


is_functions = is_list_of(is_function, non_empty=True)

RESERVED_VALIDATORS = {
    'reset_function': is_function,
    'transition_function': is_function,
    'reward_function': is_function,
    'terminating_function': is_function,
    'reset_functions': is_functions,
    'transition_functions': is_functions,
    'reward_functions': is_functions,
    'terminating_functions': is_functions,
    'shape': is_shape,
    'layout': is_shape,
    'object_type': is_str,
    'colors': is_colors,
}


def is_record(validators, optional=()):
    def valid(x):
        if not isinstance(x, dict):
            return False
        if any(not isinstance(key, str) or key not in validators for key in x):
            return False
        if any(key not in x for key in validators if key not in optional):
            return False
        return all(validators[key](value) for key, value in x.items())

    return valid


is_space = is_record({'objects': is_object_types, 'colors': is_colors})
is_env = is_record(
    {
        'state_space': is_space,
        'action_space': is_actions,
        'observation_space': is_space,
        'reset_function': is_function,
        'transition_functions': is_functions,
        'reward_functions': is_functions,
        'observation_function': is_function,
        'terminating_function': is_function,
    },
    optional=('action_space',),
)

VALIDATORS = {
    'shape': is_shape,
    'layout': is_shape,
    'area': is_area,
    'object_type': is_str,
    'action': is_name(ACTION_NAMES),
    'color': is_name(COLOR_NAMES),
    'object_types': is_object_types,
    'actions': is_actions,
    'colors': is_colors,
    'reset_function': is_function,
    'transition_function': is_function,
    'reward_function': is_function,
    'observation_function': is_function,
    'visibility_function': is_function,
    'terminating_function': is_function,
    'distance_function': is_name(['manhattan', 'euclidean']),
    'reset_functions': is_functions,
    'transition_functions': is_functions,
    'reward_functions': is_functions,
    'terminating_functions': is_functions,
    'state_space': is_space,
    'action_space': is_actions,
    'observation_space': is_space,
    'env': is_env,
}

JUNK = [
    None, 0, 1, -1, 2.5, True, 'x', '', 'RED', 'Wall', 'TURN_LEFT', 'manhattan', 'euclidean',
    [], {}, [1, 2], [5, 5], [0, 5], [5, 5, 5], [[1, 2], [3, 4]], [[1, 2], [3]], (5, 5), [5, 5.0], [True, 1],
    ['RED'], ['RED', 'RED'], ['RED', 'NONE'], ['PURPLE'], ['Wall', 'Floor'], ['Wall', 'Wall'],
    ['TURN_LEFT', 'ACTUATE'], ['TURN_LEFT', 'TURN_LEFT'], ['JUMP'],
    {'name': 'x'}, {'name': 3}, {'nome': 'x'}, {'name': 'x', 'shape': [5, 5]}, {'name': 'x', 'shape': [5]},
    {'name': 'x', 3: 4, 'area': 'anything', 'distance_function': 7},
    {'name': 'x', 'colors': ['RED'], 'layout': [1, 1], 'object_type': 'Anything'},
    {'name': 'x', 'colors': []}, {'name': 'x', 'layout': [1, 0]}, {'name': 'x', 'object_type': 3},
    [{'name': 'x'}], [{'name': 'x'}, {'name': 'y', 'shape': [1, 1]}], [{'name': 'x'}, {'name': 'y', 'shape': [1, -1]}],
    [{'name': 'x'}, 3], [{}],
    {'name': 'x', 'reward_function': {'name': 'y', 'reward_functions': [{'name': 'z', 'colors': ['BLUE']}]}},
    {'name': 'x', 'reward_function': {'name': 'y', 'reward_functions': [{'name': 'z', 'colors': ['BLUE', 3]}]}},
    {'name': 'x', 'reward_function': {'name': 'y', 'reward_functions': []}},
    {'name': 'x', 'terminating_functions': [{'name': 'y', 'transition_function': {'name': 'z', 'reset_functions': [{'name': 'w'}]}}]},
    {'name': 'x', 'terminating_functions': [{'name': 'y', 'transition_function': {'name': 'z', 'reset_functions': [{'name': None}]}}]},
    {'name': 'x', 'reset_function': 'y'}, {'name': 'x', 'transition_functions': {'name': 'y'}},
    {'name': 'x', 'observation_function': 3, 'visibility_function': [], 'observation_functions': 0},
    {'objects': ['Wall'], 'colors': ['NONE']}, {'objects': ['Wall'], 'colors': ['NONE'], 'shape': [3, 3]},
    {'objects': ['Wall']}, {'objects': [], 'colors': ['NONE']}, {'objects': ['Wall', 3], 'colors': ['NONE']},
]


def library_accepts(key, data):
    """validation outcome, after checking that validation is well-behaved"""
    pristine = copy.deepcopy(data)
    try:
        validated = schemas[key].validate(data)
    except SchemaError:
        accepted = False
    else:
        accepted = True
        check(validated == data, 'validated data differs', key, data)
    check(data == pristine and repr(data) == repr(pristine), 'validation changed the data', key)
    check(schemas[key].is_valid(data) is accepted, key, data)
    return accepted


def check_validation_against_reference(configs):
    count = 0

    # every schema x every junk value
    for key in SCHEMA_KEYS:
        for junk in JUNK:
            check(library_accepts(key, junk) == VALIDATORS[key](junk), 'schema', key, junk)
            count += 1

    # shipped configurations and their corruptions
    for path, data in configs.items():
        check(library_accepts('env', data) and is_env(data), path)
        if not (path.startswith('yaml/') and '5x5' in path or path.startswith('examples')):
            continue
        for description, corrupted, expected in corruptions(data):
            accepted = library_accepts('env', corrupted)
            check(accepted == is_env(corrupted), path, description)
            check(accepted or SchemaError in expected, path, description)
            count += 1

    # random structural mutations of the shipped configurations
    rng = np.random.default_rng(17)
    paths = [p for p in configs if not p.startswith('gym_gridverse')]

    def containers(node):
        yield node
        children = node.values() if isinstance(node, dict) else node
        for child in children:
            if isinstance(child, (dict, list)):
                yield from containers(child)

    num_accepted = 0
    for _ in range(2000):
        data = copy.deepcopy(configs[paths[rng.integers(len(paths))]])
        for _ in range(rng.integers(1, 3)):
            nodes = list(containers(data))
            node = nodes[rng.integers(len(nodes))]
            junk = copy.deepcopy(JUNK[rng.integers(len(JUNK))])
            operation = rng.integers(4)
            if isinstance(node, dict):
                keys = list(node)
                if operation == 0 and keys:
                    node[keys[rng.integers(len(keys))]] = junk
                elif operation == 1 and keys:
                    del node[keys[rng.integers(len(keys))]]
                elif operation == 2:
                    new_keys = RESERVED_KEYS + ['area', 'distance_function', 'extra']
                    node[new_keys[rng.integers(len(new_keys))]] = junk
                elif keys:
                    # swap two values
                    a, b = keys[rng.integers(len(keys))], keys[rng.integers(len(keys))]
                    node[a], node[b] = node[b], node[a]
            else:
                if operation == 0 and node:
                    node[rng.integers(len(node))] = junk
                elif operation == 1 and node:
                    del node[rng.integers(len(node))]
                elif operation == 2:
                    node.append(junk)
                elif node:
                    node.append(copy.deepcopy(node[rng.integers(len(node))]))
        accepted = library_accepts('env', data)
        check(accepted == is_env(data), 'mutation', data)
        num_accepted += accepted
        count += 1
    check(200 < num_accepted < 1800, num_accepted)  # both outcomes exercised
    return count


if __name__ == '__main__':
    check_schema_table_structure()
    configs = load_shipped_configs()
    num_validations = check_validation_against_reference(configs)
    check_packaging_and_registration()
    num_corruptions = 0
    for path, data in configs.items():
        check_config_builds_described_env(path, data, seeds=[0, 1], num_steps=40)
        if path.startswith('yaml/') and '5x5' not in path or path.startswith('examples'):
            num_corruptions += check_corruptions_rejected(path, data)
    print(
        f'demo C: ok ({num_validations} validations against the reference validators, '
        f'{len(configs)} configurations, {num_corruptions} corruptions, {CHECKS} checks)'
    )
