import copy
import functools
import glob
import importlib
import inspect
import itertools
import os
import sys

sys.path.insert(0, os.getcwd())
sys.path.insert(0, os.path.join(os.getcwd(), 'examples'))  # for coin_env

import numpy as np
from schema import SchemaError

import gym_gridverse.grid_object as grid_object_module
from gym_gridverse.action import Action
from gym_gridverse.envs import (
    observation_functions as observation_fs,
    reset_functions as reset_fs,
    reward_functions as reward_fs,
    terminating_functions as terminating_fs,
    transition_functions as transition_fs,
    visibility_functions as visibility_fs,
)
from gym_gridverse.envs.gridworld import GridWorld
from gym_gridverse.envs.yaml import factory as yaml_factory
from gym_gridverse.envs.yaml.schemas import schemas
from gym_gridverse.geometry import Area, Position, Shape
from gym_gridverse.grid_object import Color
from gym_gridverse.rng import get_gv_rng, reset_gv_rng
from gym_gridverse.spaces import ActionSpace, ObservationSpace, StateSpace

CHECKS = 0


def check(condition, *info):
    global CHECKS
    CHECKS += 1
    if not condition:
        print('CHECK FAILED:', *info)
        raise SystemExit(1)


def raises(exception_types, function, *args, **kwargs):
    """returns the exception raised by the call (None if it does not raise)"""
    try:
        function(*args, **kwargs)
    except exception_types as error:  # noqa
        return error
    return None

# ---------------------------------------------------------------------------
# minimal YAML reader (PyYAML is not available): supports exactly the subset
# used by the shipped configuration files -- block mappings, block sequences
# (of scalars or mappings), nested flow sequences, and plain scalars.
# ---------------------------------------------------------------------------


def _yaml_scalar(text):
    text = text.strip()
    if text in ('True', 'true'):
        return True
    if text in ('False', 'false'):
        return False
    if text in ('null', '~', ''):
        return None
    try:
        return int(text)
    except ValueError:
        pass
    try:
        return float(text)
    except ValueError:
        pass
    if len(text) >= 2 and text[0] == text[-1] and text[0] in '\'"':
        return text[1:-1]
    return text


def _yaml_flow(text):
    """parses a (nested) flow sequence such as `[ [ -6, 0 ], [-3, 3 ] ]`"""
    pos = 0

    def skip():
        nonlocal pos
        while pos < len(text) and text[pos] in ' \t':
            pos += 1

    def value():
        nonlocal pos
        skip()
        if text[pos] == '[':
            pos += 1
            items = []
            skip()
            if text[pos] == ']':
                pos += 1
                return items
            while True:
                items.append(value())
                skip()
                if text[pos] == ',':
                    pos += 1
                    continue
                assert text[pos] == ']', text
                pos += 1
                return items
        start = pos
        while pos < len(text) and text[pos] not in ',]':
            pos += 1
        return _yaml_scalar(text[start:pos])

    result = value()
    skip()
    assert pos == len(text), text
    return result


def _yaml_value(text):
    text = text.strip()
    return _yaml_flow(text) if text.startswith('[') else _yaml_scalar(text)


def mini_yaml_load(text):
    lines = []
    for raw in text.splitlines():
        if '#' in raw:
            raw = raw[: raw.index('#')]
        if raw.strip():
            assert '\t' not in raw
            lines.append((len(raw) - len(raw.lstrip(' ')), raw.strip()))

    def block(i, indent):
        """parses the block starting at line i, with the given indentation"""
        assert lines[i][0] == indent
        if lines[i][1].startswith('- ') or lines[i][1] == '-':
            items = []
            while i < len(lines) and lines[i][0] == indent:
                content = lines[i][1]
                assert content.startswith('-')
                rest = content[1:]
                inner = rest.lstrip(' ')
                inner_indent = indent + 1 + (len(rest) - len(inner))
                if ':' in inner and not inner.startswith('['):
                    # mapping item: re-interpret the line as a mapping line
                    lines[i] = (inner_indent, inner)
                    item, i = block(i, inner_indent)
                else:
                    item, i = _yaml_value(inner), i + 1
                items.append(item)
            assert i == len(lines) or lines[i][0] < indent
            return items, i

        mapping = {}
        while i < len(lines) and lines[i][0] == indent:
            content = lines[i][1]
            key, _, rest = content.partition(':')
            assert _ == ':' and (rest == '' or rest[0] == ' '), content
            key = _yaml_scalar(key)
            assert key not in mapping
            if rest.strip():
                mapping[key], i = _yaml_value(rest), i + 1
            else:
                child_indent = lines[i + 1][0]
                assert child_indent > indent or (
                    child_indent == indent and lines[i + 1][1].startswith('-')
                )
                mapping[key], i = block(i + 1, child_indent)
        assert i == len(lines) or lines[i][0] < indent, lines[i]
        return mapping, i

    data, end = block(0, lines[0][0])
    assert end == len(lines)
    return data

# ---------------------------------------------------------------------------
# shipped configurations
# ---------------------------------------------------------------------------


def load_shipped_configs():
    """returns {path: data} for every shipped configuration file"""
    paths = (
        sorted(glob.glob('yaml/*.yaml'))
        + sorted(glob.glob('gym_gridverse/registered_envs/*.yaml'))
        + sorted(glob.glob('examples/*.yaml'))
    )
    check(len(paths) == 43, 'unexpected number of configuration files', paths)
    configs = {}
    for path in paths:
        with open(path) as f:
            configs[path] = mini_yaml_load(f.read())
    return configs


# ---------------------------------------------------------------------------
# independent `by hand` assembly of an environment from named components
# ---------------------------------------------------------------------------

# kind -> (registry, number of positional protocol parameters)
KINDS = {
    'reset': (reset_fs.reset_function_registry, 0),
    'transition': (transition_fs.transition_function_registry, 2),
    'reward': (reward_fs.reward_function_registry, 3),
    'terminating': (terminating_fs.terminating_function_registry, 3),
    'observation': (observation_fs.observation_function_registry, 1),
    'visibility': (visibility_fs.visibility_function_registry, 2),
}

DISTANCES = {
    'manhattan': Position.manhattan_distance,
    'euclidean': Position.euclidean_distance,
}


def hand_accepted_parameters(kind, function):
    """(required, optional) parameter names, excluding protocol parameters"""
    _, num_positional = KINDS[kind]
    parameters = list(inspect.signature(function).parameters.values())
    required, optional = [], []
    for parameter in parameters[num_positional:]:
        if parameter.name == 'rng':
            continue
        if parameter.default is inspect.Parameter.empty:
            required.append(parameter.name)
        else:
            optional.append(parameter.name)
    return required, optional


def hand_object_type(name):
    if ':' in name:
        module_name, name = name.split(':')
        return getattr(importlib.import_module(module_name), name)
    return getattr(grid_object_module, name)


def hand_parameter(key, value):
    """python value of a configuration parameter"""
    if key == 'transition_functions':
        return [hand_component('transition', v) for v in value]
    if key == 'reward_functions':
        return [hand_component('reward', v) for v in value]
    if key == 'terminating_functions':
        return [hand_component('terminating', v) for v in value]
    if key == 'reward_function':
        return hand_component('reward', value)
    if key == 'visibility_function':
        return hand_component('visibility', value)
    if key == 'distance_function':
        return DISTANCES[value]
    if key == 'shape':
        height, width = value
        return Shape(height, width)
    if key == 'layout':
        return (value[0], value[1])
    if key == 'area':
        (ymin, ymax), (xmin, xmax) = value
        return Area((ymin, ymax), (xmin, xmax))
    if key == 'object_type':
        return getattr(grid_object_module, value)
    if key == 'colors':
        return {getattr(Color, name) for name in value}
    return value


def hand_component(kind, spec):
    """the named function with the accepted parameters bound (others ignored)"""
    registry, _ = KINDS[kind]
    name = spec['name']
    if ':' in name:
        module_name, name = name.split(':')
        importlib.import_module(module_name)
    function = registry.data[name]
    required, optional = hand_accepted_parameters(kind, function)
    bound = {
        key: hand_parameter(key, value)
        for key, value in spec.items()
        if key != 'name' and key in required + optional
    }
    assert all(key in bound for key in required), (kind, spec)
    return functools.partial(function, **bound)


def hand_env(data):
    """assembles the environment described by `data` by hand"""
    reset_function = hand_component('reset', data['reset_function'])
    transition_function = functools.partial(
        transition_fs.chain,
        transition_functions=[
            hand_component('transition', spec)
            for spec in data['transition_functions']
        ],
    )
    reward_function = functools.partial(
        reward_fs.reduce_sum,
        reward_functions=[
            hand_component('reward', spec) for spec in data['reward_functions']
        ],
    )
    observation_function = hand_component(
        'observation', data['observation_function']
    )
    terminating_function = hand_component(
        'terminating', data['terminating_function']
    )

    if 'action_space' in data:
        actions = [getattr(Action, name) for name in data['action_space']]
    else:
        actions = list(Action)

    # the shapes are those of an initial state and of its observation
    state = reset_function()
    observation = observation_function(state)

    state_space = StateSpace(
        state.grid.shape,
        [hand_object_type(name) for name in data['state_space']['objects']],
        [getattr(Color, name) for name in data['state_space']['colors']],
    )
    observation_space = ObservationSpace(
        observation.grid.shape,
        [
            hand_object_type(name)
            for name in data['observation_space']['objects']
        ],
        [getattr(Color, name) for name in data['observation_space']['colors']],
    )
    return GridWorld(
        state_space,
        ActionSpace(actions),
        observation_space,
        reset_function,
        transition_function,
        observation_function,
        reward_function,
        terminating_function,
    )


# ---------------------------------------------------------------------------
# behavioural comparison of two environments
# ---------------------------------------------------------------------------


def rng_state(rng):
    return repr(rng.bit_generator.state)


def space_signature(space):
    return (
        type(space).__name__,
        space.grid_shape,
        list(space.object_types),
        set(space.colors),
    )


def check_same_spaces(env, ref, info):
    check(
        space_signature(env.state_space) == space_signature(ref.state_space),
        'state space',
        info,
    )
    check(
        space_signature(env.observation_space)
        == space_signature(ref.observation_space),
        'observation space',
        info,
    )
    check(
        list(env.action_space.actions) == list(ref.action_space.actions),
        'action space',
        info,
    )


def check_same_behaviour(env, ref, seeds, num_steps, info):
    """same trajectories (and same random draws) under the same seeds/actions"""
    actions = list(ref.action_space.actions)
    for seed in seeds:
        env.set_seed(seed)
        ref.set_seed(seed)
        env.reset()
        ref.reset()
        action_rng = np.random.default_rng(1000 + seed)
        for t in range(num_steps):
            check(env.state == ref.state, 'state', info, seed, t)
            check(env.observation == ref.observation, 'obs', info, seed, t)
            check(env.state_space.contains(env.state), 'contains', info)
            check(
                env.observation_space.contains(env.observation),
                'obs contains',
                info,
            )
            action = actions[action_rng.integers(len(actions))]
            reward, done = env.step(action)
            ref_reward, ref_done = ref.step(action)
            check(
                reward == ref_reward and type(reward) is type(ref_reward),
                'reward',
                info,
                seed,
                t,
                reward,
                ref_reward,
            )
            check(done is ref_done or done == ref_done, 'done', info, seed, t)
            check(
                rng_state(env._rng) == rng_state(ref._rng),
                'rng consumption',
                info,
                seed,
                t,
            )
            if done:
                env.reset()
                ref.reset()
        check(env.state == ref.state, 'final state', info, seed)
    # actions outside of the action space are rejected by both
    for action in Action:
        if action not in actions:
            check(
                raises(ValueError, env.step, action) is not None,
                'action outside of action space',
                info,
                action,
            )


def check_config_builds_described_env(path, data, seeds, num_steps):
    """factory_env_from_data(data) == by-hand assembly;  data untouched"""
    pristine = copy.deepcopy(data)

    schemas['env'].validate(data)
    check(data == pristine, 'validation changed the data', path)

    reset_gv_rng(12345)
    env = yaml_factory.factory_env_from_data(data)
    rng_after_factory = rng_state(get_gv_rng())
    check(data == pristine, 'building changed the data', path)
    check(repr(data) == repr(pristine), 'building changed the data', path)

    reset_gv_rng(12345)
    ref = hand_env(pristine)
    check(
        rng_after_factory == rng_state(get_gv_rng()),
        'library-level random draws while building',
        path,
    )

    check(type(env) is GridWorld, path)
    check_same_spaces(env, ref, path)
    check_same_behaviour(env, ref, seeds, num_steps, path)

    # repeatable
    env2 = yaml_factory.factory_env_from_data(data)
    check(data == pristine, 'rebuilding changed the data', path)
    check_same_spaces(env2, ref, path)
    check_same_behaviour(env2, ref, seeds[:1], num_steps, path)
    return env


# ---------------------------------------------------------------------------
# packaged copies and gym registration
# ---------------------------------------------------------------------------


def check_packaging_and_registration():
    import gym

    import gym_gridverse.gym as gv_gym

    names = sorted(os.listdir('yaml'))
    check(names == sorted(os.listdir('gym_gridverse/registered_envs')), names)
    for name in names:
        with open(os.path.join('yaml', name), 'rb') as f:
            shipped = f.read()
        with open(os.path.join('gym_gridverse/registered_envs', name), 'rb') as f:
            packaged = f.read()
        check(shipped == packaged, 'packaged copy differs', name)

    check(sorted(gv_gym.STRING_TO_YAML_FILE.values()) == names)
    check(gv_gym.env_ids == list(gv_gym.STRING_TO_YAML_FILE.keys()))
    registered = [k for k in gym.envs.registry.keys() if k.startswith('GV-')]
    check(sorted(registered) == sorted(gv_gym.env_ids), registered)
    for env_id, name in gv_gym.STRING_TO_YAML_FILE.items():
        spec = gym.spec(env_id)
        check(spec.entry_point == 'gym_gridverse.gym:from_factory', env_id)
        factory = spec.kwargs['factory']
        check(factory.func is gv_gym.outer_env_factory, env_id)
        check(len(factory.args) == 1 and not factory.keywords, env_id)
        expected = os.path.join(
            os.getcwd(), 'gym_gridverse', 'registered_envs', name
        )
        check(
            os.path.realpath(factory.args[0]) == os.path.realpath(expected),
            env_id,
            factory.args,
        )


# ---------------------------------------------------------------------------
# systematic corruptions of a configuration:  all must be rejected
# ---------------------------------------------------------------------------

CHILD_LISTS = {
    'transition_functions': 'transition',
    'reward_functions': 'reward',
    'terminating_functions': 'terminating',
}
CHILD_ITEMS = {'reward_function': 'reward', 'visibility_function': 'visibility'}


def component_specs(data):
    """yields (kind, path) of every component spec in the configuration"""

    def walk(kind, path, spec):
        yield kind, path
        for key, value in spec.items():
            if key in CHILD_LISTS:
                for i, child in enumerate(value):
                    yield from walk(CHILD_LISTS[key], path + (key, i), child)
            elif key in CHILD_ITEMS:
                yield from walk(CHILD_ITEMS[key], path + (key,), value)

    yield from walk('reset', ('reset_function',), data['reset_function'])
    for i, spec in enumerate(data['transition_functions']):
        yield from walk('transition', ('transition_functions', i), spec)
    for i, spec in enumerate(data['reward_functions']):
        yield from walk('reward', ('reward_functions', i), spec)
    yield from walk(
        'observation', ('observation_function',), data['observation_function']
    )
    yield from walk(
        'terminating', ('terminating_function',), data['terminating_function']
    )


def get_path(data, path):
    for key in path:
        data = data[key]
    return data


BAD_SHAPES = [[0, 5], [5, 0], [-3, 5], [5], [], [5, 5, 5], ['a', 5], [5.0, 5], 'x', 7, None]
BAD_COLORS = [['PURPLE'], ['RED', 'PURPLE'], [], ['RED', 'RED'], 'RED', [1], None, ['red']]
BAD_ACTIONS = [['JUMP'], [], ['TURN_LEFT', 'TURN_LEFT'], 'TURN_LEFT', [0], None, ['turn_left']]
BAD_OBJECTS = [['Nope'], [], ['Wall', 'Wall'], 'Wall', [3], None]


def corruptions(data):
    """yields (description, corrupted deep copy, expected exception types)"""

    def corrupted(path, mutate):
        new = copy.deepcopy(data)
        mutate(get_path(new, path))
        return new

    both = (SchemaError, ValueError)

    # top-level structure
    for key in list(data):
        if key != 'action_space':
            yield f'no {key}', corrupted((), lambda d: d.pop(key)), (SchemaError,)
    yield 'extra key', corrupted((), lambda d: d.update(extra=1)), (SchemaError,)
    for key in ('transition_functions', 'reward_functions'):
        yield f'empty {key}', corrupted((), lambda d: d.update({key: []})), (SchemaError,)

    # spaces
    for space in ('state_space', 'observation_space'):
        for bad in BAD_COLORS:
            yield f'{space} colors {bad}', corrupted((space,), lambda d: d.update(colors=bad)), (SchemaError,)
        for bad in BAD_OBJECTS:
            yield f'{space} objects {bad}', corrupted((space,), lambda d: d.update(objects=bad)), both
        yield f'{space} extra', corrupted((space,), lambda d: d.update(shape=[3, 3])), (SchemaError,)
        yield f'{space} no colors', corrupted((space,), lambda d: d.pop('colors')), (SchemaError,)
    for bad in BAD_ACTIONS:
        yield f'actions {bad}', corrupted((), lambda d: d.update(action_space=bad)), (SchemaError,)

    # components
    for kind, path in component_specs(data):
        spec = get_path(data, path)
        yield f'{path} unknown name', corrupted(path, lambda d: d.update(name='no_such_function')), (ValueError,)
        yield f'{path} unknown module', corrupted(path, lambda d: d.update(name='no_such_module_xyz:f')), (ImportError,)
        yield f'{path} no name', corrupted(path, lambda d: d.pop('name')), (SchemaError,)
        yield f'{path} name not str', corrupted(path, lambda d: d.update(name=3)), (SchemaError,)

        name = spec['name']
        if ':' in name:
            module_name, name = name.split(':')
            importlib.import_module(module_name)
        function = KINDS[kind][0].data[name]
        required, _ = hand_accepted_parameters(kind, function)
        for key in required:
            yield f'{path} missing {key}', corrupted(path, lambda d: d.pop(key)), (ValueError,)

        # malformed reserved values are rejected wherever they appear (even if
        # the component would not accept the parameter)
        for bad in BAD_SHAPES:
            yield f'{path} shape {bad}', corrupted(path, lambda d: d.update(shape=bad)), (SchemaError,)
            yield f'{path} layout {bad}', corrupted(path, lambda d: d.update(layout=bad)), (SchemaError,)
        for bad in BAD_COLORS:
            yield f'{path} colors {bad}', corrupted(path, lambda d: d.update(colors=bad)), (SchemaError,)
        yield f'{path} object_type', corrupted(path, lambda d: d.update(object_type='Nope')), (ValueError,)
        yield f'{path} object_type 3', corrupted(path, lambda d: d.update(object_type=3)), (SchemaError,)
        yield f'{path} distance', corrupted(path, lambda d: d.update(distance_function='chebyshev')), (SchemaError,)
        for key, child_kind in CHILD_LISTS.items():
            yield f'{path} {key} []', corrupted(path, lambda d: d.update({key: []})), (SchemaError,)
            yield f'{path} {key} unknown', corrupted(path, lambda d: d.update({key: [{'name': 'no_such_function'}]})), (ValueError,)
            yield f'{path} {key} noname', corrupted(path, lambda d: d.update({key: [{'nome': 'x'}]})), (SchemaError,)
        yield f'{path} reward_function', corrupted(path, lambda d: d.update(reward_function={'name': 'no_such_function'})), (ValueError,)
        yield f'{path} reward_function 2', corrupted(path, lambda d: d.update(reward_function='living_reward')), (SchemaError,)
        yield f'{path} visibility_function', corrupted(path, lambda d: d.update(visibility_function={'name': 'no_such_function'})), (ValueError,)


def check_corruptions_rejected(path, data):
    count = 0
    for description, corrupted, expected in corruptions(data):
        pristine = copy.deepcopy(corrupted)
        error = raises(Exception, yaml_factory.factory_env_from_data, corrupted)
        check(
            error is not None and isinstance(error, expected),
            'corruption not rejected as expected',
            path,
            description,
            repr(error),
        )
        check(corrupted == pristine, 'rejection changed the data', path, description)
        count += 1
    return count


# ---------------------------------------------------------------------------
# specific to this refactoring:  the component factories (by name + parameters)
# ---------------------------------------------------------------------------

from gym_gridverse.grid_object import (
    Beacon,
    Door,
    Exit,
    Key,
    MovingObstacle,
    Telepod,
    Wall,
)
from gym_gridverse.utils.functions import checkraise_kwargs, select_kwargs

FACTORIES = {
    'reset': reset_fs.factory,
    'transition': transition_fs.factory,
    'reward': reward_fs.factory,
    'terminating': terminating_fs.factory,
    'observation': observation_fs.factory,
    'visibility': visibility_fs.factory,
}

# names of keyword arguments which no component accepts as a parameter
# (`rng`, `state`, ... are part of the protocols, not parameters)
EXTRA_KEYS = ['bogus', 'rng', 'state', 'Shape']


def powerset(items):
    items = list(items)
    for size in range(len(items) + 1):
        yield from itertools.combinations(items, size)


def check_helpers():
    """select_kwargs / checkraise_kwargs against their specification"""
    rng = np.random.default_rng(3)
    universe = ['a', 'b', 'c', 'd', 'e']
    for kwargs_keys in powerset(universe):
        for order in (list(kwargs_keys), list(reversed(kwargs_keys))):
            kwargs = {key: object() for key in order}
            before = dict(kwargs)
            for keys in powerset(universe):
                for container in (list(keys), set(keys), tuple(keys), {k: 0 for k in keys}):
                    selected = select_kwargs(kwargs, container)
                    check(type(selected) is dict and selected is not kwargs)
                    check(list(selected) == [k for k in order if k in keys])
                    check(all(selected[k] is kwargs[k] for k in selected))
                    check(kwargs == before and list(kwargs) == list(before))

                error = raises(ValueError, checkraise_kwargs, kwargs, list(keys))
                missing = [k for k in keys if k not in kwargs]
                if missing:
                    check(str(error) == f'missing keyword argument `{missing[0]}`')
                else:
                    check(error is None)
    check(select_kwargs({}, []) == {} and select_kwargs({}, ['a']) == {})
    check(select_kwargs({'a': 1}, 'abc') == {'a': 1})  # any container


def check_factory_parameter_sets():
    """all registered names x all subsets of (parameters + extra keys)"""
    count = 0
    for kind, (registry, _) in KINDS.items():
        factory = FACTORIES[kind]
        check(len(registry.data) >= 4, kind)
        for name, function in registry.data.items():
            required, optional = hand_accepted_parameters(kind, function)
            accepted = required + optional
            for keys in powerset(accepted + EXTRA_KEYS):
                for order in (list(keys), list(reversed(keys))):
                    kwargs = {key: object() for key in order}
                    before = dict(kwargs)
                    try:
                        component = factory(name, **kwargs)
                    except ValueError as error:
                        missing = [k for k in required if k not in kwargs]
                        check(missing, kind, name, order, 'unexpected rejection')
                        check(
                            str(error) == f'missing keyword argument `{missing[0]}`',
                            kind, name, order, str(error),
                        )
                    else:
                        check(all(k in kwargs for k in required), kind, name, order)
                        check(type(component) is functools.partial, kind, name)
                        check(component.func is function, kind, name)
                        check(component.args == (), kind, name)
                        expected = [k for k in order if k in accepted]
                        check(list(component.keywords) == expected, kind, name, order, component.keywords)
                        check(all(component.keywords[k] is kwargs[k] for k in expected), kind, name)
                    check(kwargs == before and list(kwargs) == list(before), kind, name)
                    count += 1

        # unknown names are rejected
        for bad in ('no_such_function', '', name.upper(), name + ' ', 'chain '):
            if bad in registry.data:
                continue
            error = raises(ValueError, factory, bad, shape=Shape(3, 3))
            check(error is not None, kind, bad)
            check(str(error) == f'invalid {kind} function name {bad}', kind, str(error))
            check(isinstance(error.__cause__, KeyError), kind, bad)
        check(raises(ImportError, factory, 'no_such_module_xyz:f') is not None, kind)
        check(raises(ValueError, factory, 'a:b:c') is not None, kind)
    return count


def check_custom_names():
    """`module:name` imports the module and uses the stripped name"""
    import coin_env  # noqa  (examples/ is in the path)

    for kind, name in [
        ('reset', 'coin_maze'),
        ('transition', 'collect_coin_transition'),
        ('reward', 'collect_coin_reward'),
        ('terminating', 'no_more_coins'),
    ]:
        registry, _ = KINDS[kind]
        component = FACTORIES[kind](f'coin_env:{name}', bogus=1)
        check(component.func is registry.data[name] is getattr(coin_env, name), kind)
        check(component.keywords == {}, kind)


OUTCOMES = {'ok': 0, 'error': 0}


def outcome(function, *args, **kwargs):
    try:
        result = ('ok', function(*args, **kwargs))
    except Exception as error:  # noqa
        result = ('error', type(error), str(error))
    OUTCOMES[result[0]] += 1
    return result


def same_outcome(a, b):
    if a[0] != b[0]:
        return False
    if a[0] == 'error':
        return a == b
    x, y = a[1], b[1]
    if isinstance(x, np.ndarray):
        return isinstance(y, np.ndarray) and x.dtype == y.dtype and np.array_equal(x, y)
    return type(x) is type(y) and x == y


COLORS = {Color.RED, Color.GREEN, Color.BLUE, Color.YELLOW}

RESET_PARAMETERS = {
    'empty': [
        dict(shape=Shape(4, 4)),
        dict(shape=Shape(5, 8), random_agent=True),
        dict(shape=Shape(8, 8), random_agent=True, random_exit=True),
        dict(random_exit=True, shape=Shape(6, 5), bogus=3),
    ],
    'rooms': [
        dict(shape=Shape(7, 7), layout=(2, 2)),
        dict(layout=(3, 3), shape=Shape(10, 10)),
        dict(layout=(3, 3), shape=Shape(13, 13), colors=COLORS),
    ],
    'dynamic_obstacles': [
        dict(shape=Shape(5, 5), num_obstacles=1),
        dict(shape=Shape(7, 7), num_obstacles=3, random_agent=True),
        dict(shape=Shape(3, 3), num_obstacles=30),  # rejected by the function
    ],
    'keydoor': [dict(shape=Shape(5, 5)), dict(shape=Shape(7, 7)), dict(shape=Shape(9, 6)), dict(shape=Shape(2, 2))],
    'crossing': [
        dict(shape=Shape(5, 5), num_rivers=1, object_type=Wall),
        dict(shape=Shape(7, 7), num_rivers=2, object_type=Wall),
        dict(shape=Shape(9, 7), num_rivers=3, object_type=Beacon),
        dict(shape=Shape(6, 6), num_rivers=1, object_type=Wall),  # rejected
    ],
    'teleport': [dict(shape=Shape(5, 5)), dict(shape=Shape(7, 9), random_agent=True)],
    'memory': [
        dict(shape=Shape(5, 5), colors=COLORS),
        dict(shape=Shape(9, 9), colors={Color.RED, Color.BLUE}),
        dict(shape=Shape(5, 5), colors={Color.RED}),
    ],
    'memory_rooms': [
        dict(shape=Shape(7, 7), layout=(2, 2), colors=COLORS, num_beacons=1, num_exits=2),
        dict(shape=Shape(10, 10), layout=(3, 3), colors=COLORS, num_beacons=2, num_exits=3),
        dict(shape=Shape(13, 13), layout=(3, 3), colors={Color.RED, Color.GREEN}, num_beacons=1, num_exits=2),
    ],
    'coin_maze': [dict(), dict(shape=Shape(3, 3))],
}

OBJECT_TYPES = [Exit, Wall, Key, Door, MovingObstacle, Telepod, Beacon]
PAIRS = [(1.0, -1.0), (0.25, 3.5), (-2.0, 0.0)]

REWARD_PARAMETERS = {
    'living_reward': [dict(), dict(reward=-0.05), dict(reward=2.5, bogus=0)],
    'reach_exit': [dict()] + [dict(reward_on=a, reward_off=b) for a, b in PAIRS],
    'bump_moving_obstacle': [dict(), dict(reward=-3.0)],
    'bump_into_wall': [dict(), dict(reward=-3.0)],
    'overlap': [dict(object_type=t) for t in OBJECT_TYPES]
    + [dict(object_type=Exit, reward_on=a, reward_off=b) for a, b in PAIRS],
    'proportional_to_distance': [dict(object_type=t) for t in (Exit, Key, Beacon)]
    + [dict(object_type=Exit, distance_function=d, reward_per_unit_distance=0.3) for d in DISTANCES.values()],
    'getting_closer': [dict(object_type=t) for t in (Exit, Key, Beacon)]
    + [dict(object_type=Exit, distance_function=d, reward_closer=a, reward_further=b) for d in DISTANCES.values() for a, b in PAIRS],
    'getting_closer_shortest_path': [dict(object_type=Exit)]
    + [dict(object_type=Exit, reward_closer=a, reward_further=b, distance_function=None) for a, b in PAIRS],
    'actuate_door': [dict()] + [dict(reward_open=a, reward_close=b) for a, b in PAIRS],
    'pickndrop': [dict(object_type=Key), dict(object_type=Exit)]
    + [dict(object_type=Key, reward_pick=a, reward_drop=b) for a, b in PAIRS],
    'reach_exit_memory': [dict()] + [dict(reward_good=a, reward_bad=b) for a, b in PAIRS],
    'collect_coin_reward': [dict(), dict(reward=1.0)],
}


def collect_transitions(configs):
    """(state, action, next_state) triples from hand-assembled environments"""
    transitions = []
    names = [
        'yaml/gv_keydoor.7x7.yaml',
        'yaml/gv_dynamic_obstacles.7x7.yaml',
        'yaml/gv_memory.5x5.yaml',
        'yaml/gv_teleport.5x5.yaml',
        'yaml/gv_crossing.7x7.yaml',
        'yaml/gv_empty.4x4.yaml',
        'examples/coin_env.yaml',
    ]
    for i, name in enumerate(names):
        env = hand_env(configs[name])
        env.set_seed(i)
        env.reset()
        action_rng = np.random.default_rng(i)
        actions = env.action_space.actions
        for _ in range(60):
            state = env.state
            action = actions[action_rng.integers(len(actions))]
            _, done = env.step(action)
            transitions.append((state, action, env.state))
            if done:
                env.reset()
    return transitions


def check_component_behaviour(transitions):
    """factory(name, **parameters) behaves like function(..., **parameters)"""
    count = 0

    def accepted_only(kind, function, parameters):
        required, optional = hand_accepted_parameters(kind, function)
        return {k: v for k, v in parameters.items() if k in required + optional}

    # reset functions
    registry = KINDS['reset'][0].data
    check(set(RESET_PARAMETERS) == set(registry), sorted(registry))
    for name, parameter_sets in RESET_PARAMETERS.items():
        function = registry[name]
        for parameters in parameter_sets:
            component = reset_fs.factory(name, **parameters)
            accepted = accepted_only('reset', function, parameters)
            for seed in range(6):
                rng_a, rng_b = np.random.default_rng(seed), np.random.default_rng(seed)
                a = outcome(component, rng=rng_a)
                b = outcome(function, **accepted, rng=rng_b)
                check(same_outcome(a, b), 'reset', name, parameters, seed, a, b)
                check(rng_state(rng_a) == rng_state(rng_b), 'reset rng', name)
                count += 1

    # reward functions
    registry = KINDS['reward'][0].data
    for name, parameter_sets in REWARD_PARAMETERS.items():
        function = registry[name]
        for parameters in parameter_sets:
            component = reward_fs.factory(name, **parameters)
            accepted = accepted_only('reward', function, parameters)
            for state, action, next_state in transitions:
                a = outcome(component, state, action, next_state)
                b = outcome(function, state, action, next_state, **accepted)
                check(same_outcome(a, b), 'reward', name, parameters, a, b)
                count += 1
    leaves = [
        reward_fs.factory('living_reward', reward=-0.5),
        reward_fs.factory('reach_exit', reward_on=7.0),
        reward_fs.factory('bump_into_wall'),
    ]
    check(set(REWARD_PARAMETERS) | {'reduce', 'reduce_sum'} == set(registry), sorted(registry))
    for name, parameters in [
        ('reduce_sum', dict(reward_functions=leaves)),
        ('reduce_sum', dict(reward_functions=leaves[:1], reduction=max)),
        ('reduce', dict(reward_functions=leaves, reduction=max)),
        ('reduce', dict(reduction=min, reward_functions=leaves, bogus=1)),
    ]:
        function = registry[name]
        component = reward_fs.factory(name, **parameters)
        accepted = accepted_only('reward', function, parameters)
        for state, action, next_state in transitions:
            a = outcome(component, state, action, next_state)
            b = outcome(function, state, action, next_state, **accepted)
            check(same_outcome(a, b), 'reward', name, a, b)
            count += 1

    # terminating functions
    registry = KINDS['terminating'][0].data
    leaves = [terminating_fs.factory(n) for n in ('reach_exit', 'bump_into_wall', 'bump_moving_obstacle')]
    terminating_parameters = (
        [(n, dict()) for n in ('reach_exit', 'bump_moving_obstacle', 'bump_into_wall', 'no_more_coins')]
        + [('overlap', dict(object_type=t, reward_on=1.0)) for t in OBJECT_TYPES]
        + [('reduce_any', dict(terminating_functions=leaves)), ('reduce_all', dict(terminating_functions=leaves[1:]))]
        + [('reduce', dict(terminating_functions=leaves, reduction=r)) for r in (any, all)]
    )
    check({n for n, _ in terminating_parameters} == set(registry), sorted(registry))
    for name, parameters in terminating_parameters:
        function = registry[name]
        component = terminating_fs.factory(name, **parameters)
        accepted = accepted_only('terminating', function, parameters)
        for state, action, next_state in transitions:
            a = outcome(component, state, action, next_state)
            b = outcome(function, state, action, next_state, **accepted)
            check(same_outcome(a, b), 'terminating', name, a, b)
            count += 1

    # transition functions (in-place updates, compared on copies)
    registry = KINDS['transition'][0].data
    leaves = [transition_fs.factory(n) for n in ('move_agent', 'turn_agent', 'pickndrop', 'actuate_door')]
    transition_parameters = [(n, dict(shape=Shape(2, 2))) for n in registry if n != 'chain'] + [
        ('chain', dict(transition_functions=leaves)),
        ('chain', dict(transition_functions=leaves[:2], reward_functions=[])),
    ]
    for name, parameters in transition_parameters:
        function = registry[name]
        component = transition_fs.factory(name, **parameters)
        accepted = accepted_only('transition', function, parameters)
        for i, (state, action, _) in enumerate(transitions):
            state_a, state_b = copy.deepcopy(state), copy.deepcopy(state)
            rng_a, rng_b = np.random.default_rng(i), np.random.default_rng(i)
            a = outcome(component, state_a, action, rng=rng_a)
            b = outcome(function, state_b, action, rng=rng_b, **accepted)
            check(same_outcome(a, b), 'transition', name, a, b)
            check(state_a == state_b, 'transition', name)
            check(rng_state(rng_a) == rng_state(rng_b), 'transition rng', name)
            count += 1

    # observation and visibility functions
    registry = KINDS['observation'][0].data
    areas = [Area((-6, 0), (-3, 3)), Area((-2, 2), (-2, 2)), Area((-3, 0), (-1, 1))]
    visibilities = [
        ('fully_transparent', dict()),
        ('partially_occluded', dict(threshold=3)),
        ('raytracing', dict()),
        ('raytracing', dict(absolute_counts=False, threshold=0.4)),
        ('raytracing', dict(threshold=3, absolute_counts=True, bogus=1)),
        ('stochastic_raytracing', dict()),
    ]
    check({n for n, _ in visibilities} == set(KINDS['visibility'][0].data))
    observation_parameters = [(n, dict(area=area, shape=Shape(3, 3))) for n in registry if n != 'from_visibility' for area in areas]
    observation_parameters += [
        ('from_visibility', dict(area=area, visibility_function=visibility_fs.factory(n, **p)))
        for area in areas[:2]
        for n, p in visibilities
    ]
    check({n for n, _ in observation_parameters} == set(registry), sorted(registry))
    for name, parameters in observation_parameters:
        function = registry[name]
        component = observation_fs.factory(name, **parameters)
        accepted = accepted_only('observation', function, parameters)
        for i, (state, _, _) in enumerate(transitions[::5]):
            rng_a, rng_b = np.random.default_rng(i), np.random.default_rng(i)
            a = outcome(component, state, rng=rng_a)
            b = outcome(function, state, rng=rng_b, **accepted)
            check(same_outcome(a, b), 'observation', name, a, b)
            check(rng_state(rng_a) == rng_state(rng_b), 'observation rng', name)
            count += 1

    registry = KINDS['visibility'][0].data
    for name, parameters in visibilities:
        function = registry[name]
        component = visibility_fs.factory(name, **parameters)
        accepted = accepted_only('visibility', function, parameters)
        for i, (state, _, _) in enumerate(transitions[::5]):
            grid = state.grid
            for position in (Position(grid.shape.height - 1, grid.shape.width // 2), Position(0, 0), Position(2, 1)):
                rng_a, rng_b = np.random.default_rng(i), np.random.default_rng(i)
                a = outcome(component, grid, position, rng=rng_a)
                b = outcome(function, grid, position, rng=rng_b, **accepted)
                check(same_outcome(a, b), 'visibility', name, a, b)
                check(rng_state(rng_a) == rng_state(rng_b), 'visibility rng', name)
                count += 1
    return count


if __name__ == '__main__':
    configs = load_shipped_configs()
    check_helpers()
    check_custom_names()
    num_parameter_sets = check_factory_parameter_sets()
    num_calls = check_component_behaviour(collect_transitions(configs))
    check_packaging_and_registration()
    num_corruptions = 0
    for path, data in configs.items():
        check_config_builds_described_env(path, data, seeds=[0, 1], num_steps=40)
        if path.startswith('yaml/') and '5x5' in path or path.startswith('examples'):
            num_corruptions += check_corruptions_rejected(path, data)
    print(
        f'demo B: ok ({num_parameter_sets} name x parameter-set combinations, '
        f'{num_calls} component calls {OUTCOMES}, {len(configs)} configurations, '
        f'{num_corruptions} corruptions, {CHECKS} checks)'
    )
