"""Demo for change B (factories: one pass over the non-protocol parameters).

Exits 0 on the pristine tree and with the patch applied.

 1. `transition_functions.factory`, `reward_functions.factory` and
    `terminating_functions.factory` against a reference implementation
    embedded below (the pristine spelling), for every registered function
    (plus demo-only ones with awkward signatures) x every subset of keyword
    arguments x both orders x unknown keys: same function, same bound
    keywords in the same order, same errors;
 2. compositions built through the factories run every configured part
    exactly once, in order, on the given objects, with the given `rng`;
 3. the property itself on worlds assembled exclusively through the
    factories: purity, alias-freedom, history-independence, copies equal and
    hash like their originals.
"""
import copy
import functools
import inspect
import itertools
import os
import pickle
import sys
import warnings

import numpy as np

warnings.filterwarnings('ignore')
sys.path.insert(0, os.getcwd())  # run from the worktree root

from gym_gridverse.action import Action  # noqa: E402
from gym_gridverse.agent import Agent  # noqa: E402
from gym_gridverse.debugging import reset_gv_debug  # noqa: E402
from gym_gridverse.envs import observation_functions as observation_fs  # noqa: E402
from gym_gridverse.envs import reset_functions as reset_fs  # noqa: E402
from gym_gridverse.envs import reward_functions as reward_fs  # noqa: E402
from gym_gridverse.envs import terminating_functions as terminating_fs  # noqa: E402
from gym_gridverse.envs import transition_functions as transition_fs  # noqa: E402
from gym_gridverse.envs.gridworld import GridWorld  # noqa: E402
from gym_gridverse.geometry import Area, Orientation, Position, Shape  # noqa: E402
from gym_gridverse.grid import Grid  # noqa: E402
from gym_gridverse.grid_object import (  # noqa: E402
    Beacon,
    Box,
    Color,
    Door,
    Exit,
    Floor,
    GridObject,
    Key,
    MovingObstacle,
    Telepod,
    Wall,
)
from gym_gridverse.observation import Observation  # noqa: E402
from gym_gridverse.spaces import (  # noqa: E402
    ActionSpace,
    ObservationSpace,
    StateSpace,
)
from gym_gridverse.state import State  # noqa: E402

CHECKS = 0


def check(condition, message):
    global CHECKS
    CHECKS += 1
    if not condition:
        print(f'FAIL: {message}')
        sys.exit(1)


# --------------------------------------------------------------------------
# helpers: structural snapshots and mutable-component identities
# --------------------------------------------------------------------------


def snap_object(obj):
    """Deep structural snapshot of a grid-object (Box content included)."""
    content = getattr(obj, 'content', None)
    return (
        type(obj).__name__,
        obj.state_index,
        obj.color,
        None if content is None else snap_object(content),
    )


def snapshot(state):
    """Deep structural snapshot of a state or observation."""
    return (
        state.grid.shape,
        tuple(
            tuple(snap_object(obj) for obj in row) for row in state.grid.objects
        ),
        state.agent.position,
        state.agent.orientation,
        snap_object(state.agent.grid_object),
    )


def mutable_ids(state):
    """ids of every mutable component reachable from a state."""
    ids = {id(state.grid), id(state.grid.objects), id(state.agent)}
    ids.add(id(state.agent.transform))

    def add_object(obj):
        while obj is not None:
            ids.add(id(obj))
            obj = getattr(obj, 'content', None)

    for row in state.grid.objects:
        ids.add(id(row))
        for obj in row:
            add_object(obj)
    add_object(state.agent.grid_object)
    return ids


def scribble(state):
    """Mutates every kind of mutable component of a state, in place."""
    state.agent.position = Position(0, 0)
    state.agent.orientation = Orientation.L
    state.agent.grid_object = Key(Color.YELLOW)
    for position in state.grid.area.positions():
        obj = state.grid[position]
        if isinstance(obj, Door):
            obj.state = Door.Status.OPEN
            obj.color = Color.YELLOW
        elif isinstance(obj, Box):
            obj.content = Beacon(Color.YELLOW)
        else:
            state.grid[position] = Wall()


# --------------------------------------------------------------------------
# part 1: the three factories against a reference (the pristine spelling)
# --------------------------------------------------------------------------


def ref_factory(module, registry, kind, name, **kwargs):
    """Reference implementation of `<module>.factory(name, **kwargs)`."""
    try:
        function = registry[name]
    except KeyError as error:
        raise ValueError(f'invalid {kind} function name {name}') from error

    signature = inspect.signature(function)
    required_keys = [
        parameter.name
        for parameter in registry.get_nonprotocol_parameters(signature)
        if parameter.default is inspect.Parameter.empty
    ]
    optional_keys = [
        parameter.name
        for parameter in registry.get_nonprotocol_parameters(signature)
        if parameter.default is not inspect.Parameter.empty
    ]

    for key in required_keys:
        if key not in kwargs:
            raise ValueError(f'missing keyword argument `{key}`')
    kwargs = {
        key: value
        for key, value in kwargs.items()
        if key in required_keys + optional_keys
    }
    return functools.partial(function, **kwargs)


def outcome(function):
    """('ok', partial) or ('error', type, message, cause type)."""
    try:
        return ('ok', function())
    except Exception as error:  # pylint: disable=broad-except
        return ('error', type(error), str(error), type(error.__cause__))


def same_partial(result, reference):
    if result[0] != reference[0]:
        return False
    if result[0] == 'error':
        return result == reference
    p, q = result[1], reference[1]
    return (
        type(p) is functools.partial
        and p.func is q.func
        and p.args == q.args == ()
        and list(p.keywords.items()) == list(q.keywords.items())
        and all(p.keywords[k] is q.keywords[k] for k in p.keywords)
    )


# demo-only components with awkward signatures: an optional parameter declared
# before the required ones, several required ones, a var-keyword parameter
def demo_c03_transition(state, action, *, z=3, b, a, rng=None, **extras):
    state.agent.orientation = Orientation.L


def demo_c03_reward(state, action, next_state, *, z=3, b, a, rng=None):
    return float(z + b + a)


def demo_c03_terminating(state, action, next_state, *, z=3, b, a, rng=None):
    return bool(z + b + a)


def register_once(registry, function):
    if function.__name__ not in registry:
        registry.register(function)


FACTORIES = [
    (
        transition_fs,
        transition_fs.transition_function_registry,
        'transition',
        demo_c03_transition,
    ),
    (reward_fs, reward_fs.reward_function_registry, 'reward', demo_c03_reward),
    (
        terminating_fs,
        terminating_fs.terminating_function_registry,
        'terminating',
        demo_c03_terminating,
    ),
]

# a value for every non-protocol parameter name of the built-in components
SENTINELS = {
    'transition_functions': [],
    'reward_functions': [],
    'terminating_functions': [],
    'reduction': sum,
    'object_type': Key,
    'distance_function': Position.euclidean_distance,
    'reward': -0.75,
    'reward_on': 4.0,
    'reward_off': -4.0,
    'reward_per_unit_distance': 0.5,
    'reward_closer': 2.0,
    'reward_further': -2.0,
    'reward_open': 0.25,
    'reward_close': -0.25,
    'reward_pick': 8.0,
    'reward_drop': -8.0,
    'reward_good': 16.0,
    'reward_bad': -16.0,
    'z': 1,
    'a': 2,
    'b': 3,
    'extras': {'anything': None},
}


def test_factories():
    for module, registry, kind, demo_function in FACTORIES:
        register_once(registry, demo_function)
        before = dict(registry)

        names = list(registry) + ['no_such_function', '']
        for name in names:
            function = registry.get(name)
            parameters = (
                []
                if function is None
                else [
                    parameter.name
                    for parameter in registry.get_nonprotocol_parameters(
                        inspect.signature(function)
                    )
                ]
            )
            for parameter in parameters:
                check(parameter in SENTINELS, f'no sentinel for {parameter}')

            # every subset of the parameters, in both orders, with and
            # without unknown keys (which are dropped silently), and with the
            # protocol parameter `rng` (dropped too)
            subsets = [
                subset
                for size in range(len(parameters) + 1)
                for subset in itertools.combinations(parameters, size)
            ]
            for subset in subsets:
                for keys in (list(subset), list(reversed(subset))):
                    for extra in ({}, {'unknown': 1, 'rng': None, 'state': 0}):
                        kwargs = {key: SENTINELS[key] for key in keys}
                        kwargs.update(extra)
                        given = dict(kwargs)
                        result = outcome(
                            lambda: module.factory(name, **kwargs)
                        )
                        reference = outcome(
                            lambda: ref_factory(
                                module, registry, kind, name, **kwargs
                            )
                        )
                        check(
                            same_partial(result, reference),
                            f'{kind} factory({name!r}, {list(kwargs)}): '
                            f'{result} != {reference}',
                        )
                        check(kwargs == given, 'factory modified its kwargs')

        check(dict(registry) == before, f'{kind} registry was modified')

    # hard-coded expectations: order of the reported missing key is the
    # signature order of the required parameters, not the given order
    for module, _, kind, demo_function in FACTORIES:
        name = demo_function.__name__
        result = outcome(lambda: module.factory(name, z=0))
        check(
            result[:3] == ('error', ValueError, 'missing keyword argument `b`'),
            f'{kind}: first missing key {result}',
        )
        result = outcome(lambda: module.factory(name, b=0, z=0))
        check(
            result[:3] == ('error', ValueError, 'missing keyword argument `a`'),
            f'{kind}: second missing key {result}',
        )
        result = outcome(lambda: module.factory('nope', b=0))
        check(
            result
            == (
                'error',
                ValueError,
                f'invalid {kind} function name nope',
                KeyError,
            ),
            f'{kind}: unknown name {result}',
        )
    partial = reward_fs.factory('demo_c03_reward', a=1, junk=5, b=2)
    check(
        list(partial.keywords.items()) == [('a', 1), ('b', 2)],
        'keywords keep the given order, junk dropped',
    )
    check(partial(None, None, None) == 6.0, 'optional default still applies')
    partial = reward_fs.factory(
        'proportional_to_distance', object_type=Exit, rng=None
    )
    check(
        list(partial.keywords.items()) == [('object_type', Exit)],
        'required after optional in the signature',
    )
    partial = transition_fs.factory(
        'demo_c03_transition', a=1, b=2, extras=3, other=4
    )
    check(
        list(partial.keywords.items()) == [('a', 1), ('b', 2), ('extras', 3)],
        'var-keyword parameter is treated like a required name',
    )


# --------------------------------------------------------------------------
# part 2: every configured part runs exactly once, in order, with the rng
# --------------------------------------------------------------------------


def test_parts_run_once():
    log = []

    def make_transition(tag):
        def part(state, action, *, rng=None):
            log.append(('transition', tag, id(state), action, rng))
            state.agent.orientation = state.agent.orientation * Orientation.R

        return part

    def make_reward(tag, value):
        def part(state, action, next_state, *, rng=None):
            log.append(('reward', tag, id(state), id(next_state), action, rng))
            return value

        return part

    def make_terminating(tag, value):
        def part(state, action, next_state, *, rng=None):
            log.append(
                ('terminating', tag, id(state), id(next_state), action, rng)
            )
            return value

        return part

    rng = np.random.default_rng(3)
    for count in (0, 1, 2, 5):
        for given_rng in (None, rng):
            state = awkward_state()
            other = awkward_state(Orientation.B, Position(0, 1))
            action = Action.PICK_N_DROP

            del log[:]
            chain = transition_fs.factory(
                'chain',
                transition_functions=[make_transition(i) for i in range(count)],
            )
            check(chain(state, action, rng=given_rng) is None, 'chain -> None')
            check(
                log
                == [
                    ('transition', i, id(state), action, given_rng)
                    for i in range(count)
                ],
                f'chain parts {log}',
            )
            check(
                state.agent.orientation
                == [Orientation.F, Orientation.R, Orientation.B, Orientation.L][
                    count % 4
                ],
                'chain parts all acted on the same state',
            )

            del log[:]
            values = [0.5 * (i + 1) for i in range(count)]
            reduce_sum = reward_fs.factory(
                'reduce_sum',
                reward_functions=[
                    make_reward(i, value) for i, value in enumerate(values)
                ],
            )
            total = reduce_sum(state, action, other, rng=given_rng)
            check(total == sum(values), f'reduce_sum {total}')
            check(
                log
                == [
                    ('reward', i, id(state), id(other), action, given_rng)
                    for i in range(count)
                ],
                f'reduce_sum parts {log}',
            )

            for name, reduction, flags in [
                ('reduce_any', any, [False] * count),
                ('reduce_all', all, [True] * count),
                ('reduce_any', any, [i == 1 for i in range(count)]),
                ('reduce_all', all, [i != 1 for i in range(count)]),
            ]:
                del log[:]
                reduce_ = terminating_fs.factory(
                    name,
                    terminating_functions=[
                        make_terminating(i, flag)
                        for i, flag in enumerate(flags)
                    ],
                )
                terminal = reduce_(state, action, other, rng=given_rng)
                check(terminal is reduction(flags), f'{name} {terminal}')
                # python's any / all stop at the first decisive part: the
                # parts that do run, run once, in order
                decisive = reduction is any
                ran = (
                    flags.index(decisive) + 1
                    if decisive in flags
                    else len(flags)
                )
                check(
                    log
                    == [
                        (
                            'terminating',
                            i,
                            id(state),
                            id(other),
                            action,
                            given_rng,
                        )
                        for i in range(ran)
                    ],
                    f'{name} parts {log}',
                )


# --------------------------------------------------------------------------
# part 3: shipped compositions
# --------------------------------------------------------------------------

ALL_OBJECT_TYPES = [
    Floor,
    Wall,
    Exit,
    Door,
    Key,
    MovingObstacle,
    Box,
    Telepod,
    Beacon,
]
ALL_COLORS = list(Color)


def awkward_state(orientation=Orientation.F, position=Position(3, 0)):
    """Hand-built 4 x 7 world: nested boxes, all door states, held item."""
    grid = Grid.from_shape((4, 7))
    grid[Position(0, 0)] = Box(Box(Key(Color.RED)))
    grid[Position(0, 6)] = Door(Door.Status.LOCKED, Color.BLUE)
    grid[Position(1, 1)] = Door(Door.Status.CLOSED, Color.NONE)
    grid[Position(2, 0)] = Door(Door.Status.OPEN, Color.GREEN)
    grid[Position(3, 6)] = Exit()
    grid[Position(3, 1)] = Key(Color.GREEN)
    grid[Position(2, 6)] = Box(Telepod(Color.YELLOW))
    grid[Position(1, 3)] = Telepod(Color.RED)
    grid[Position(2, 4)] = Telepod(Color.RED)
    grid[Position(0, 3)] = MovingObstacle()
    grid[Position(1, 5)] = Wall()
    grid[Position(3, 3)] = Beacon(Color.NONE)
    return State(grid, Agent(position, orientation, Key(Color.BLUE)))


def awkward_reset(*, rng=None):
    return awkward_state()


def make_components(kind):
    """Returns (reset, transition, reward, termination), freshly built."""
    transition_names = [
        'move_obstacles',
        'turn_agent',
        'move_agent',
        'actuate_door',
        'actuate_box',
        'pickndrop',
        'teleport',
    ]
    if kind == 'keydoor':
        reset = reset_fs.factory('keydoor', shape=Shape(5, 8))
    elif kind == 'obstacles':
        reset = reset_fs.factory(
            'dynamic_obstacles',
            shape=Shape(6, 9),
            num_obstacles=5,
            random_agent=True,
        )
    elif kind == 'teleport':
        reset = reset_fs.factory('teleport', shape=Shape(7, 6))
    elif kind == 'empty':
        reset = reset_fs.factory(
            'empty', shape=Shape(4, 5), random_agent=True, random_exit=True
        )
    elif kind == 'awkward':
        reset = awkward_reset
    elif kind == 'empty-chain':
        # extreme but legal: nothing configured at all
        reset = awkward_reset
        transition_names = []
    else:
        raise AssertionError(kind)

    transition = transition_fs.factory(
        'chain',
        transition_functions=[
            transition_fs.factory(name) for name in transition_names
        ],
    )
    if kind == 'empty-chain':
        reward = reward_fs.factory('reduce_sum', reward_functions=[])
        termination = terminating_fs.factory(
            'reduce_any', terminating_functions=[]
        )
    else:
        reward = reward_fs.factory(
            'reduce_sum',
            reward_functions=[
                reward_fs.factory('living_reward', reward=-0.25),
                reward_fs.factory('reach_exit', reward_on=5.0),
                reward_fs.factory('bump_moving_obstacle', reward=-3.0),
                reward_fs.factory('bump_into_wall', reward=-0.5),
                reward_fs.factory('actuate_door', reward_open=0.125),
                reward_fs.factory('pickndrop', object_type=Key),
                reward_fs.factory('getting_closer', object_type=Exit),
            ],
        )
        termination = terminating_fs.factory(
            'reduce_any',
            terminating_functions=[
                terminating_fs.factory('reach_exit'),
                terminating_fs.factory('bump_moving_obstacle'),
            ],
        )
    return reset, transition, reward, termination


OBSERVATIONS = [
    # (observation function name, observation-space shape or None, area)
    ('partially_occluded', Shape(5, 5), None),
    ('raytracing', Shape(3, 7), None),
    ('fully_transparent', Shape(1, 1), None),
    ('stochastic_raytracing', Shape(4, 3), None),
    # asymmetric view area: not expressible as an ObservationSpace
    ('raytracing', None, Area((-4, 1), (-1, 3))),
]


def make_env(kind, observation_index):
    reset, transition, reward, termination = make_components(kind)
    name, shape, area = OBSERVATIONS[observation_index]
    state_shape = reset().grid.shape
    state_space = StateSpace(state_shape, ALL_OBJECT_TYPES, ALL_COLORS)
    if shape is not None:
        observation_space = ObservationSpace(
            shape, ALL_OBJECT_TYPES, ALL_COLORS
        )
        area = observation_space.area
    else:
        # only consulted in debug mode; asymmetric areas are run debug-off
        observation_space = ObservationSpace(
            Shape(3, 3), ALL_OBJECT_TYPES, ALL_COLORS
        )
    observation = observation_fs.factory(name, area=area)
    env = GridWorld(
        state_space,
        ActionSpace(list(Action)),
        observation_space,
        reset,
        transition,
        observation,
        reward,
        termination,
    )
    return env, shape is not None


def churn(envs):
    """Intervening calls on several environments (fills every cache)."""
    for env, _ in envs:
        env.set_seed(7)
        state = env.functional_reset()
        for action in list(Action) * 2:
            env.functional_observation(state)
            state, _, terminal = env.functional_step(state, action)
            if terminal:
                state = env.functional_reset()


def ask(env, seed, state, action):
    """One deterministic question: re-seed, step, observe."""
    env.set_seed(seed)
    next_state, reward, terminal = env.functional_step(state, action)
    observation = env.functional_observation(next_state)
    return (snapshot(next_state), reward, terminal, snapshot(observation))


def states_of(env, kind):
    """A handful of states of an environment, awkward ones included."""
    states = []
    for seed in (0, 1):
        env.set_seed(seed)
        states.append(env.functional_reset())
    if kind in ('awkward', 'empty-chain'):
        corners = [
            Position(3, 0),
            Position(0, 1),
            Position(3, 5),
            Position(1, 6),
            Position(2, 1),
            Position(1, 2),
            Position(2, 5),
            Position(1, 4),
        ]
        for position, orientation in zip(corners, list(Orientation) * 2):
            states.append(awkward_state(orientation, position))
    else:
        # walk a little, so that agents reach borders and objects get used
        env.set_seed(3)
        state = states[0]
        walk = [
            Action.TURN_LEFT,
            Action.MOVE_FORWARD,
            Action.MOVE_FORWARD,
            Action.PICK_N_DROP,
            Action.TURN_RIGHT,
            Action.ACTUATE,
            Action.MOVE_LEFT,
            Action.MOVE_BACKWARD,
        ]
        for action in walk:
            state, _, _ = env.functional_step(state, action)
            states.append(state)
    return states


def test_compositions():
    """The property, on worlds assembled exclusively through the factories."""
    kinds = ['awkward', 'keydoor', 'obstacles', 'teleport', 'empty']
    kinds.append('empty-chain')

    for index, kind in enumerate(kinds):
        observation_index = index % len(OBSERVATIONS)
        env, debuggable = make_env(kind, observation_index)
        twin, _ = make_env(kind, observation_index)
        others = [
            make_env(other, (observation_index + 1) % len(OBSERVATIONS))
            for other in ('keydoor', 'obstacles', 'awkward')
        ]
        for debug in [True, False] if debuggable else [False]:
            reset_gv_debug(debug)
            for state in states_of(env, kind):
                before = snapshot(state)
                before_hash = hash(state)
                for action in Action:
                    env.set_seed(11)
                    next_state, reward, terminal = env.functional_step(
                        state, action
                    )
                    # reference: the parts, called by hand on a copy
                    twin.set_seed(11)
                    expected = pickle.loads(pickle.dumps(state))
                    twin._transition_function(expected, action, rng=twin._rng)
                    check(
                        snapshot(next_state) == snapshot(expected)
                        and next_state == expected
                        and hash(next_state) == hash(expected),
                        f'{kind} {action}: next state equals reference',
                    )
                    check(
                        reward == twin._reward_function(state, action, expected)
                        and terminal
                        == twin._termination_function(state, action, expected),
                        f'{kind} {action}: reward / terminal equal reference',
                    )
                    env.functional_observation(next_state)

                    check(
                        snapshot(state) == before
                        and hash(state) == before_hash,
                        f'{kind} {action}: input state untouched',
                    )
                    check(
                        not (mutable_ids(state) & mutable_ids(next_state)),
                        f'{kind} {action}: shared mutable component',
                    )
                    after = snapshot(next_state)
                    for duplicate in (
                        copy.deepcopy(next_state),
                        pickle.loads(pickle.dumps(next_state)),
                    ):
                        check(
                            duplicate == next_state
                            and hash(duplicate) == hash(next_state)
                            and snapshot(duplicate) == after,
                            f'{kind} {action}: copy equals original',
                        )
                    scribble(next_state)
                    check(
                        snapshot(state) == before,
                        f'{kind} {action}: next-state edit leaked',
                    )

        reset_gv_debug(False)
        questions = [
            (state, action)
            for state in states_of(env, kind)[:4]
            for action in Action
        ]
        first = [ask(env, 21, *question) for question in questions]
        churn(others + [(env, None), (twin, None)])
        again = [ask(env, 21, *question) for question in questions]
        check(first == again, f'{kind}: answers changed with history')
        elsewhere = [ask(twin, 21, *question) for question in questions]
        check(first == elsewhere, f'{kind}: answers differ across envs')

    # hard-coded expectations on the hand-built 4 x 7 world
    env, _ = make_env('awkward', 0)
    F, B, L, R = Orientation.F, Orientation.B, Orientation.L, Orientation.R
    blue, green = Key(Color.BLUE), Key(Color.GREEN)
    expectations = [
        # start pose, action -> agent pose, held, reward, terminal
        ((3, 0), F, Action.MOVE_FORWARD, (2, 0), F, blue, -1.25, False),
        ((3, 0), F, Action.MOVE_BACKWARD, (3, 0), F, blue, -0.25, False),
        ((3, 0), F, Action.MOVE_LEFT, (3, 0), F, blue, -0.25, False),
        ((3, 0), F, Action.MOVE_RIGHT, (3, 1), F, blue, 0.75, False),
        ((3, 0), F, Action.TURN_LEFT, (3, 0), L, blue, -0.25, False),
        ((3, 0), F, Action.TURN_RIGHT, (3, 0), R, blue, -0.25, False),
        ((3, 0), R, Action.TURN_RIGHT, (3, 0), B, blue, -0.25, False),
        ((3, 0), R, Action.PICK_N_DROP, (3, 0), R, green, -0.25, False),
        ((1, 2), L, Action.ACTUATE, (1, 2), L, blue, -0.125, False),
        ((1, 0), F, Action.ACTUATE, (1, 0), F, blue, -0.25, False),
        ((3, 5), R, Action.MOVE_FORWARD, (3, 6), R, blue, 5.75, True),
        ((2, 3), F, Action.MOVE_FORWARD, (2, 4), F, blue, 0.75, False),
        ((2, 3), F, Action.MOVE_RIGHT, (1, 3), F, blue, -1.25, False),
    ]
    for start, heading, action, end, facing, held, reward, terminal in (
        expectations
    ):
        state = awkward_state(heading, Position(*start))
        env.set_seed(0)
        next_state, got_reward, got_terminal = env.functional_step(
            state, action
        )
        check(
            next_state.agent == Agent(Position(*end), facing, held),
            f'awkward {start} {heading} {action}: agent {next_state.agent}',
        )
        check(
            got_reward == reward and got_terminal is terminal,
            f'awkward {start} {heading} {action}: {got_reward} {got_terminal}',
        )
    env.set_seed(0)
    state = awkward_state(R, Position(3, 0))
    next_state, _, _ = env.functional_step(state, Action.PICK_N_DROP)
    check(
        snap_object(next_state.grid[Position(3, 1)]) == snap_object(blue)
        and snap_object(state.grid[Position(3, 1)]) == snap_object(green),
        'pick-n-drop swapped the keys in the next state only',
    )
    state = awkward_state(L, Position(1, 2))
    next_state, _, _ = env.functional_step(state, Action.ACTUATE)
    check(
        next_state.grid[Position(1, 1)].state is Door.Status.OPEN
        and state.grid[Position(1, 1)].state is Door.Status.CLOSED,
        'door opened in the next state only',
    )
    state = awkward_state(F, Position(1, 0))
    next_state, _, _ = env.functional_step(state, Action.ACTUATE)
    check(
        snap_object(next_state.grid[Position(0, 0)])
        == snap_object(Box(Key(Color.RED)))
        and snap_object(state.grid[Position(0, 0)])
        == snap_object(Box(Box(Key(Color.RED)))),
        'nested box opened in the next state only',
    )


def main():
    test_factories()
    test_parts_run_once()
    test_compositions()
    reset_gv_debug(None)
    print(f'OK ({CHECKS} checks)')


if __name__ == '__main__':
    main()
