"""Demo for change A (gym adapter helpers in gym_gridverse/gym.py).

Checks property C20 -- "the gym adapter is a faithful view of the wrapped
environment" -- against a reference implementation embedded in this file:

* an independent twin inner environment, built from the same configuration and
  seeded identically, is driven through the *functional* InnerEnv API with the
  action *named* at position i of the configured action list;
* an independent re-implementation of the conversion "representation space ->
  gym space" (`ref_gym_space`).

Exits 0 on the pristine tree and with the change applied.

Run from the worktree root:  /venv/bin/python _seed/A/demo.py
"""
import os
import sys

sys.path.insert(0, os.getcwd())

import ast  # noqa: E402
import copy  # noqa: E402
import glob  # noqa: E402
import random  # noqa: E402
import re  # noqa: E402
import warnings  # noqa: E402

warnings.filterwarnings('ignore')

import gym  # noqa: E402
import numpy as np  # noqa: E402

import gym_gridverse.gym as gg  # noqa: E402
from gym_gridverse.action import Action  # noqa: E402
from gym_gridverse.envs.yaml.factory import factory_env_from_data  # noqa: E402
from gym_gridverse.geometry import Orientation  # noqa: E402
from gym_gridverse.gym import GymEnvironment, GymStateWrapper  # noqa: E402
from gym_gridverse.outer_env import OuterEnv  # noqa: E402
from gym_gridverse.representations.observation_representations import (  # noqa: E402
    make_observation_representation,
)
from gym_gridverse.representations.spaces import SpaceType  # noqa: E402
from gym_gridverse.representations.state_representations import (  # noqa: E402
    make_state_representation,
)

REPRESENTATION_NAMES = ['default', 'no-overlap', 'compact']
ALL_ACTION_NAMES = [
    'MOVE_FORWARD',
    'MOVE_BACKWARD',
    'MOVE_LEFT',
    'MOVE_RIGHT',
    'TURN_LEFT',
    'TURN_RIGHT',
    'ACTUATE',
    'PICK_N_DROP',
]

# ---------------------------------------------------------------------------
# minimal YAML-subset reader (PyYAML is not installed here): block mappings,
# block sequences (of scalars or mappings), flow sequences, plain scalars
# ---------------------------------------------------------------------------


def _scalar(text):
    text = text.strip()
    if text.startswith('['):
        quoted = re.sub(
            r'[A-Za-z_][A-Za-z_0-9]*', lambda m: repr(m.group(0)), text
        )
        return ast.literal_eval(quoted)
    if text in ('True', 'true'):
        return True
    if text in ('False', 'false'):
        return False
    for cast in (int, float):
        try:
            return cast(text)
        except ValueError:
            pass
    return text


def parse_yaml(text):
    lines = []
    for raw in text.splitlines():
        raw = raw.split('#')[0].rstrip()
        if raw.strip():
            lines.append((len(raw) - len(raw.lstrip(' ')), raw.strip()))
    pos = 0

    def block(indent):
        nonlocal pos
        if lines[pos][1].startswith('- '):
            out = []
            while (
                pos < len(lines)
                and lines[pos][0] == indent
                and lines[pos][1].startswith('- ')
            ):
                ind, body = lines[pos]
                body = body[2:].strip()
                if re.match(r'^[A-Za-z_][A-Za-z_0-9]*:( |$)', body):
                    lines[pos] = (ind + 2, body)
                    out.append(block(ind + 2))
                else:
                    out.append(_scalar(body))
                    pos += 1
            return out
        out = {}
        while (
            pos < len(lines)
            and lines[pos][0] == indent
            and not lines[pos][1].startswith('- ')
        ):
            key, _, rest = lines[pos][1].partition(':')
            pos += 1
            if rest.strip():
                out[key.strip()] = _scalar(rest)
            else:
                out[key.strip()] = block(lines[pos][0])
        return out

    result = block(lines[0][0])
    assert pos == len(lines)
    return result


def load_data(path):
    with open(path) as f:
        return parse_yaml(f.read())


def make_inner(data):
    return factory_env_from_data(copy.deepcopy(data))


# the registered ids build their environment through this module-level name of
# gym_gridverse.gym;  route it through the reader above
gg.factory_env_from_yaml = lambda path: make_inner(load_data(path))

# ---------------------------------------------------------------------------
# configurations: the 21 shipped ones + awkward hand-written ones
# ---------------------------------------------------------------------------

SHIPPED = {
    os.path.basename(path): load_data(path)
    for path in sorted(glob.glob('gym_gridverse/registered_envs/*.yaml'))
}
assert len(SHIPPED) == 21, len(SHIPPED)
assert set(SHIPPED) == set(gg.STRING_TO_YAML_FILE.values())
for name, data in SHIPPED.items():
    # the copies under yaml/ are the same configurations
    assert load_data(os.path.join('yaml', name)) == data, name

_LIVING = {'name': 'living_reward', 'reward': -0.25}
_REACH = {'name': 'reach_exit', 'reward_on': 3.0, 'reward_off': 0.5}

EXTRA = {
    # non-square, reordered subset of actions, asymmetric view, raytracing
    'x_empty_4x7_raytracing': {
        'state_space': {'objects': ['Wall', 'Floor', 'Exit'], 'colors': ['NONE']},
        'action_space': ['TURN_RIGHT', 'MOVE_FORWARD', 'TURN_LEFT'],
        'observation_space': {
            'objects': ['Wall', 'Floor', 'Exit'],
            'colors': ['NONE'],
        },
        'reset_function': {
            'name': 'empty',
            'shape': [4, 7],
            'random_agent': True,
            'random_exit': True,
        },
        'transition_functions': [{'name': 'move_agent'}, {'name': 'turn_agent'}],
        'reward_functions': [_LIVING, _REACH],
        'observation_function': {
            'name': 'raytracing',
            'area': [[-4, 1], [-1, 3]],
        },
        'terminating_function': {'name': 'reach_exit'},
    },
    # tall grid, stochastic observations, no action_space (all 8 actions),
    # view behind the agent, single-action duplicates impossible -> full list
    'x_keydoor_9x5_stochastic': {
        'state_space': {
            'objects': ['Wall', 'Floor', 'Exit', 'Door', 'Key'],
            'colors': ['NONE', 'YELLOW'],
        },
        'observation_space': {
            'objects': ['Wall', 'Floor', 'Exit', 'Door', 'Key'],
            'colors': ['NONE', 'YELLOW'],
        },
        'reset_function': {'name': 'keydoor', 'shape': [9, 5]},
        'transition_functions': [
            {'name': 'move_agent'},
            {'name': 'turn_agent'},
            {'name': 'actuate_door'},
            {'name': 'pickndrop'},
        ],
        'reward_functions': [
            _LIVING,
            {
                'name': 'pickndrop',
                'object_type': 'Key',
                'reward_pick': 1.5,
                'reward_drop': -1.5,
            },
        ],
        'observation_function': {
            'name': 'stochastic_raytracing',
            'area': [[-2, 2], [-2, 2]],
        },
        'terminating_function': {'name': 'reach_exit'},
    },
    # 1-wide view, one action only, fully transparent
    'x_dynamic_5x8_narrow': {
        'state_space': {
            'objects': ['Wall', 'Floor', 'Exit', 'MovingObstacle'],
            'colors': ['NONE'],
        },
        'action_space': ['MOVE_FORWARD'],
        'observation_space': {
            'objects': ['Wall', 'Floor', 'Exit', 'MovingObstacle'],
            'colors': ['NONE'],
        },
        'reset_function': {
            'name': 'dynamic_obstacles',
            'shape': [5, 8],
            'num_obstacles': 3,
            'random_agent': True,
        },
        'transition_functions': [
            {'name': 'move_obstacles'},
            {'name': 'move_agent'},
        ],
        'reward_functions': [_REACH],
        'observation_function': {
            'name': 'fully_transparent',
            'area': [[-3, 0], [0, 0]],
        },
        'terminating_function': {
            'name': 'reduce_any',
            'terminating_functions': [
                {'name': 'reach_exit'},
                {'name': 'bump_moving_obstacle'},
            ],
        },
    },
}


def action_names(data):
    return list(data.get('action_space', ALL_ACTION_NAMES))


# ---------------------------------------------------------------------------
# reference implementation
# ---------------------------------------------------------------------------


def ref_gym_space(space):
    """independent conversion of a Dict[str, Space] into the gym space"""
    boxes = {}
    for key in space:
        sub = space[key]
        if sub.space_type is SpaceType.CONTINUOUS:
            dtype = np.dtype(float)
        else:
            assert sub.space_type in (SpaceType.CATEGORICAL, SpaceType.DISCRETE)
            dtype = np.dtype(int)
        boxes[key] = (
            np.asarray(sub.lower_bound).astype(dtype),
            np.asarray(sub.upper_bound).astype(dtype),
            dtype,
        )
    return boxes


def assert_gym_space(gym_space, space, what):
    expected = ref_gym_space(space)
    assert isinstance(gym_space, gym.spaces.Dict), what
    assert set(gym_space.spaces.keys()) == set(expected), what
    # gym sorts the keys of plain dictionaries
    assert list(gym_space.spaces.keys()) == sorted(expected), what
    for key, (low, high, dtype) in expected.items():
        box = gym_space.spaces[key]
        assert type(box) is gym.spaces.Box, (what, key)
        assert box.dtype == dtype, (what, key, box.dtype, dtype)
        assert box.shape == low.shape, (what, key)
        assert box.low.dtype == dtype and box.high.dtype == dtype, (what, key)
        assert np.array_equal(box.low, low), (what, key)
        assert np.array_equal(box.high, high), (what, key)


def assert_same_arrays(actual, expected, what):
    assert isinstance(actual, dict), what
    assert list(actual.keys()) == list(expected.keys()), (
        what,
        list(actual),
        list(expected),
    )
    for key in expected:
        assert isinstance(actual[key], np.ndarray), (what, key)
        assert actual[key].dtype == expected[key].dtype, (what, key)
        assert actual[key].shape == expected[key].shape, (what, key)
        assert np.array_equal(actual[key], expected[key]), (what, key)


class Reference:
    """Twin of the wrapped environment, driven through the functional API."""

    def __init__(self, data, seed):
        self.data = data
        self.env = make_inner(data)
        self.actions = [Action[name] for name in action_names(data)]
        self.obs_reps = {
            name: make_observation_representation(
                name, self.env.observation_space
            )
            for name in REPRESENTATION_NAMES
        }
        self.state_reps = {
            name: make_state_representation(name, self.env.state_space)
            for name in REPRESENTATION_NAMES
        }
        self.seed(seed)
        self.state = None
        self.observation = None

    def seed(self, seed):
        self.env.set_seed(seed)

    def reset(self):
        self.state = self.env.functional_reset()
        self.observation = self.env.functional_observation(self.state)

    def step(self, index):
        action = self.actions[index]
        self.state, reward, done = self.env.functional_step(self.state, action)
        self.observation = self.env.functional_observation(self.state)
        return reward, done

    def obs(self, name):
        return self.obs_reps[name].convert(self.observation)

    def sta(self, name):
        return self.state_reps[name].convert(self.state)


def index_sequence(n, seed, length):
    rnd = random.Random(seed * 7919 + n)
    # every index at least once, then random
    seq = list(range(n)) + [rnd.randrange(n) for _ in range(length)]
    rnd.shuffle(seq)
    return seq


# ---------------------------------------------------------------------------
# the checks
# ---------------------------------------------------------------------------

COUNTS = {'steps': 0, 'resets': 0, 'switches': 0, 'episodes_done': 0}


def check_observation(env, ref, obs_name, returned, what):
    expected = ref.obs(obs_name)
    assert_same_arrays(returned, expected, what)
    assert env.observation_space.contains(returned), what
    # the property is memoised: reading it again gives the same arrays and
    # does not consume randomness (checked by the lock-step with the twin)
    assert_same_arrays(env.observation, expected, what + ' (property)')
    assert_gym_space(
        env.observation_space, ref.obs_reps[obs_name].space, what + ' (space)'
    )


def check_state(env, ref, state_name, returned, what):
    expected = ref.sta(state_name)
    assert_same_arrays(returned, expected, what)
    assert env.state_space.contains(returned), what
    assert_gym_space(
        env.state_space, ref.state_reps[state_name].space, what + ' (space)'
    )


def run_plain(env, data, seed, obs_name, state_name, length, what):
    """`env` is a GymEnvironment (possibly inside gym's own wrappers) whose
    current representations are obs_name / state_name (state_name may be None)
    """
    base = env.unwrapped
    assert type(base) is GymEnvironment
    n = len(action_names(data))
    assert type(base.action_space) is gym.spaces.Discrete, what
    assert base.action_space.n == n, what
    assert base.outer_env.action_space.actions == [
        Action[name] for name in action_names(data)
    ], what

    ref = Reference(data, seed)
    base.outer_env.inner_env.set_seed(seed)

    returned = env.reset()
    ref.reset()
    COUNTS['resets'] += 1
    check_observation(base, ref, obs_name, returned, what + ' reset')
    if state_name is not None:
        check_state(base, ref, state_name, base.state, what + ' reset state')
    else:
        assert base.state_space is None, what

    for t, index in enumerate(index_sequence(n, seed, length)):
        where = f'{what} t={t} index={index}'
        result = env.step(index)
        assert type(result) is tuple and len(result) == 4, where
        returned, reward, done, info = result
        ref_reward, ref_done = ref.step(index)
        COUNTS['steps'] += 1
        assert type(reward) is type(ref_reward) and reward == ref_reward, (
            where,
            reward,
            ref_reward,
        )
        assert type(done) is bool and done is ref_done, where
        assert type(info) is dict and info == {}, where
        check_observation(base, ref, obs_name, returned, where)
        if state_name is not None:
            check_state(base, ref, state_name, base.state, where + ' state')

        # representation switch in the middle of an episode
        if t % 9 == 4:
            obs_name = REPRESENTATION_NAMES[
                (REPRESENTATION_NAMES.index(obs_name) + 1 + t % 2) % 3
            ]
            base.set_observation_representation(obs_name)
            COUNTS['switches'] += 1
            check_observation(
                base, ref, obs_name, base.observation, where + ' switched obs'
            )
        if t % 9 == 7:
            state_name = REPRESENTATION_NAMES[(t + seed) % 3]
            base.set_state_representation(state_name)
            COUNTS['switches'] += 1
            check_state(
                base, ref, state_name, base.state, where + ' switched state'
            )

        if done:
            COUNTS['episodes_done'] += 1
            returned = env.reset()
            ref.reset()
            COUNTS['resets'] += 1
            check_observation(base, ref, obs_name, returned, where + ' re-reset')

    return ref, obs_name, state_name


def run_state_wrapper(data, seed, obs_name, state_name, length, what):
    inner = make_inner(data)
    base = GymEnvironment(
        OuterEnv(
            inner,
            state_representation=make_state_representation(
                state_name, inner.state_space
            ),
            observation_representation=make_observation_representation(
                obs_name, inner.observation_space
            ),
        )
    )
    wrapper = GymStateWrapper(base)
    assert wrapper.observation_space is base.state_space, what
    assert wrapper.action_space is base.action_space, what
    n = len(action_names(data))

    ref = Reference(data, seed)
    inner.set_seed(seed)
    returned = wrapper.reset()
    ref.reset()
    COUNTS['resets'] += 1
    check_state(base, ref, state_name, returned, what + ' reset')
    assert wrapper.observation_space.contains(returned), what

    for t, index in enumerate(index_sequence(n, seed + 1, length)):
        where = f'{what} t={t} index={index}'
        returned, reward, done, info = wrapper.step(index)
        ref_reward, ref_done = ref.step(index)
        COUNTS['steps'] += 1
        assert reward == ref_reward and done is ref_done, where
        assert list(info.keys()) == ['observation'], where
        check_state(base, ref, state_name, returned, where)
        assert wrapper.observation_space.contains(returned), where
        check_observation(base, ref, obs_name, info['observation'], where)
        if done:
            COUNTS['episodes_done'] += 1
            returned = wrapper.reset()
            ref.reset()
            COUNTS['resets'] += 1
            check_state(base, ref, state_name, returned, where + ' re-reset')


def check_errors_and_edges(data, seed, what):
    inner = make_inner(data)
    n = len(action_names(data))

    # no representation at all: no spaces, and nothing to return
    bare = GymEnvironment(OuterEnv(inner))
    assert bare.state_space is None and bare.observation_space is None, what
    assert bare.action_space.n == n, what
    inner.set_seed(seed)
    try:
        bare.reset()
    except RuntimeError as error:
        assert 'Observation representation not available' in str(error)
    else:
        raise AssertionError(what + ': reset without representation')
    try:
        bare.state
    except RuntimeError as error:
        assert 'State representation not available' in str(error)
    else:
        raise AssertionError(what + ': state without representation')

    # ... until one is set
    ref = Reference(data, seed)
    bare.set_observation_representation('compact')
    assert bare.state_space is None, what
    inner.set_seed(seed)
    returned = bare.reset()
    ref.reset()
    check_observation(bare, ref, 'compact', returned, what + ' bare reset')

    # invalid names change nothing
    representation = bare.outer_env.observation_representation
    space = bare.observation_space
    for bad in ['', 'Default', 'nope', 'compact ']:
        for setter in (
            bare.set_observation_representation,
            bare.set_state_representation,
        ):
            try:
                setter(bad)
            except ValueError as error:
                assert str(error) == f'invalid name {bad}', (what, str(error))
            else:
                raise AssertionError(what + ': invalid name accepted')
    assert bare.outer_env.observation_representation is representation, what
    assert bare.observation_space is space, what
    assert bare.outer_env.state_representation is None, what
    assert bare.state_space is None, what

    # the representation held by the outer env is the one the space describes
    bare.set_state_representation('no-overlap')
    assert_gym_space(
        bare.state_space, bare.outer_env.state_representation.space, what
    )
    check_state(bare, ref, 'no-overlap', bare.state, what + ' bare state')
    # setting the same name again builds a fresh representation, same space
    old_space = bare.state_space
    old_representation = bare.outer_env.state_representation
    bare.set_state_representation('no-overlap')
    assert bare.outer_env.state_representation is not old_representation, what
    assert bare.state_space is not old_space, what
    check_state(bare, ref, 'no-overlap', bare.state, what + ' bare state 2')

    # out-of-range indices are refused before anything happens;  negative
    # indices follow the list semantics of the action space
    for bad_index in (n, n + 5, -n - 1):
        try:
            bare.step(bad_index)
        except IndexError:
            pass
        else:
            raise AssertionError(what + ': out-of-range index accepted')
    check_state(bare, ref, 'no-overlap', bare.state, what + ' after refusal')
    check_observation(
        bare, ref, 'compact', bare.observation, what + ' after refusal'
    )
    for index in (-1, np.int64(n - 1), 0, -n):
        returned, reward, done, info = bare.step(index)
        ref_reward, ref_done = ref.step(int(index))
        assert reward == ref_reward and done is ref_done and info == {}, what
        check_observation(bare, ref, 'compact', returned, what + ' neg index')
        check_state(bare, ref, 'no-overlap', bare.state, what + ' neg index')
        if done:
            bare.reset()
            ref.reset()

    # every step hands out its own info dictionary
    info_1 = bare.step(0)[3]
    info_1['junk'] = 1
    info_2 = bare.step(0)[3]
    assert info_2 == {} and info_1 is not info_2, what
    ref.step(0)
    ref.step(0)

    # re-seeding restarts the stream
    firsts = []
    for _ in range(2):
        inner.set_seed(seed + 11)
        first = bare.reset()
        seconds = bare.step(n - 1)
        firsts.append((first, seconds))
    assert_same_arrays(firsts[0][0], firsts[1][0], what + ' re-seed')
    assert_same_arrays(firsts[0][1][0], firsts[1][1][0], what + ' re-seed')
    assert firsts[0][1][1:] == firsts[1][1][1:], what


def check_interleaved(data_1, data_2, what):
    """several environments in one process do not disturb each other"""
    envs, refs, names = [], [], []
    for k, data in enumerate([data_1, data_2, data_1]):
        inner = make_inner(data)
        name = REPRESENTATION_NAMES[k]
        env = GymEnvironment(
            OuterEnv(
                inner,
                observation_representation=make_observation_representation(
                    name, inner.observation_space
                ),
            )
        )
        inner.set_seed(100 + k)
        envs.append(env)
        refs.append(Reference(data, 100 + k))
        names.append(name)
    for env, ref, name in zip(envs, refs, names):
        returned = env.reset()
        ref.reset()
        check_observation(env, ref, name, returned, what + ' reset')
    for t in range(12):
        for k, (env, ref, name) in enumerate(zip(envs, refs, names)):
            index = (t * 5 + k) % env.action_space.n
            returned, reward, done, _ = env.step(index)
            ref_reward, ref_done = ref.step(index)
            assert reward == ref_reward and done is ref_done, what
            check_observation(env, ref, name, returned, f'{what} t={t} k={k}')
            if done:
                env.reset()
                ref.reset()


def check_hardcoded():
    """index i is the i-th *configured* action, not the i-th Action member"""
    data = EXTRA['x_empty_4x7_raytracing']
    assert action_names(data) == ['TURN_RIGHT', 'MOVE_FORWARD', 'TURN_LEFT']
    inner = make_inner(data)
    env = GymEnvironment(
        OuterEnv(
            inner,
            observation_representation=make_observation_representation(
                'default', inner.observation_space
            ),
        )
    )
    assert env.action_space.n == 3
    clockwise = [Orientation.F, Orientation.R, Orientation.B, Orientation.L]
    for seed in range(6):
        inner.set_seed(seed)
        env.reset()
        for index in [0, 0, 2, 0, 0, 0, 2, 2, 2, 2, 0]:
            before = inner.state.agent
            k = clockwise.index(before.orientation)
            position = before.position
            env.step(index)
            after = inner.state.agent
            expected = clockwise[(k + (1 if index == 0 else -1)) % 4]
            assert after.orientation is expected, (seed, index)
            assert after.position == position, (seed, index)
        before = inner.state.agent
        env.step(1)
        after = inner.state.agent
        assert after.orientation is before.orientation
        delta = (
            after.position.y - before.position.y,
            after.position.x - before.position.x,
        )
        forward = {
            Orientation.F: (-1, 0),
            Orientation.B: (1, 0),
            Orientation.R: (0, 1),
            Orientation.L: (0, -1),
        }[before.orientation]
        # either moved forwards or was blocked by the border wall
        assert delta in (forward, (0, 0)), (seed, delta)

    # shapes advertised for an asymmetric area [[-4, 1], [-1, 3]]: 6 x 5
    assert env.observation_space['grid'].shape == (6, 5, 3)
    assert env.observation_space['agent_id_grid'].shape == (6, 5)
    assert env.observation_space['item'].shape == (3,)
    assert env.observation_space['grid'].dtype == np.dtype(int)
    env.set_state_representation('default')
    assert env.state_space['grid'].shape == (4, 7, 3)
    assert env.state_space['agent'].shape == (6,)
    assert env.state_space['agent'].dtype == np.dtype(float)
    assert env.state_space['item'].dtype == np.dtype(int)


def check_registered_ids():
    assert gg.env_ids == list(gg.STRING_TO_YAML_FILE.keys())
    assert len(gg.env_ids) == 21
    for k, (env_id, filename) in enumerate(gg.STRING_TO_YAML_FILE.items()):
        spec = gym.spec(env_id)
        assert spec.entry_point == 'gym_gridverse.gym:from_factory', env_id
        factory = spec.kwargs['factory']
        assert factory.func is gg.outer_env_factory, env_id
        (path,) = factory.args
        assert os.path.basename(path) == filename, env_id
        assert os.path.samefile(
            path, os.path.join('gym_gridverse', 'registered_envs', filename)
        ), env_id
        data = SHIPPED[filename]

        for seed in (k, 1000 + k):
            env = gym.make(env_id, disable_env_checker=True)
            base = env.unwrapped
            # registered environments: default observations, no state
            assert base.state_space is None, env_id
            assert base.outer_env.state_representation is None, env_id
            run_plain(env, data, seed, 'default', None, 20, f'{env_id} s={seed}')
            env.close()

        # two makes give two unrelated environments
        env_1 = gg.from_factory(factory)
        env_2 = gg.from_factory(factory)
        assert env_1.outer_env is not env_2.outer_env
        assert env_1.outer_env.inner_env is not env_2.outer_env.inner_env


def main():
    check_hardcoded()
    check_registered_ids()

    configurations = dict(SHIPPED)
    configurations.update(EXTRA)
    for k, (name, data) in enumerate(configurations.items()):
        for j, seed in enumerate((3, 58 + k)):
            obs_name = REPRESENTATION_NAMES[(k + j) % 3]
            state_name = REPRESENTATION_NAMES[(k + 2 * j + 1) % 3]
            inner = make_inner(data)
            env = GymEnvironment(
                OuterEnv(
                    inner,
                    state_representation=make_state_representation(
                        state_name, inner.state_space
                    ),
                    observation_representation=make_observation_representation(
                        obs_name, inner.observation_space
                    ),
                )
            )
            run_plain(
                env, data, seed, obs_name, state_name, 24, f'{name} s={seed}'
            )
            run_state_wrapper(
                data, seed, obs_name, state_name, 14, f'{name} s={seed} wrapper'
            )
        check_errors_and_edges(data, 7 + k, f'{name} edges')

    names = list(configurations)
    for k in range(0, len(names), 4):
        check_interleaved(
            configurations[names[k]],
            configurations[names[(k + 5) % len(names)]],
            f'interleaved {names[k]}',
        )

    assert COUNTS['steps'] > 3000, COUNTS
    assert COUNTS['episodes_done'] > 0, COUNTS
    print('C20 demo A: all checks passed', COUNTS)


if __name__ == '__main__':
    main()
