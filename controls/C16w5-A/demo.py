"""Check program for property C16 (faithful numeric representations).

Run as:  cd /tmp/wt5-C16 && /venv/bin/python -W ignore _seed/A/demo.py

Everything the library computes is compared against an independent
re-implementation contained in this file (hard-coded type/colour index tables
and closed-form encodings), never against other library output.
"""
import itertools
import os
import random
import sys

sys.path.insert(0, os.getcwd())

import numpy as np  # noqa: E402

from gym_gridverse.agent import Agent  # noqa: E402
from gym_gridverse.geometry import Orientation, Position, Shape  # noqa: E402
from gym_gridverse.grid import Grid  # noqa: E402
from gym_gridverse.grid_object import (  # noqa: E402
    Beacon,
    Color,
    Door,
    Exit,
    Floor,
    Hidden,
    Key,
    MovingObstacle,
    NoneGridObject,
    Telepod,
    Wall,
)
from gym_gridverse.observation import Observation  # noqa: E402
from gym_gridverse.representations import representation as R  # noqa: E402
from gym_gridverse.representations.observation_representations import (  # noqa: E402
    CompactGridObjectObservationRepresentation,
    DefaultGridObjectObservationRepresentation,
    NoOverlapGridObjectObservationRepresentation,
    make_observation_representation,
)
from gym_gridverse.representations.spaces import SpaceType  # noqa: E402
from gym_gridverse.representations.state_representations import (  # noqa: E402
    CompactGridObjectStateRepresentation,
    DefaultGridObjectStateRepresentation,
    NoOverlapGridObjectStateRepresentation,
    make_state_representation,
)
from gym_gridverse.spaces import ObservationSpace, StateSpace  # noqa: E402
from gym_gridverse.state import State  # noqa: E402

# --------------------------------------------------------------------------
# independent reference model
# --------------------------------------------------------------------------

# hard-coded (registration order of the library's own grid-objects)
TYPE_INDEX = {
    NoneGridObject: 0,
    Hidden: 1,
    Floor: 2,
    Wall: 3,
    Exit: 4,
    Door: 5,
    Key: 6,
    MovingObstacle: 7,
    # Box: 8 (cannot be represented in state, not used here)
    Telepod: 9,
    Beacon: 10,
}
NUM_STATES = {t: 1 for t in TYPE_INDEX}
NUM_STATES[Door] = 3
COLOR_INDEX = {
    Color.NONE: 0,
    Color.RED: 1,
    Color.GREEN: 2,
    Color.BLUE: 3,
    Color.YELLOW: 4,
}
COLORED = {Exit, Door, Key, Telepod, Beacon}
BASE_TYPES = [Floor, Wall, Exit, Door, Key, MovingObstacle, Telepod, Beacon]
BASE_COLORS = [Color.RED, Color.GREEN, Color.BLUE, Color.YELLOW]
DOOR_STATUS = [Door.Status.OPEN, Door.Status.CLOSED, Door.Status.LOCKED]

for t, i in TYPE_INDEX.items():
    assert t.type_index() == i, (t, i)
    assert t.num_states() == NUM_STATES[t]
for c, i in COLOR_INDEX.items():
    assert c.value == i
assert [s.value for s in DOOR_STATUS] == [0, 1, 2]


def make_objects(object_type, colors):
    """every object (as (factory-thunk, triple)) of a type given the colours"""
    if object_type not in COLORED:
        return [(object_type, (TYPE_INDEX[object_type], 0, 0))]
    res = []
    for c in sorted(colors, key=COLOR_INDEX.get):
        if object_type is Door:
            for s in DOOR_STATUS:
                res.append(
                    (
                        (lambda s=s, c=c: Door(s, c)),
                        (TYPE_INDEX[Door], s.value, COLOR_INDEX[c]),
                    )
                )
        else:
            res.append(
                (
                    (lambda t=object_type, c=c: t(c)),
                    (TYPE_INDEX[object_type], 0, COLOR_INDEX[c]),
                )
            )
    return res


class Ref:
    """reference encodings for one space (types incl. extras, colours incl. NONE)"""

    def __init__(self, all_types, all_colors):
        self.types = sorted(all_types, key=TYPE_INDEX.get)
        self.colors = sorted(all_colors, key=COLOR_INDEX.get)
        self.T = max(TYPE_INDEX[t] for t in self.types)
        self.S = max(NUM_STATES[t] for t in self.types)
        self.C = max(COLOR_INDEX[c] for c in self.colors)
        # compact tables
        n = 0
        self.ctype = {}
        for t in self.types:
            self.ctype[TYPE_INDEX[t]] = n
            n += 1
        self.cstate = {}
        for t in self.types:
            for s in range(NUM_STATES[t]):
                self.cstate[TYPE_INDEX[t], s] = n
                n += 1
        self.ccolor = {}
        for c in self.colors:
            self.ccolor[COLOR_INDEX[c]] = n
            n += 1
        self.ctotal = n

    def encode(self, name, triple):
        t, s, c = triple
        if name == 'default':
            return (t, s, c)
        if name == 'no-overlap':
            return (t, self.T + 1 + s, self.T + self.S + 2 + c)
        if name == 'compact':
            return (self.ctype[t], self.cstate[t, s], self.ccolor[c])
        raise AssertionError(name)

    def upper(self, name):
        if name == 'default':
            return (self.T, self.S, self.C)
        if name == 'no-overlap':
            return (self.T, self.T + self.S + 1, self.T + self.S + self.C + 2)
        if name == 'compact':
            return (
                len(self.types) - 1,
                len(self.types) + sum(NUM_STATES[t] for t in self.types) - 1,
                self.ctotal - 1,
            )
        raise AssertionError(name)


NAMES = ['default', 'no-overlap', 'compact']
STATE_GO = {
    'default': DefaultGridObjectStateRepresentation,
    'no-overlap': NoOverlapGridObjectStateRepresentation,
    'compact': CompactGridObjectStateRepresentation,
}
OBS_GO = {
    'default': DefaultGridObjectObservationRepresentation,
    'no-overlap': NoOverlapGridObjectObservationRepresentation,
    'compact': CompactGridObjectObservationRepresentation,
}

counts = {'objects': 0, 'spaces': 0, 'states': 0, 'pairs': 0, 'direct': 0}


def as_tuple(a):
    assert isinstance(a, np.ndarray)
    assert a.shape == (3,), a.shape
    assert np.issubdtype(a.dtype, np.integer), a.dtype
    return tuple(int(v) for v in a)


def check_space_object(space, upper):
    assert space.space_type is SpaceType.CATEGORICAL
    assert space.lower_bound.shape == (3,)
    assert np.issubdtype(space.lower_bound.dtype, np.integer)
    assert np.issubdtype(space.upper_bound.dtype, np.integer)
    assert tuple(int(v) for v in space.lower_bound) == (0, 0, 0)
    assert tuple(int(v) for v in space.upper_bound) == upper, (
        space.upper_bound,
        upper,
    )


# --------------------------------------------------------------------------
# part 1: exhaustive per-object encodings over ALL spaces
# --------------------------------------------------------------------------


def check_object_level(types, colors, kind):
    """kind in {'state', 'observation'}"""
    extras = [NoneGridObject] if kind == 'state' else [Hidden, NoneGridObject]
    all_colors = set(colors) | {Color.NONE}
    ref = Ref(set(types) | set(extras), all_colors)

    if kind == 'state':
        space = StateSpace(Shape(2, 3), list(types), list(colors))
        classes = STATE_GO
    else:
        space = ObservationSpace(Shape(2, 3), list(types), list(colors))
        classes = OBS_GO

    objects = []
    for t in ref.types:
        objects.extend(make_objects(t, all_colors))

    for name in NAMES:
        go_rep = classes[name](space)
        check_space_object(go_rep.space, ref.upper(name))
        # `space` is a property recomputed on each access: must be stable
        assert go_rep.space == go_rep.space

        used = [set(), set(), set()]
        codes = {}
        for factory, triple in objects:
            obj = factory()
            code = as_tuple(go_rep.convert(obj))
            assert code == ref.encode(name, triple), (
                name,
                obj,
                code,
                ref.encode(name, triple),
            )
            # same encoding for a second, distinct but equal object
            assert as_tuple(go_rep.convert(factory())) == code
            assert go_rep.space.contains(go_rep.convert(obj))
            # injective
            assert code not in codes, (code, obj, codes[code])
            codes[code] = obj
            for ch in range(3):
                used[ch].add(code[ch])
            counts['objects'] += 1

        if name in ('no-overlap', 'compact'):
            # channels well separated (disjoint, and ordered ranges)
            assert not (used[0] & used[1])
            assert not (used[0] & used[2])
            assert not (used[1] & used[2])
            assert max(used[0]) < min(used[1]) <= max(used[1]) < min(used[2])
            ub = ref.upper(name)
            assert max(used[0]) <= ub[0] < min(used[1])
            assert max(used[1]) <= ub[1] < min(used[2])
            assert max(used[2]) <= ub[2]
        if name == 'compact':
            allused = used[0] | used[1] | used[2]
            has_colored = any(t in COLORED for t in ref.types)
            if has_colored:
                assert allused == set(range(ref.ctotal)), allused
            # in any case: consecutive from zero
            assert allused == set(range(len(allused))), allused

    counts['spaces'] += 1
    return ref


def all_subsets(items, min_size):
    for r in range(min_size, len(items) + 1):
        yield from itertools.combinations(items, r)


def part1():
    for types in all_subsets(BASE_TYPES, 1):
        for colors in all_subsets(BASE_COLORS, 0):
            check_object_level(types, colors, 'state')
            check_object_level(types, colors, 'observation')


# --------------------------------------------------------------------------
# part 2: direct calls of the functions in representations/representation.py
# --------------------------------------------------------------------------


def part2():
    for types in all_subsets(BASE_TYPES + [Hidden, NoneGridObject], 1):
        if len(types) not in (1, 2, 3, 9, 10):
            continue
        for colors in all_subsets(BASE_COLORS + [Color.NONE], 1):
            ref = Ref(types, colors)
            tset, cset = set(types), set(colors)

            sp = R.default_grid_object_representation_space(tset, cset)
            check_space_object(sp, ref.upper('default'))
            sp = R.no_overlap_grid_object_representation_space(tset, cset)
            check_space_object(sp, ref.upper('no-overlap'))

            for t in ref.types:
                for factory, triple in make_objects(t, cset):
                    obj = factory()
                    a = R.default_grid_object_representation_convert(obj)
                    assert as_tuple(a) == triple
                    a = R.no_overlap_grid_object_representation_convert(
                        tset, cset, obj
                    )
                    assert as_tuple(a) == ref.encode('no-overlap', triple)
                    # keyword call: parameter names are public API
                    b = R.no_overlap_grid_object_representation_convert(
                        grid_object_types=tset,
                        grid_object_colors=cset,
                        grid_object=obj,
                    )
                    assert a.dtype == b.dtype and np.array_equal(a, b)
                    counts['direct'] += 1

    # the objects need not belong to the type/colour sets given
    a = R.no_overlap_grid_object_representation_convert(
        {Floor}, {Color.NONE}, Door(Door.Status.LOCKED, Color.YELLOW)
    )
    assert as_tuple(a) == (5, 2 + 2 + 1, 2 + 1 + 4 + 2)
    # colours are ignored by the no-overlap conversion (even an empty set)
    a = R.no_overlap_grid_object_representation_convert(
        {Floor, Door}, set(), Key(Color.BLUE)
    )
    assert as_tuple(a) == (6, 5 + 0 + 1, 5 + 3 + 3 + 2)

    # empty collections are rejected with ValueError by every function
    for f, args in [
        (R.default_grid_object_representation_space, (set(), {Color.NONE})),
        (R.default_grid_object_representation_space, ({Floor}, set())),
        (R.default_grid_object_representation_space, (set(), set())),
        (R.no_overlap_grid_object_representation_space, (set(), {Color.NONE})),
        (R.no_overlap_grid_object_representation_space, ({Floor}, set())),
        (R.no_overlap_grid_object_representation_space, (set(), set())),
        (
            R.no_overlap_grid_object_representation_convert,
            (set(), {Color.NONE}, Floor()),
        ),
    ]:
        try:
            f(*args)
        except ValueError:
            pass
        else:
            raise AssertionError(f'{f.__name__}{args} did not raise ValueError')

    # compact functions on hand-made maps
    type_map = np.array([7, -1, 3, -1, -1, 0, -1], int)
    state_map = -np.ones((7, 3), int)
    state_map[0, 0] = 11
    state_map[2, 0] = 12
    state_map[5] = [13, 14, 15]
    color_map = np.array([20, -1, 22, -1, 24], int)
    sp = R.compact_grid_object_representation_space(
        type_map, state_map, color_map
    )
    check_space_object(sp, (7, 15, 24))
    sp = R.compact_grid_object_representation_space(
        grid_object_type_map=type_map,
        grid_object_state_map=state_map,
        grid_object_color_map=color_map,
    )
    check_space_object(sp, (7, 15, 24))
    for obj, want in [
        (NoneGridObject(), (7, 11, 20)),
        (Floor(), (3, 12, 20)),
        (Door(Door.Status.OPEN, Color.NONE), (0, 13, 20)),
        (Door(Door.Status.CLOSED, Color.GREEN), (0, 14, 22)),
        (Door(Door.Status.LOCKED, Color.YELLOW), (0, 15, 24)),
        (Door(Door.Status.LOCKED, Color.RED), (0, 15, -1)),
        (Hidden(), (-1, -1, 20)),
    ]:
        a = R.compact_grid_object_representation_convert(
            type_map, state_map, color_map, obj
        )
        assert as_tuple(a) == want, (obj, a, want)
        b = R.compact_grid_object_representation_convert(
            grid_object_type_map=type_map,
            grid_object_state_map=state_map,
            grid_object_color_map=color_map,
            grid_object=obj,
        )
        assert a.dtype == b.dtype == type_map.dtype and np.array_equal(a, b)
        counts['direct'] += 1
    # out-of-table objects raise IndexError
    for obj in [Beacon(Color.NONE), Telepod(Color.NONE)]:
        try:
            R.compact_grid_object_representation_convert(
                type_map, state_map, color_map, obj
            )
        except IndexError:
            pass
        else:
            raise AssertionError('no IndexError')
    # inputs are not modified
    assert list(type_map) == [7, -1, 3, -1, -1, 0, -1]
    assert list(color_map) == [20, -1, 22, -1, 24]


# --------------------------------------------------------------------------
# part 3: full state / observation representations
# --------------------------------------------------------------------------


def random_object(rng, ref, pool_types, all_colors):
    t = rng.choice(pool_types)
    factory, triple = rng.choice(make_objects(t, all_colors))
    return factory(), triple


def build(rng, shape, ref, grid_types, item_types, all_colors, kind):
    h, w = shape
    objs, triples = [], []
    for _ in range(h):
        row, trow = [], []
        for _ in range(w):
            o, t = random_object(rng, ref, grid_types, all_colors)
            row.append(o)
            trow.append(t)
        objs.append(row)
        triples.append(trow)
    pos = (rng.randrange(h), rng.randrange(w))
    ori = rng.choice(
        [Orientation.F, Orientation.B, Orientation.L, Orientation.R]
    )
    item, item_triple = random_object(rng, ref, item_types, all_colors)
    return {
        'objs': objs,
        'triples': triples,
        'pos': pos,
        'ori': ori,
        'item': item,
        'item_triple': item_triple,
        'kind': kind,
    }


def clone_spec(spec):
    new = dict(spec)
    new['objs'] = [list(r) for r in spec['objs']]
    new['triples'] = [list(r) for r in spec['triples']]
    return new


def realise(spec):
    grid = Grid([list(r) for r in spec['objs']])
    agent = Agent(Position(*spec['pos']), spec['ori'], spec['item'])
    cls = State if spec['kind'] == 'state' else Observation
    return cls(grid, agent)


def spec_key(spec):
    """independent notion of equality of states/observations"""
    return (
        tuple(tuple(r) for r in spec['triples']),
        spec['pos'],
        spec['ori'].value,
        spec['item_triple'],
    )


def reference_rep(spec, ref, name):
    h, w = len(spec['triples']), len(spec['triples'][0])
    out = {}
    out['grid'] = np.array(
        [
            [ref.encode(name, spec['triples'][y][x]) for x in range(w)]
            for y in range(h)
        ],
        dtype=int,
    ).reshape(h, w, 3)
    marker = np.zeros((h, w), dtype=int)
    marker[spec['pos'][0], spec['pos'][1]] = 1
    out['agent_id_grid'] = marker
    out['item'] = np.array(ref.encode(name, spec['item_triple']), dtype=int)
    if spec['kind'] == 'state':
        a = np.zeros(6)
        a[0] = (2 * spec['pos'][0] - h + 1) / (h - 1)
        a[1] = (2 * spec['pos'][1] - w + 1) / (w - 1)
        a[2 + spec['ori'].value] = 1.0
        out['agent'] = a
    return out


def rep_equal(r1, r2):
    assert r1.keys() == r2.keys()
    return all(
        r1[k].shape == r2[k].shape and np.array_equal(r1[k], r2[k]) for k in r1
    )


def check_full(rng, types, colors, shape, kind, n_random):
    extras = [NoneGridObject] if kind == 'state' else [Hidden, NoneGridObject]
    all_colors = set(colors) | {Color.NONE}
    ref = Ref(set(types) | set(extras), all_colors)
    h, w = shape
    if kind == 'state':
        space = StateSpace(Shape(h, w), list(types), list(colors))
        make = make_state_representation
        grid_types = list(types)
        keys = ['grid', 'agent_id_grid', 'agent', 'item']
    else:
        space = ObservationSpace(Shape(h, w), list(types), list(colors))
        make = make_observation_representation
        grid_types = list(types) + [Hidden]
        keys = ['grid', 'agent_id_grid', 'item']
    item_types = list(types) + [NoneGridObject]

    # population of specs: random ones, exact duplicates, and near misses
    specs = []
    for _ in range(n_random):
        specs.append(
            build(rng, shape, ref, grid_types, item_types, all_colors, kind)
        )
    base = specs[0]
    specs.append(clone_spec(base))  # equal, distinct instance
    for y in range(h):  # one differing cell, at every cell
        for x in range(w):
            for _ in range(4):
                o, t = random_object(rng, ref, grid_types, all_colors)
                new = clone_spec(base)
                new['objs'][y][x] = o
                new['triples'][y][x] = t
                specs.append(new)
    for y in range(h):  # every agent position
        for x in range(w):
            new = clone_spec(base)
            new['pos'] = (y, x)
            specs.append(new)
    if kind == 'state':
        # (the observation representation has no orientation entry)
        for ori in [Orientation.F, Orientation.B, Orientation.L, Orientation.R]:
            new = clone_spec(base)
            new['ori'] = ori
            specs.append(new)
    else:
        for s in specs:
            s['ori'] = Orientation.F
    for t in item_types:  # every held item
        for factory, triple in make_objects(t, all_colors):
            new = clone_spec(base)
            new['item'] = factory()
            new['item_triple'] = triple
            specs.append(new)

    things = [realise(s) for s in specs]
    for thing in things:
        assert space.contains(thing)
    skeys = [spec_key(s) for s in specs]

    for name in NAMES:
        rep = make(name, space)
        assert list(rep.space.keys()) == keys

        # spaces
        sp = rep.space
        ub = ref.upper(name)
        assert sp['grid'].space_type is SpaceType.CATEGORICAL
        assert sp['grid'].lower_bound.shape == (h, w, 3)
        assert not sp['grid'].lower_bound.any()
        assert (sp['grid'].upper_bound == np.array(ub)).all()
        assert sp['grid'].upper_bound.shape == (h, w, 3)
        assert sp['agent_id_grid'].space_type is SpaceType.DISCRETE
        assert sp['agent_id_grid'].lower_bound.shape == (h, w)
        assert not sp['agent_id_grid'].lower_bound.any()
        assert (sp['agent_id_grid'].upper_bound == 1).all()
        check_space_object(sp['item'], ub)
        if kind == 'state':
            assert sp['agent'].space_type is SpaceType.CONTINUOUS
            assert list(sp['agent'].lower_bound) == [-1, -1, 0, 0, 0, 0]
            assert list(sp['agent'].upper_bound) == [1, 1, 1, 1, 1, 1]

        reps = []
        for spec, thing in zip(specs, things):
            r = rep.convert(thing)
            assert list(r.keys()) == keys
            want = reference_rep(spec, ref, name)
            for k in keys:
                assert r[k].shape == want[k].shape, (k, r[k].shape)
                assert r[k].dtype == want[k].dtype, (k, r[k].dtype)
                assert np.array_equal(r[k], want[k]), (name, k, r[k], want[k])
                assert sp[k].contains(r[k]), (name, k)
            # agent marker exactly at the agent's cell
            assert r['agent_id_grid'].sum() == 1
            assert r['agent_id_grid'][spec['pos']] == 1
            # converting twice gives equal, but not aliased, arrays
            r2 = rep.convert(thing)
            assert rep_equal(r, r2)
            for k in keys:
                assert r[k] is not r2[k]
            reps.append(r)
            counts['states'] += 1

        # faithful: equal representation iff equal, equal => same hash
        n = len(things)
        for i in range(n):
            for j in range(i, n):
                eq = things[i] == things[j]
                assert eq == (skeys[i] == skeys[j])
                assert rep_equal(reps[i], reps[j]) == eq, (
                    name,
                    specs[i],
                    specs[j],
                )
                if eq:
                    assert hash(things[i]) == hash(things[j])
                counts['pairs'] += 1


def part3():
    rng = random.Random(16)
    state_shapes = [(2, 2), (2, 3), (3, 4), (5, 3)]
    obs_shapes = [(1, 1), (2, 3), (3, 5), (4, 3)]
    spaces = [
        (BASE_TYPES, BASE_COLORS),
        ([Floor], []),
        ([Floor, Wall], []),
        ([Door], [Color.YELLOW]),
        ([Floor, Wall, Exit], [Color.GREEN]),
        ([Floor, Wall, Door, Key], [Color.RED, Color.BLUE]),
        ([Beacon], []),
        ([Telepod, Beacon], [Color.BLUE]),
        ([Floor, MovingObstacle, Exit], []),
    ]
    for _ in range(12):
        types = rng.sample(BASE_TYPES, rng.randint(1, len(BASE_TYPES)))
        colors = rng.sample(BASE_COLORS, rng.randint(0, len(BASE_COLORS)))
        spaces.append((types, colors))
    for i, (types, colors) in enumerate(spaces):
        check_full(
            rng, types, colors, state_shapes[i % len(state_shapes)], 'state', 6
        )
        check_full(
            rng,
            types,
            colors,
            obs_shapes[i % len(obs_shapes)],
            'observation',
            6,
        )
    # every shape once on the full space
    for shape in state_shapes:
        check_full(rng, BASE_TYPES, BASE_COLORS, shape, 'state', 4)
    for shape in obs_shapes:
        check_full(rng, BASE_TYPES, BASE_COLORS, shape, 'observation', 4)


def main():
    part1()
    part2()
    part3()
    print('C16 demo OK', counts)


if __name__ == '__main__':
    main()
