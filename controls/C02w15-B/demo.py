"""C02 demo: seeded environments are reproducible and isolated from global RNGs.

Run from the worktree root:  /venv/bin/python _seed/B/demo.py

The script exits 0 both on the pristine tree and with the maintenance change
applied.  It drives the library through its Python API only (no YAML loading,
no `gym.make`) and checks

1. reproducibility within one process (two environments, re-seeding);
2. independence of how several live environments are interleaved;
3. independence of the library debug flag;
4. isolation from the library-level generator, `numpy.random` and `random`
   (they are neither read nor perturbed by seeded environments);
5. reproducibility across interpreter processes (PYTHONHASHSEED values, -O);
6. equality with hard-coded digests recorded on the pristine tree;
7. equality of the stochastic transition functions (`move_obstacles`,
   `teleport`) with reference implementations embedded here, sample by sample
   (resulting state *and* generator state), including boxed-in obstacles,
   telepods without partner, 1xN grids and the `rng=None` path;
8. equality of the reset functions `empty`, `keydoor`, `teleport` with
   reference implementations embedded here (state and generator state), over
   non-square and minimal shapes.
"""
import hashlib
import json
import os
import random as py_random
import subprocess
import sys
import warnings

warnings.filterwarnings('ignore')

sys.path.insert(0, os.getcwd())

import numpy as np  # noqa: E402
import numpy.random as rnd  # noqa: E402

import gym_gridverse.rng as gv_rng  # noqa: E402
from gym_gridverse.action import Action  # noqa: E402
from gym_gridverse.agent import Agent  # noqa: E402
from gym_gridverse.debugging import gv_debug, reset_gv_debug  # noqa: E402
from gym_gridverse.design import draw_line_vertical  # noqa: E402
from gym_gridverse.envs import observation_functions as observation_fs  # noqa: E402
from gym_gridverse.envs import reset_functions as reset_fs  # noqa: E402
from gym_gridverse.envs import reward_functions as reward_fs  # noqa: E402
from gym_gridverse.envs import terminating_functions as terminating_fs  # noqa: E402
from gym_gridverse.envs import transition_functions as transition_fs  # noqa: E402
from gym_gridverse.envs.gridworld import GridWorld  # noqa: E402
from gym_gridverse.geometry import (  # noqa: E402
    Area,
    Orientation,
    Position,
    Shape,
    get_manhattan_boundary,
)
from gym_gridverse.grid import Grid  # noqa: E402
from gym_gridverse.grid_object import (  # noqa: E402
    Beacon,
    Box,
    Color,
    Door,
    Exit,
    Floor,
    Key,
    MovingObstacle,
    Telepod,
    Wall,
)
from gym_gridverse.spaces import ActionSpace, ObservationSpace, StateSpace  # noqa: E402
from gym_gridverse.state import State  # noqa: E402

# ---------------------------------------------------------------------------
# configurations (python mirrors of the shipped YAML files, plus awkward ones)
# ---------------------------------------------------------------------------

MOVE_TURN = [
    Action.MOVE_FORWARD,
    Action.MOVE_BACKWARD,
    Action.MOVE_LEFT,
    Action.MOVE_RIGHT,
    Action.TURN_LEFT,
    Action.TURN_RIGHT,
]
ALL_ACTIONS = list(Action)

VIEW = Area((-6, 0), (-3, 3))
VIEW_ASYMMETRIC = Area((-3, 1), (-1, 3))
VIEW_TINY = Area((0, 0), (0, 0))

GETTING_CLOSER = (
    'getting_closer',
    dict(
        distance_function=Position.manhattan_distance,
        object_type=Exit,
        reward_closer=0.2,
        reward_further=-0.2,
    ),
)
REACH_EXIT = ('reach_exit', dict(reward_on=5.0, reward_off=0.0))
LIVING = ('living_reward', dict(reward=-0.05))
ALL_COLORS = [Color.RED, Color.GREEN, Color.BLUE, Color.YELLOW]


def cfg(
    objects,
    colors,
    reset,
    transitions,
    rewards,
    observation=('partially_occluded', dict(area=VIEW)),
    terminating=('reach_exit', {}),
    actions=MOVE_TURN,
):
    return dict(
        objects=objects,
        colors=colors,
        reset=reset,
        transitions=transitions,
        rewards=rewards,
        observation=observation,
        terminating=terminating,
        actions=actions,
    )


def dynamic_obstacles_cfg(shape, num_obstacles, random_agent, observation):
    return cfg(
        [Wall, Floor, Exit, MovingObstacle],
        [Color.NONE],
        (
            'dynamic_obstacles',
            dict(
                shape=shape,
                num_obstacles=num_obstacles,
                random_agent=random_agent,
            ),
        ),
        ['move_agent', 'turn_agent', 'move_obstacles'],
        [
            REACH_EXIT,
            ('bump_moving_obstacle', dict(reward=-1.0)),
            ('bump_into_wall', dict(reward=-1.0)),
            GETTING_CLOSER,
            LIVING,
        ],
        observation=observation,
        terminating=(
            'reduce_any',
            dict(
                terminating_functions=[
                    ('reach_exit', {}),
                    ('bump_moving_obstacle', {}),
                    ('bump_into_wall', {}),
                ]
            ),
        ),
    )


def teleport_cfg(shape, observation):
    return cfg(
        [Wall, Floor, Exit, Telepod],
        [Color.NONE, Color.RED],
        ('teleport', dict(shape=shape)),
        ['move_agent', 'turn_agent', 'teleport'],
        [REACH_EXIT, GETTING_CLOSER, LIVING],
        observation=observation,
    )


def keydoor_cfg(shape, observation):
    return cfg(
        [Wall, Floor, Exit, Door, Key],
        [Color.NONE, Color.YELLOW],
        ('keydoor', dict(shape=shape)),
        ['move_agent', 'turn_agent', 'actuate_door', 'pickndrop'],
        [
            REACH_EXIT,
            (
                'pickndrop',
                dict(object_type=Key, reward_pick=1.0, reward_drop=-1.0),
            ),
            ('actuate_door', dict(reward_open=1.0, reward_close=-1.0)),
            GETTING_CLOSER,
            LIVING,
        ],
        observation=observation,
        actions=ALL_ACTIONS,
    )


def simple_cfg(reset, observation, colors=(Color.NONE,), objects=None):
    return cfg(
        objects or [Wall, Floor, Exit],
        list(colors),
        reset,
        ['move_agent', 'turn_agent'],
        [REACH_EXIT, GETTING_CLOSER, LIVING],
        observation=observation,
    )


def memory_cfg(reset, observation):
    return cfg(
        [Wall, Floor, Exit, Beacon],
        [Color.NONE] + ALL_COLORS,
        reset,
        ['move_agent', 'turn_agent'],
        [
            ('reach_exit_memory', dict(reward_good=5.0, reward_bad=-5.0)),
            LIVING,
        ],
        observation=observation,
    )


OCCLUDED = ('partially_occluded', dict(area=VIEW))
STOCHASTIC = ('stochastic_raytracing', dict(area=VIEW_ASYMMETRIC))
RAYTRACING = ('raytracing', dict(area=VIEW_ASYMMETRIC))
TRANSPARENT_TINY = ('fully_transparent', dict(area=VIEW_TINY))

CONFIGS = {
    # shipped configurations
    'gv_empty.4x4': simple_cfg(
        ('empty', dict(shape=Shape(4, 4), random_agent=True)), OCCLUDED
    ),
    'gv_empty.8x8': simple_cfg(
        ('empty', dict(shape=Shape(8, 8), random_agent=True)), OCCLUDED
    ),
    'gv_crossing.7x7': simple_cfg(
        ('crossing', dict(shape=Shape(7, 7), num_rivers=2, object_type=Wall)),
        OCCLUDED,
    ),
    'gv_dynamic_obstacles.5x5': dynamic_obstacles_cfg(
        Shape(5, 5), 1, False, OCCLUDED
    ),
    'gv_dynamic_obstacles.7x7': dynamic_obstacles_cfg(
        Shape(7, 7), 2, False, OCCLUDED
    ),
    'gv_four_rooms.9x9': simple_cfg(
        ('rooms', dict(shape=Shape(9, 9), layout=(2, 2))), OCCLUDED
    ),
    'gv_nine_rooms.13x13': simple_cfg(
        ('rooms', dict(shape=Shape(13, 13), layout=(3, 3))), OCCLUDED
    ),
    'gv_keydoor.5x5': keydoor_cfg(Shape(5, 5), OCCLUDED),
    'gv_keydoor.9x9': keydoor_cfg(Shape(9, 9), OCCLUDED),
    'gv_memory.5x5': memory_cfg(
        ('memory', dict(shape=Shape(5, 5), colors=set(ALL_COLORS))), OCCLUDED
    ),
    'gv_memory.9x9': memory_cfg(
        ('memory', dict(shape=Shape(9, 9), colors=set(ALL_COLORS))), OCCLUDED
    ),
    'gv_memory_four_rooms.9x9': memory_cfg(
        (
            'memory_rooms',
            dict(
                shape=Shape(9, 9),
                layout=(2, 2),
                colors=set(ALL_COLORS),
                num_beacons=1,
                num_exits=2,
            ),
        ),
        OCCLUDED,
    ),
    'gv_memory_nine_rooms.10x10': memory_cfg(
        (
            'memory_rooms',
            dict(
                shape=Shape(10, 10),
                layout=(3, 3),
                colors=set(ALL_COLORS),
                num_beacons=3,
                num_exits=3,
            ),
        ),
        OCCLUDED,
    ),
    'gv_teleport.5x5': teleport_cfg(Shape(5, 5), OCCLUDED),
    'gv_teleport.7x7': teleport_cfg(Shape(7, 7), OCCLUDED),
    # awkward compositions
    'x_empty.4x9.random_exit.stochastic': simple_cfg(
        (
            'empty',
            dict(shape=Shape(4, 9), random_agent=True, random_exit=True),
        ),
        STOCHASTIC,
    ),
    'x_obstacles.4x4.crowded': dynamic_obstacles_cfg(
        Shape(4, 4), 2, False, TRANSPARENT_TINY
    ),
    'x_obstacles.5x4.crowded.stochastic': dynamic_obstacles_cfg(
        Shape(5, 4), 4, True, STOCHASTIC
    ),
    'x_obstacles.6x11.none': dynamic_obstacles_cfg(
        Shape(6, 11), 0, True, RAYTRACING
    ),
    'x_obstacles.8x5.many.stochastic': dynamic_obstacles_cfg(
        Shape(8, 5), 12, True, STOCHASTIC
    ),
    'x_teleport.4x4': teleport_cfg(Shape(4, 4), RAYTRACING),
    'x_teleport.4x10.stochastic': teleport_cfg(Shape(4, 10), STOCHASTIC),
    'x_teleport.9x5': teleport_cfg(Shape(9, 5), TRANSPARENT_TINY),
    'x_keydoor.4x6.stochastic': keydoor_cfg(Shape(4, 6), STOCHASTIC),
    'x_keydoor.8x5': keydoor_cfg(Shape(8, 5), RAYTRACING),
    'x_crossing.5x9.stochastic': simple_cfg(
        (
            'crossing',
            dict(shape=Shape(5, 9), num_rivers=3, object_type=Wall),
        ),
        STOCHASTIC,
    ),
    'x_rooms.7x12.stochastic': simple_cfg(
        ('rooms', dict(shape=Shape(7, 12), layout=(2, 3))), STOCHASTIC
    ),
    'x_memory.6x7.two_colors': memory_cfg(
        (
            'memory',
            dict(shape=Shape(6, 7), colors={Color.YELLOW, Color.GREEN}),
        ),
        STOCHASTIC,
    ),
    'x_memory_rooms.7x11': memory_cfg(
        (
            'memory_rooms',
            dict(
                shape=Shape(7, 11),
                layout=(1, 2),
                colors={Color.BLUE, Color.RED, Color.GREEN},
                num_beacons=2,
                num_exits=3,
            ),
        ),
        RAYTRACING,
    ),
}


def _terminating(spec):
    name, kwargs = spec
    kwargs = dict(kwargs)
    if 'terminating_functions' in kwargs:
        kwargs['terminating_functions'] = [
            _terminating(s) for s in kwargs['terminating_functions']
        ]
    return terminating_fs.factory(name, **kwargs)


def build_env(name):
    """mirrors gym_gridverse.envs.yaml.factory.factory_env_from_data"""
    c = CONFIGS[name]
    reset_function = reset_fs.factory(c['reset'][0], **c['reset'][1])
    transition_function = transition_fs.factory(
        'chain',
        transition_functions=[
            transition_fs.factory(n) for n in c['transitions']
        ],
    )
    reward_function = reward_fs.factory(
        'reduce_sum',
        reward_functions=[reward_fs.factory(n, **kw) for n, kw in c['rewards']],
    )
    observation_function = observation_fs.factory(
        c['observation'][0], **c['observation'][1]
    )
    terminating_function = _terminating(c['terminating'])

    # probes for the shapes;  private generator, never the library one
    probe_rng = rnd.default_rng(0)
    state = reset_function(rng=probe_rng)
    observation = observation_function(state, rng=probe_rng)
    state_space = StateSpace(state.grid.shape, c['objects'], c['colors'])
    observation_space = ObservationSpace(
        observation.grid.shape, c['objects'], c['colors']
    )
    return GridWorld(
        state_space,
        ActionSpace(c['actions']),
        observation_space,
        reset_function,
        transition_function,
        observation_function,
        reward_function,
        terminating_function,
    )


# ---------------------------------------------------------------------------
# canonical (hash-independent) serialisation and rollouts
# ---------------------------------------------------------------------------


def ser_object(obj):
    out = [type(obj).__name__, obj.color.name, int(obj.state_index)]
    if isinstance(obj, Box):
        out.append(ser_object(obj.content))
    return out


def ser_grid(grid):
    return [
        [ser_object(grid[Position(y, x)]) for x in range(grid.shape.width)]
        for y in range(grid.shape.height)
    ]


def ser_agent(agent):
    return [
        int(agent.position.y),
        int(agent.position.x),
        agent.orientation.name,
        ser_object(agent.grid_object),
    ]


def ser(state_or_observation):
    return [ser_grid(state_or_observation.grid), ser_agent(state_or_observation.agent)]


def make_actions(name, n):
    """deterministic action sequence from a *private* python generator"""
    actions = CONFIGS[name]['actions']
    r = py_random.Random(f'actions/{name}/{n}')
    return [actions[r.randrange(len(actions))] for _ in range(n)]


class Runner:
    """steps an environment one operation at a time, recording everything"""

    def __init__(self, env, seed, actions):
        self.env = env
        self.seed = seed
        self.actions = list(actions)
        self.trace = []
        self.t = -1  # -1: needs seeding and reset

    @property
    def finished(self):
        return self.t >= len(self.actions)

    def advance(self):
        if self.t == -1:
            self.env.set_seed(self.seed)
            self.env.reset()
            self.trace.append(
                ['reset', ser(self.env.state), ser(self.env.observation)]
            )
        else:
            reward, done = self.env.step(self.actions[self.t])
            assert isinstance(done, (bool, np.bool_))
            self.trace.append(
                [
                    'step',
                    ser(self.env.state),
                    ser(self.env.observation),
                    float(reward),
                    bool(done),
                ]
            )
            # repeated calls are memoized and must not consume samples
            assert self.env.observation is self.env.observation
            if done:
                self.env.reset()
                self.trace.append(
                    ['reset', ser(self.env.state), ser(self.env.observation)]
                )
        self.t += 1


def rollout(env, seed, actions):
    runner = Runner(env, seed, actions)
    while not runner.finished:
        runner.advance()
    return runner.trace


def digest(obj):
    return hashlib.sha256(
        json.dumps(obj, sort_keys=True).encode('ascii')
    ).hexdigest()[:16]


SEEDS = [0, 1, 7, 2**31 - 1, 123456789012]
NUM_STEPS = 60


def config_digest(name):
    env = build_env(name)
    actions = make_actions(name, NUM_STEPS)
    return digest([rollout(env, seed, actions) for seed in SEEDS])


def all_digests():
    return {name: config_digest(name) for name in sorted(CONFIGS)}


# recorded on the pristine tree (numpy 2.x `default_rng` stream)
EXPECTED_DIGESTS = {}  # filled below

# ---------------------------------------------------------------------------
# checks
# ---------------------------------------------------------------------------

CHECKS = 0


def check(condition, message):
    global CHECKS
    CHECKS += 1
    if not condition:
        print(f'FAIL: {message}')
        sys.exit(1)


def global_rng_snapshot():
    np_state = np.random.get_state()
    return (
        json.dumps(gv_rng.get_gv_rng().bit_generator.state, sort_keys=True),
        (np_state[0], np_state[1].tolist(), np_state[2:]),
        py_random.getstate(),
    )


def check_same_process():
    for name in sorted(CONFIGS):
        actions = make_actions(name, NUM_STEPS)
        env1, env2 = build_env(name), build_env(name)
        for seed in SEEDS[:3]:
            t1 = rollout(env1, seed, actions)
            t2 = rollout(env2, seed, actions)
            check(t1 == t2, f'{name}: two environments differ (seed {seed})')
            # re-seeding a used environment restarts the very same sequence
            t3 = rollout(env1, seed, actions)
            check(t1 == t3, f'{name}: re-seeding differs (seed {seed})')
        # different seeds must be able to differ (sanity of the harness)
    stochastic = [
        rollout(build_env('gv_dynamic_obstacles.7x7'), seed, make_actions('gv_dynamic_obstacles.7x7', 30))
        for seed in range(4)
    ]
    check(
        len({digest(t) for t in stochastic}) > 1,
        'harness sanity: seeds never change anything',
    )


def check_interleavings():
    names = sorted(CONFIGS)
    scheduler = py_random.Random('interleavings')
    for trial in range(12):
        picked = [names[scheduler.randrange(len(names))] for _ in range(3)]
        # two environments of the *same* configuration and seed, plus others
        specs = [
            (picked[0], 5),
            (picked[0], 5),
            (picked[0], 6),
            (picked[1], 5),
            (picked[2], 11),
        ]
        alone = [
            rollout(build_env(name), seed, make_actions(name, 40))
            for name, seed in specs
        ]
        runners = [
            Runner(build_env(name), seed, make_actions(name, 40))
            for name, seed in specs
        ]
        live = list(runners)
        while live:
            runner = live[scheduler.randrange(len(live))]
            for _ in range(scheduler.randrange(1, 4)):
                if not runner.finished:
                    runner.advance()
            # noise on every global source between operations
            gv_rng.get_gv_rng().random(3)
            np.random.random(2)
            py_random.random()
            live = [r for r in live if not r.finished]
        for (name, seed), a, r in zip(specs, alone, runners):
            check(
                a == r.trace,
                f'interleaving changed {name} (seed {seed}, trial {trial})',
            )
        check(runners[0].trace == runners[1].trace, 'twin environments differ')


def check_debug_flag():
    before = gv_debug()
    try:
        for name in sorted(CONFIGS):
            actions = make_actions(name, 40)
            traces = []
            for flag in (True, False):
                reset_gv_debug(flag)
                traces.append(rollout(build_env(name), 3, actions))
            check(traces[0] == traces[1], f'{name}: debug flag changes results')
    finally:
        reset_gv_debug(before)


def check_global_isolation():
    for name in sorted(CONFIGS):
        actions = make_actions(name, 40)
        traces = []
        for global_seed in (11, 22):
            gv_rng.reset_gv_rng(global_seed)
            np.random.seed(global_seed)
            py_random.seed(global_seed)
            env = build_env(name)
            snapshot = global_rng_snapshot()
            traces.append(rollout(env, 4, actions))
            check(
                global_rng_snapshot() == snapshot,
                f'{name}: a global generator was perturbed',
            )
        check(traces[0] == traces[1], f'{name}: results depend on globals')


def check_expected_digests(digests, where):
    check(
        sorted(digests) == sorted(EXPECTED_DIGESTS),
        f'{where}: configuration names differ',
    )
    for name in sorted(digests):
        check(
            digests[name] == EXPECTED_DIGESTS[name],
            f'{where}: {name} digest {digests[name]} != expected '
            f'{EXPECTED_DIGESTS[name]}',
        )


def check_across_processes():
    runs = [
        ('0', []),
        ('1', []),
        ('4242', []),
        ('random', []),
        ('77', ['-O']),  # __debug__ is False: debug flag off by default
    ]
    processes = []
    for hashseed, flags in runs:
        environ = dict(os.environ, PYTHONHASHSEED=hashseed)
        processes.append(
            subprocess.Popen(
                [sys.executable, *flags, os.path.abspath(__file__), '--digests'],
                env=environ,
                stdout=subprocess.PIPE,
                stderr=subprocess.DEVNULL,
                cwd=os.getcwd(),
            )
        )
    for (hashseed, flags), process in zip(runs, processes):
        stdout, _ = process.communicate()
        where = f'PYTHONHASHSEED={hashseed} {flags}'
        check(process.returncode == 0, f'{where}: subprocess failed')
        digests = json.loads(stdout.decode().strip().splitlines()[-1])
        check_expected_digests(digests, where)


# ---------------------------------------------------------------------------
# reference implementations: stochastic transition functions
# ---------------------------------------------------------------------------


def reference_move_obstacles(state, action, *, rng):
    positions = [
        position
        for position in state.grid.area.positions()
        if isinstance(state.grid[position], MovingObstacle)
    ]
    for position in positions:
        next_positions = [
            next_position
            for next_position in get_manhattan_boundary(position, distance=1)
            if state.grid.area.contains(next_position)
            and isinstance(state.grid[next_position], Floor)
        ]
        if len(next_positions) == 0:
            continue  # no sample is consumed
        i = rng.choice(len(next_positions))
        state.grid.swap(position, next_positions[i])


def reference_teleport(state, action, *, rng):
    telepod = state.grid[state.agent.position]
    if isinstance(telepod, Telepod):
        positions = [
            position
            for position in state.grid.area.positions()
            if position != state.agent.position
            and isinstance(state.grid[position], Telepod)
            and state.grid[position].color == telepod.color
        ]
        if len(positions) == 0:
            return  # no sample is consumed
        i = rng.choice(len(positions))
        state.agent.position = positions[i]


def rng_state(rng):
    return json.dumps(rng.bit_generator.state, sort_keys=True)


def random_state(r, height, width, factories, weights):
    objects = [
        [r.choices(factories, weights)[0]() for _ in range(width)]
        for _ in range(height)
    ]
    grid = Grid(objects)
    agent = Agent(
        Position(r.randrange(height), r.randrange(width)),
        r.choice(list(Orientation)),
    )
    return State(grid, agent)


def compare_transition(function, reference, make_state, label, trials):
    r = py_random.Random(label)
    consumed = 0
    for trial in range(trials):
        seed = r.randrange(2**32)
        action = r.choice(ALL_ACTIONS)
        state = make_state(r)
        expected_state = State(
            Grid([list(row) for row in state.grid.objects]),
            Agent(state.agent.position, state.agent.orientation),
        )
        # explicit generator
        rng_a, rng_b = rnd.default_rng(seed), rnd.default_rng(seed)
        fresh = rng_state(rng_a)
        state_a = transition_fs.transition_with_copy(
            function, state, action, rng=rng_a
        )
        state_b = transition_fs.transition_with_copy(
            reference, state, action, rng=rng_b
        )
        check(ser(state_a) == ser(state_b), f'{label}: states differ ({trial})')
        check(
            rng_state(rng_a) == rng_state(rng_b),
            f'{label}: sample consumption differs ({trial})',
        )
        consumed += rng_state(rng_a) != fresh
        check(
            ser(state) == ser(expected_state),
            f'{label}: transition_with_copy modified its input ({trial})',
        )
        # `rng=None`: the library-level generator is the one consumed
        gv_rng.reset_gv_rng(seed)
        state_c = transition_fs.transition_with_copy(function, state, action)
        check(ser(state_c) == ser(state_b), f'{label}: rng=None differs')
        check(
            rng_state(gv_rng.get_gv_rng()) == rng_state(rng_b),
            f'{label}: rng=None consumption differs',
        )
    return consumed


def check_transition_references():
    shapes = [
        (1, 1),
        (1, 2),
        (1, 7),
        (6, 1),
        (2, 2),
        (3, 5),
        (5, 3),
        (4, 9),
        (7, 7),
    ]
    mixes = [
        # (factories, weights)
        ([Floor, MovingObstacle], [1, 1]),
        ([Floor, MovingObstacle], [1, 6]),
        ([Floor, MovingObstacle, Wall], [3, 2, 2]),
        ([MovingObstacle], [1]),  # everything boxed in
        ([Wall, MovingObstacle], [1, 1]),  # nobody can move
        ([Floor, MovingObstacle, Exit, lambda: Telepod(Color.RED)], [4, 2, 1, 1]),
        ([Floor], [1]),  # no obstacle at all
    ]

    def make_obstacle_state(r):
        height, width = r.choice(shapes)
        factories, weights = r.choice(mixes)
        return random_state(r, height, width, factories, weights)

    consumed = compare_transition(
        transition_fs.move_obstacles,
        reference_move_obstacles,
        make_obstacle_state,
        'move_obstacles',
        600,
    )
    check(consumed > 100, 'move_obstacles: harness never samples')

    telepod_mixes = [
        ([Floor, lambda: Telepod(Color.RED)], [5, 1]),
        ([Floor, lambda: Telepod(Color.RED)], [1, 3]),
        (
            [
                Floor,
                lambda: Telepod(Color.RED),
                lambda: Telepod(Color.BLUE),
                lambda: Telepod(Color.NONE),
                Wall,
            ],
            [3, 1, 1, 1, 1],
        ),
        ([lambda: Telepod(Color.GREEN)], [1]),
        ([Floor], [1]),
    ]

    def make_telepod_state(r):
        height, width = r.choice(shapes)
        factories, weights = r.choice(telepod_mixes)
        state = random_state(r, height, width, factories, weights)
        if r.random() < 0.6:
            # agent stands on a telepod, possibly without any partner
            color = r.choice([Color.RED, Color.BLUE, Color.NONE, Color.YELLOW])
            state.grid[state.agent.position] = Telepod(color)
        return state

    consumed = compare_transition(
        transition_fs.teleport,
        reference_teleport,
        make_telepod_state,
        'teleport',
        600,
    )
    check(consumed > 50, 'teleport: harness never samples')

    # a lone telepod (no partner) and a boxed-in obstacle consume no sample
    grid = Grid.from_shape((3, 4))
    grid[Position(1, 1)] = Telepod(Color.RED)
    grid[Position(2, 3)] = Telepod(Color.BLUE)
    state = State(grid, Agent(Position(1, 1), Orientation.L))
    rng = rnd.default_rng(9)
    before = rng_state(rng)
    transition_fs.teleport(state, Action.MOVE_FORWARD, rng=rng)
    check(state.agent.position == Position(1, 1), 'lone telepod moved agent')
    check(rng_state(rng) == before, 'lone telepod consumed a sample')

    grid = Grid.from_shape((3, 3), factory=Wall)
    grid[Position(0, 0)] = MovingObstacle()
    grid[Position(2, 2)] = MovingObstacle()
    grid[Position(2, 1)] = MovingObstacle()
    state = State(grid, Agent(Position(1, 1), Orientation.F))
    before_state = ser(state)
    transition_fs.move_obstacles(state, Action.TURN_LEFT, rng=rng)
    check(ser(state) == before_state, 'boxed-in obstacle moved')
    check(rng_state(rng) == before, 'boxed-in obstacle consumed a sample')


# ---------------------------------------------------------------------------
# reference implementations: reset functions
# ---------------------------------------------------------------------------

ORIENTATIONS = [
    Orientation.FORWARD,
    Orientation.BACKWARD,
    Orientation.LEFT,
    Orientation.RIGHT,
]


def reference_empty(shape, random_agent=False, random_exit=False, *, rng):
    grid = Grid.from_shape((shape.height, shape.width))
    for y in range(shape.height):
        for x in range(shape.width):
            if y in (0, shape.height - 1) or x in (0, shape.width - 1):
                grid[Position(y, x)] = Wall()
    inside = [
        Position(y, x)
        for y in range(1, shape.height - 1)
        for x in range(1, shape.width - 1)
    ]
    if random_exit:
        exit_positions = [
            p for p in inside if random_agent or p != Position(1, 1)
        ]
        exit_position = exit_positions[rng.choice(len(exit_positions))]
    else:
        exit_position = Position(shape.height - 2, shape.width - 2)
    grid[exit_position] = Exit()
    if random_agent:
        positions = [p for p in inside if p != exit_position]
        agent_position = positions[rng.choice(len(positions))]
        agent_orientation = ORIENTATIONS[rng.choice(4)]
    else:
        agent_position = Position(1, 1)
        agent_orientation = Orientation.R
    return State(grid, Agent(agent_position, agent_orientation))


def reference_keydoor(shape, *, rng):
    state = reference_empty(shape, rng=rng)
    x_wall = rng.integers(2, shape.width - 3, endpoint=True)
    line_wall = draw_line_vertical(
        state.grid, range(1, shape.height - 1), x_wall, Wall
    )
    pos_wall = line_wall[rng.choice(len(line_wall))]
    state.grid[pos_wall] = Door(Door.Status.LOCKED, Color.YELLOW)
    y_key = rng.integers(1, shape.height - 2, endpoint=True)
    x_key = rng.integers(1, x_wall - 1, endpoint=True)
    state.grid[y_key, x_key] = Key(Color.YELLOW)
    y_agent = rng.integers(1, shape.height - 2, endpoint=True)
    x_agent = rng.integers(1, x_wall - 1, endpoint=True)
    state.agent.position = Position(y_agent, x_agent)
    state.agent.orientation = ORIENTATIONS[rng.choice(4)]
    return state


def reference_teleport_reset(shape, *, rng):
    state = reference_empty(shape, rng=rng)
    state.agent.position = Position(1, 1)
    state.agent.orientation = [Orientation.R, Orientation.B][rng.choice(2)]
    vacant = [
        position
        for position in state.grid.area.positions()
        if isinstance(state.grid[position], Floor)
        and position != state.agent.position
    ]
    indices = rng.choice(len(vacant), size=2, replace=False)
    for i in indices:
        state.grid[vacant[i]] = Telepod(Color.RED)
    state.agent.position = Position(1, 1)
    state.agent.orientation = [Orientation.R, Orientation.B][rng.choice(2)]
    return state


def compare_reset(function, reference, kwargs, label):
    for seed in range(25):
        rng_a, rng_b = rnd.default_rng(seed), rnd.default_rng(seed)
        state_a = function(**kwargs, rng=rng_a)
        state_b = reference(**kwargs, rng=rng_b)
        check(ser(state_a) == ser(state_b), f'{label}: states differ ({seed})')
        check(
            rng_state(rng_a) == rng_state(rng_b),
            f'{label}: sample consumption differs ({seed})',
        )
        check(
            type(state_a.agent.orientation) is Orientation
            and type(state_a.agent.position) is Position,
            f'{label}: agent kinds',
        )
        # `rng=None`: the library-level generator is the one consumed
        gv_rng.reset_gv_rng(seed)
        state_c = function(**kwargs)
        check(ser(state_c) == ser(state_b), f'{label}: rng=None differs')
        check(
            rng_state(gv_rng.get_gv_rng()) == rng_state(rng_b),
            f'{label}: rng=None consumption differs',
        )
        # states are independent objects: mutating one leaves later ones alone
        state_a.agent.orientation = Orientation.F
        state_a.agent.position = Position(0, 0)
        state_a.grid[Position(1, 1)] = Wall()
        state_d = function(**kwargs, rng=rnd.default_rng(seed))
        check(ser(state_d) == ser(state_b), f'{label}: repeated call differs')


def check_reset_references():
    shapes = [
        Shape(4, 4),
        Shape(4, 5),
        Shape(5, 4),
        Shape(4, 11),
        Shape(9, 4),
        Shape(6, 7),
        Shape(8, 8),
    ]
    for shape in shapes:
        for random_agent in (False, True):
            for random_exit in (False, True):
                compare_reset(
                    reset_fs.empty,
                    reference_empty,
                    dict(
                        shape=shape,
                        random_agent=random_agent,
                        random_exit=random_exit,
                    ),
                    f'empty {shape} {random_agent} {random_exit}',
                )
        compare_reset(
            reset_fs.teleport,
            reference_teleport_reset,
            dict(shape=shape),
            f'teleport {shape}',
        )
    # NOTE: `keydoor` builds on `empty`, which needs height and width >= 4
    for shape in [
        Shape(4, 5),
        Shape(4, 6),
        Shape(5, 5),
        Shape(9, 5),
        Shape(4, 12),
        Shape(7, 8),
    ]:
        compare_reset(
            reset_fs.keydoor, reference_keydoor, dict(shape=shape), f'keydoor {shape}'
        )

    # every orientation is reachable, in definition order
    seen = set()
    for seed in range(200):
        rng_a, rng_b = rnd.default_rng(seed), rnd.default_rng(seed)
        state = reset_fs.empty(Shape(4, 4), random_agent=True, rng=rng_a)
        rng_b.choice(3)  # agent position among the three free cells
        check(
            state.agent.orientation is ORIENTATIONS[rng_b.choice(4)],
            'orientation index mapping',
        )
        seen.add(state.agent.orientation)
    check(seen == set(ORIENTATIONS), 'some orientation is never sampled')


# ---------------------------------------------------------------------------

EXPECTED_DIGESTS.update(
    {
        'gv_crossing.7x7': '636c448645bdd4b2',
        'gv_dynamic_obstacles.5x5': '8bb6ca7976b9909c',
        'gv_dynamic_obstacles.7x7': '3b8f1659f39c96a6',
        'gv_empty.4x4': '888e7d8aac062438',
        'gv_empty.8x8': '69a2bf6d04509a27',
        'gv_four_rooms.9x9': 'd20cd9f02b118c31',
        'gv_keydoor.5x5': '1d82ca2ce8acab74',
        'gv_keydoor.9x9': 'c22fd66a048de8aa',
        'gv_memory.5x5': 'b35d3c24db88b382',
        'gv_memory.9x9': 'c728aefaf5db4671',
        'gv_memory_four_rooms.9x9': '67cb233a699e8afb',
        'gv_memory_nine_rooms.10x10': '4d18d04d6a4d3e37',
        'gv_nine_rooms.13x13': 'd1e4815fd52d5928',
        'gv_teleport.5x5': '684886564ce0cfa0',
        'gv_teleport.7x7': '586efee85d351ea6',
        'x_crossing.5x9.stochastic': 'd1c13e98d8dc68dc',
        'x_empty.4x9.random_exit.stochastic': '951c2de352d0dff6',
        'x_keydoor.4x6.stochastic': 'e4d80f518961c9f6',
        'x_keydoor.8x5': 'be1cbf091558b09a',
        'x_memory.6x7.two_colors': 'dfadb28ebd14cea4',
        'x_memory_rooms.7x11': 'e3d7fd1f51cefbfb',
        'x_obstacles.4x4.crowded': '856d00f19d1649cb',
        'x_obstacles.5x4.crowded.stochastic': '95c67ab35a62e4b3',
        'x_obstacles.6x11.none': 'b42479831d130c1f',
        'x_obstacles.8x5.many.stochastic': '1fada77c85a4d4f6',
        'x_rooms.7x12.stochastic': 'd2e32e95cd2ba7dc',
        'x_teleport.4x10.stochastic': 'bfaf8dd884ced188',
        'x_teleport.4x4': '71c2b152c031cc4f',
        'x_teleport.9x5': '801781043bf4e849',
    }
)


def main():
    if '--digests' in sys.argv:
        print(json.dumps(all_digests(), sort_keys=True))
        return

    if '--record' in sys.argv:
        for name, value in all_digests().items():
            print(f'        {name!r}: {value!r},')
        return

    check_same_process()
    check_interleavings()
    check_debug_flag()
    check_global_isolation()
    check_expected_digests(all_digests(), 'this process')
    check_across_processes()
    check_transition_references()
    check_reset_references()
    print(f'OK ({CHECKS} checks, {len(CONFIGS)} configurations)')


if __name__ == '__main__':
    main()
