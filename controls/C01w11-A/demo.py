"""Demo for change A (Grid.subgrid builds rows from slices).

Runs (and exits 0) both on the pristine tree and with the patch applied:

1. `Grid.subgrid` agrees with a reference implementation embedded here (the
   cell-by-cell one) on an exhaustive family of grids and areas -- areas
   inside, overlapping, containing, and completely outside of the grid on
   every side -- including identity of the shared objects and freshness of
   every Hidden.
2. observations computed by the library agree with a reference observation
   function embedded here, for all four headings, agents on borders and in
   corners, symmetric and asymmetric view areas, all visibility functions.
3. closure / totality (property C01) on environments assembled from built-in
   components:  every action from every sampled state returns a state of the
   state space, a finite float reward, a boolean termination flag, and an
   observation of the observation space;  actions outside of the action space
   raise ValueError and change nothing.
4. a trajectory digest is compared with a hard-coded expectation.
"""
import hashlib
import itertools as itt
import math
import os
import sys
from functools import partial

# run from the worktree root:  `import gym_gridverse` must pick up the worktree
sys.path.insert(0, os.getcwd())

from gym_gridverse.action import Action
from gym_gridverse.agent import Agent
from gym_gridverse.debugging import reset_gv_debug
from gym_gridverse.envs import observation_functions as observation_fs
from gym_gridverse.envs import reset_functions as reset_fs
from gym_gridverse.envs import reward_functions as reward_fs
from gym_gridverse.envs import terminating_functions as terminating_fs
from gym_gridverse.envs import transition_functions as transition_fs
from gym_gridverse.envs.gridworld import GridWorld
from gym_gridverse.envs.visibility_functions import (
    visibility_function_registry,
)
from gym_gridverse.geometry import Area, Orientation, Position, Shape
from gym_gridverse.grid import Grid
from gym_gridverse.grid_object import (
    Beacon,
    Box,
    Color,
    Door,
    Exit,
    Floor,
    GridObject,
    Hidden,
    Key,
    MovingObstacle,
    NoneGridObject,
    Telepod,
    Wall,
)
from gym_gridverse.observation import Observation
from gym_gridverse.rng import make_rng
from gym_gridverse.spaces import ActionSpace, ObservationSpace, StateSpace
from gym_gridverse.state import State
from gym_gridverse.utils.fast_copy import fast_copy

reset_gv_debug(True)

num_checks = 0


def check(condition, *message):
    global num_checks
    num_checks += 1
    if not condition:
        print('FAILED:', *message)
        sys.exit(1)


# ---------------------------------------------------------------------------
# reference implementations
# ---------------------------------------------------------------------------


def reference_subgrid_cells(grid: Grid, area: Area):
    """cell-by-cell denotation;  None stands for `a fresh Hidden`"""
    return [
        [
            grid.objects[y][x]
            if 0 <= y < grid.shape.height and 0 <= x < grid.shape.width
            else None
            for x in range(area.xmin, area.xmax + 1)
        ]
        for y in range(area.ymin, area.ymax + 1)
    ]


def reference_rotate(cells, orientation: Orientation):
    """reference for `Grid * orientation`, written with explicit indices"""
    height, width = len(cells), len(cells[0])
    if orientation is Orientation.F:
        return [[cells[y][x] for x in range(width)] for y in range(height)]
    if orientation is Orientation.B:
        return [
            [cells[height - 1 - y][width - 1 - x] for x in range(width)]
            for y in range(height)
        ]
    if orientation is Orientation.R:
        # agent facing right:  its front (pov up) is east in the grid
        return [
            [cells[x][width - 1 - y] for x in range(height)]
            for y in range(width)
        ]
    if orientation is Orientation.L:
        return [
            [cells[height - 1 - x][y] for x in range(height)]
            for y in range(width)
        ]
    raise AssertionError


def reference_pov_area(state: State, area: Area) -> Area:
    """area (relative to the agent pointing N) in grid coordinates"""
    y, x = state.agent.position.y, state.agent.position.x
    orientation = state.agent.orientation
    if orientation is Orientation.F:
        ys, xs = (area.ymin, area.ymax), (area.xmin, area.xmax)
    elif orientation is Orientation.B:
        ys, xs = (-area.ymax, -area.ymin), (-area.xmax, -area.xmin)
    elif orientation is Orientation.R:
        ys, xs = (area.xmin, area.xmax), (-area.ymax, -area.ymin)
    else:
        ys, xs = (-area.xmax, -area.xmin), (area.ymin, area.ymax)
    return Area((y + ys[0], y + ys[1]), (x + xs[0], x + xs[1]))


def reference_observation(state: State, area: Area, visibility_function, rng):
    """reference for observation_functions.from_visibility"""
    cells = reference_subgrid_cells(state.grid, reference_pov_area(state, area))
    cells = reference_rotate(cells, state.agent.orientation)
    objects = [
        [Hidden() if cell is None else cell for cell in row] for row in cells
    ]
    check(
        len(objects) == area.height and len(objects[0]) == area.width,
        'reference observation shape',
    )
    grid = Grid(objects)
    agent_position = Position(-area.ymin, -area.xmin)
    visibility = visibility_function(grid, agent_position, rng=rng)
    objects = [
        [
            objects[y][x] if visibility[y, x] else Hidden()
            for x in range(area.width)
        ]
        for y in range(area.height)
    ]
    return objects, agent_position


# ---------------------------------------------------------------------------
# 1. Grid.subgrid against the reference
# ---------------------------------------------------------------------------


def make_distinct_grid(height: int, width: int) -> Grid:
    """grid of objects which are all different (and of various types)"""
    makers = [
        lambda: Floor(),
        lambda: Wall(),
        lambda: Key(Color.RED),
        lambda: Door(Door.Status.LOCKED, Color.BLUE),
        lambda: Box(Key(Color.GREEN)),
        lambda: Telepod(Color.YELLOW),
        lambda: Exit(),
        lambda: MovingObstacle(),
        lambda: Beacon(Color.GREEN),
    ]
    return Grid(
        [
            [makers[(3 * y + x) % len(makers)]() for x in range(width)]
            for y in range(height)
        ]
    )


def check_subgrid(grid: Grid, area: Area):
    snapshot = [list(row) for row in grid.objects]
    expected = reference_subgrid_cells(grid, area)
    subgrid = grid.subgrid(area)

    check(isinstance(subgrid, Grid), 'subgrid type', area)
    check(subgrid is not grid, 'subgrid is a new instance', area)
    check(
        subgrid.shape == Shape(area.height, area.width),
        'subgrid shape',
        grid.shape,
        area,
        subgrid.shape,
    )
    check(
        subgrid.area == Area((0, area.height - 1), (0, area.width - 1)),
        'subgrid area',
    )
    check(isinstance(subgrid.objects, list), 'subgrid rows container')
    check(len(subgrid.objects) == area.height, 'subgrid number of rows', area)

    hidden_ids = set()
    num_hidden = 0
    for row, expected_row in zip(subgrid.objects, expected):
        check(isinstance(row, list), 'subgrid row is a list', area)
        check(len(row) == area.width, 'subgrid row length', grid.shape, area)
        for obj, expected_obj in zip(row, expected_row):
            if expected_obj is None:
                check(type(obj) is Hidden, 'outside cell is Hidden', area)
                hidden_ids.add(id(obj))
                num_hidden += 1
            else:
                check(obj is expected_obj, 'inside cell is shared', area)

    # one (fresh) Hidden per cell
    check(len(hidden_ids) == num_hidden, 'Hidden objects are distinct', area)

    # rows are not aliases of the rows of the original grid
    for row in subgrid.objects:
        check(all(row is not r for r in grid.objects), 'row aliasing', area)

    # original grid untouched
    check(
        all(
            a is b
            for row_a, row_b in zip(grid.objects, snapshot)
            for a, b in zip(row_a, row_b)
        )
        and [len(r) for r in grid.objects] == [len(r) for r in snapshot],
        'subgrid does not change the grid',
    )

    # writing through the subgrid does not write into the grid
    subgrid[0, 0] = Wall()
    check(
        all(
            a is b
            for row_a, row_b in zip(grid.objects, snapshot)
            for a, b in zip(row_a, row_b)
        ),
        'writing into subgrid does not change the grid',
    )


def part_subgrid():
    for height, width in [(1, 1), (1, 4), (3, 1), (2, 3), (4, 5), (5, 2)]:
        grid = make_distinct_grid(height, width)
        ys = range(-3, height + 3)
        xs = range(-3, width + 3)
        for ymin, ymax in itt.combinations_with_replacement(ys, 2):
            for xmin, xmax in itt.combinations_with_replacement(xs, 2):
                check_subgrid(grid, Area((ymin, ymax), (xmin, xmax)))

    # far away and very wide areas
    grid = make_distinct_grid(3, 4)
    for area in [
        Area((-50, -40), (-7, 9)),
        Area((40, 41), (-7, 9)),
        Area((-2, 5), (-60, -50)),
        Area((-2, 5), (100, 130)),
        Area((-20, 20), (-20, 20)),
        Area((1, 1), (-20, 20)),
        Area((-20, 20), (2, 2)),
        Area((0, 2), (0, 3)),
    ]:
        check_subgrid(grid, area)

    # repeated calls, subgrids of subgrids
    area = Area((-1, 2), (1, 5))
    check(grid.subgrid(area) == grid.subgrid(area), 'repeated calls')
    check(
        grid.subgrid(area).subgrid(Area((-1, 1), (-1, 1)))
        == Grid(
            [
                [Hidden(), Hidden(), Hidden()],
                [Hidden(), Hidden(), Hidden()],
                [Hidden(), grid[0, 1], grid[0, 2]],
            ]
        ),
        'subgrid of subgrid',
    )

    # the documented example of tests/test_grid.py
    grid = Grid(
        [
            [Wall(), Floor(), Wall()],
            [Floor(), Key(Color.RED), Floor()],
        ]
    )
    check(
        grid.subgrid(Area((-1, 1), (1, 3))).objects
        == [
            [Hidden(), Hidden(), Hidden()],
            [Floor(), Wall(), Hidden()],
            [Key(Color.RED), Floor(), Hidden()],
        ],
        'hard-coded subgrid',
    )


# ---------------------------------------------------------------------------
# states
# ---------------------------------------------------------------------------

OBJECT_TYPES = [
    Floor,
    Wall,
    Exit,
    Door,
    Key,
    MovingObstacle,
    Box,
    Telepod,
    Beacon,
]
COLORS = [Color.RED, Color.GREEN, Color.BLUE, Color.YELLOW]


def random_object(rng, *, boxed: bool = False) -> GridObject:
    i = rng.integers(len(OBJECT_TYPES))
    object_type = OBJECT_TYPES[i]
    color = [Color.NONE, *COLORS][rng.integers(5)]
    if object_type in (Floor, Wall, MovingObstacle):
        return object_type()
    if object_type is Exit:
        return Exit(color)
    if object_type is Door:
        return Door(list(Door.Status)[rng.integers(3)], color)
    if object_type is Box:
        return Floor() if boxed else Box(random_object(rng, boxed=True))
    return object_type(color)


def random_state(rng, shape: Shape, *, p_floor: float = 0.5) -> State:
    grid = Grid(
        [
            [
                Floor() if rng.random() < p_floor else random_object(rng)
                for _ in range(shape.width)
            ]
            for _ in range(shape.height)
        ]
    )
    # agent anywhere (borders and corners are likely on small grids)
    position = Position(
        int(rng.integers(shape.height)), int(rng.integers(shape.width))
    )
    orientation = list(Orientation)[rng.integers(4)]
    held = [
        None,
        None,
        Key(Color.RED),
        Key(Color.NONE),
        Telepod(Color.BLUE),
        Wall(),
        Door(Door.Status.OPEN, Color.YELLOW),
    ][rng.integers(7)]
    return State(grid, Agent(position, orientation, held))


def border_states(shape: Shape):
    """agent on every border cell, with every heading, various grids"""
    area = Area((0, shape.height - 1), (0, shape.width - 1))
    for position in area.positions('border'):
        for orientation in Orientation:
            for held in [None, Key(Color.GREEN)]:
                grid = make_distinct_grid(shape.height, shape.width)
                yield State(grid, Agent(position, orientation, held))
                grid = Grid.from_shape(shape)
                grid[position] = Telepod(Color.RED)  # unpaired telepod
                yield State(grid, Agent(position, orientation, held))


# ---------------------------------------------------------------------------
# 2. observations against the reference
# ---------------------------------------------------------------------------

VIEW_AREAS = [
    Area((-6, 0), (-3, 3)),  # the default 7x7
    Area((-2, 0), (-1, 1)),
    Area((0, 0), (0, 0)),  # only the agent's cell
    Area((-4, 0), (0, 0)),  # a line
    Area((-1, 0), (-4, 4)),  # wide and short
    Area((-3, 1), (-1, 2)),  # asymmetric
    Area((-1, 2), (-3, 0)),  # asymmetric, agent in the right column
    Area((0, 3), (0, 2)),  # agent in the top-left corner, looking backward
    Area((-2, 2), (-2, 2)),
    Area((-9, 0), (-1, 1)),  # much longer than the grid
]


def check_observation(state: State, area: Area, name: str, seed: int):
    visibility_function = visibility_function_registry[name]
    if name == 'partially_occluded' and area.ymax != 0:
        return  # documented precondition of the visibility function

    snapshot = fast_copy(state)
    observation = observation_fs.from_visibility(
        state,
        area=area,
        visibility_function=visibility_function,
        rng=make_rng(seed),
    )
    expected_objects, expected_position = reference_observation(
        state, area, visibility_function, make_rng(seed)
    )

    check(isinstance(observation, Observation), 'observation type')
    check(
        observation.grid.shape == Shape(area.height, area.width),
        'observation shape',
        area,
        observation.grid.shape,
    )
    check(
        observation.grid.objects == expected_objects,
        'observation grid',
        name,
        area,
        state,
        observation.grid,
        expected_objects,
    )
    check(
        all(
            type(a) is type(b)
            for row_a, row_b in zip(observation.grid.objects, expected_objects)
            for a, b in zip(row_a, row_b)
        ),
        'observation grid types',
    )
    check(observation.agent.position == expected_position, 'pov position')
    check(observation.agent.orientation is Orientation.F, 'pov orientation')
    check(
        observation.agent.grid_object is state.agent.grid_object,
        'pov held item',
    )
    check(state == snapshot, 'observation does not change the state')

    # visible cells share the objects of the state
    state_ids = {id(obj) for row in state.grid.objects for obj in row}
    for row in observation.grid.objects:
        for obj in row:
            check(
                type(obj) is Hidden or id(obj) in state_ids,
                'visible cells are the cells of the state',
            )

    # one object per cell in the observation
    ids = [id(obj) for row in observation.grid.objects for obj in row]
    check(len(ids) == len(set(ids)), 'one object per observation cell')


def part_observations():
    rng = make_rng(11)
    states = []
    for shape in [Shape(1, 1), Shape(2, 5), Shape(4, 3), Shape(5, 6)]:
        states.extend(random_state(rng, shape) for _ in range(6))
    states.extend(border_states(Shape(3, 4)))
    states.extend(itt.islice(border_states(Shape(1, 3)), 0, None, 3))

    names = [
        'fully_transparent',
        'partially_occluded',
        'raytracing',
        'stochastic_raytracing',
    ]
    for i, state in enumerate(states):
        for area in VIEW_AREAS:
            for name in names:
                # raytracing is expensive:  subsample
                if 'raytracing' in name and (i + area.height) % 3:
                    continue
                check_observation(state, area, name, seed=i)


# ---------------------------------------------------------------------------
# 3. closure and totality of assembled environments
# ---------------------------------------------------------------------------

ALL_ACTIONS = list(Action)

TRANSITIONS = [
    transition_fs.move_agent,
    transition_fs.turn_agent,
    transition_fs.pickndrop,
    transition_fs.move_obstacles,
    transition_fs.actuate_door,
    transition_fs.actuate_box,
    transition_fs.teleport,
]


def chain_of(functions):
    return partial(transition_fs.chain, transition_functions=list(functions))


REWARD = partial(
    reward_fs.reduce_sum,
    reward_functions=[
        partial(reward_fs.living_reward, reward=-0.05),
        partial(reward_fs.reach_exit, reward_on=5.0),
        reward_fs.bump_moving_obstacle,
        reward_fs.bump_into_wall,
        reward_fs.actuate_door,
        partial(reward_fs.pickndrop, object_type=Key),
    ],
)

TERMINATION = partial(
    terminating_fs.reduce_any,
    terminating_functions=[
        terminating_fs.reach_exit,
        terminating_fs.bump_moving_obstacle,
        terminating_fs.bump_into_wall,
    ],
)


def make_env(
    shape: Shape,
    reset_function,
    *,
    view_shape: Shape = Shape(7, 7),
    observation_name: str = 'partially_occluded',
    transitions=TRANSITIONS,
    actions=ALL_ACTIONS,
    object_types=OBJECT_TYPES,
    colors=COLORS,
):
    state_space = StateSpace(shape, object_types, colors)
    action_space = ActionSpace(list(actions))
    observation_space = ObservationSpace(view_shape, object_types, colors)
    observation_function = partial(
        observation_fs.observation_function_registry[observation_name],
        area=observation_space.area,
    )
    return GridWorld(
        state_space,
        action_space,
        observation_space,
        reset_function,
        chain_of(transitions),
        observation_function,
        REWARD,
        TERMINATION,
    )


def conforms_state(env, state: State) -> bool:
    """membership in the state space, spelled out independently"""
    space = env.state_space
    objects = state.grid.objects
    return (
        len(objects) == space.grid_shape.height
        and all(len(row) == space.grid_shape.width for row in objects)
        and all(
            type(obj) in space.object_types
            and obj.color in set(space.colors) | {Color.NONE}
            for row in objects
            for obj in row
        )
        and 0 <= state.agent.position.y < space.grid_shape.height
        and 0 <= state.agent.position.x < space.grid_shape.width
        and isinstance(state.agent.orientation, Orientation)
        and type(state.agent.grid_object)
        in [*space.object_types, NoneGridObject]
    )


def conforms_observation(env, observation: Observation) -> bool:
    space = env.observation_space
    objects = observation.grid.objects
    return (
        len(objects) == space.grid_shape.height
        and all(len(row) == space.grid_shape.width for row in objects)
        and all(
            type(obj) in [*space.object_types, Hidden]
            for row in objects
            for obj in row
        )
        and observation.agent.position
        == Position(space.grid_shape.height - 1, space.grid_shape.width // 2)
        and type(observation.agent.grid_object)
        in [*space.object_types, NoneGridObject]
    )


def check_step(env, state: State, action: Action, digest=None):
    check(env.state_space.contains(state), 'precondition: state in space')
    snapshot = fast_copy(state)

    next_state, reward, terminal = env.functional_step(state, action)

    check(state == snapshot, 'functional_step does not change its input')
    check(next_state is not state, 'next state is a new object')
    check(
        env.state_space.contains(next_state),
        'next state in state space',
        state,
        action,
        next_state,
    )
    check(conforms_state(env, next_state), 'next state conforms (spelled out)')
    check(next_state.grid.shape == state.grid.shape, 'same grid shape')
    check(
        type(reward) is float and math.isfinite(reward),
        'finite float reward',
        reward,
    )
    check(type(terminal) is bool, 'boolean termination flag', terminal)

    observation = env.functional_observation(next_state)
    check(
        env.observation_space.contains(observation),
        'observation in observation space',
        next_state,
        observation,
    )
    check(
        conforms_observation(env, observation),
        'observation conforms (spelled out)',
    )

    if digest is not None:
        digest.update(
            repr((action, next_state, reward, terminal, observation)).encode()
        )

    return next_state, reward, terminal


def check_rejected_actions(env, state: State):
    snapshot = fast_copy(state)
    for action in ALL_ACTIONS:
        if env.action_space.contains(action):
            continue
        try:
            env.functional_step(state, action)
        except ValueError:
            pass
        else:
            check(False, 'action outside of the action space accepted', action)
        check(state == snapshot, 'rejected action changes nothing')
    for not_an_action in [None, 0, 'MOVE_FORWARD', Orientation.F]:
        try:
            env.functional_step(state, not_an_action)
        except ValueError:
            pass
        else:
            check(False, 'non-action accepted', not_an_action)
        check(state == snapshot, 'rejected non-action changes nothing')


def part_closure_random_states():
    """all actions x sampled states of the state space x compositions"""
    rng = make_rng(5)
    compositions = [
        TRANSITIONS,
        TRANSITIONS[::-1],
        [transition_fs.teleport, transition_fs.move_agent],
        [transition_fs.pickndrop, transition_fs.actuate_box] * 2,
        [],
    ]
    configs = [
        (Shape(1, 1), Shape(1, 1), 'fully_transparent'),
        (Shape(1, 5), Shape(3, 5), 'partially_occluded'),
        (Shape(4, 2), Shape(2, 9), 'raytracing'),
        (Shape(3, 4), Shape(7, 7), 'partially_occluded'),
        (Shape(6, 5), Shape(5, 3), 'stochastic_raytracing'),
    ]
    for (shape, view_shape, name), transitions in itt.product(
        configs, compositions
    ):
        env = make_env(
            shape,
            lambda *, rng=None: None,
            view_shape=view_shape,
            observation_name=name,
            transitions=transitions,
        )
        env.set_seed(3)
        states = [random_state(rng, shape) for _ in range(4)]
        states.extend(itt.islice(border_states(shape), 0, None, 7))
        for state in states:
            for action in ALL_ACTIONS:
                check_step(env, state, action)

    # restricted action space:  the rest is rejected
    env = make_env(
        Shape(3, 4),
        lambda *, rng=None: None,
        actions=[Action.MOVE_FORWARD, Action.TURN_LEFT, Action.TURN_RIGHT],
    )
    for state in itt.islice(border_states(Shape(3, 4)), 0, None, 5):
        check_rejected_actions(env, state)
        for action in env.action_space.actions:
            check_step(env, state, action)


def shipped_like_envs():
    shape = Shape(7, 9)
    yield 'empty', make_env(
        shape, partial(reset_fs.empty, shape, random_agent=True)
    )
    yield 'keydoor', make_env(
        shape,
        partial(reset_fs.keydoor, shape),
        observation_name='raytracing',
        view_shape=Shape(5, 5),
    )
    yield 'teleport', make_env(shape, partial(reset_fs.teleport, shape))
    yield 'dynamic_obstacles', make_env(
        shape,
        partial(reset_fs.dynamic_obstacles, shape, 4, random_agent=True),
        observation_name='fully_transparent',
        view_shape=Shape(3, 9),
    )
    yield 'crossing', make_env(
        shape, partial(reset_fs.crossing, shape, 2, Wall)
    )
    yield 'rooms', make_env(
        Shape(9, 11), partial(reset_fs.rooms, Shape(9, 11), (2, 2))
    )
    yield 'memory', make_env(
        Shape(6, 7),
        partial(reset_fs.memory, Shape(6, 7), {Color.RED, Color.BLUE}),
        observation_name='stochastic_raytracing',
        view_shape=Shape(4, 3),
    )


def part_closure_reachable_states():
    """states reachable from reset, several environments in one process"""
    digest = hashlib.sha256()
    envs = list(shipped_like_envs())
    policy_rng = make_rng(0)

    for seed in [0, 1, 0]:  # re-seeding (the third round repeats the first)
        for name, env in envs:
            env.set_seed(seed)
            env.reset()
            check(env.state_space.contains(env.state), 'reset state in space')
            check(
                env.observation_space.contains(env.observation),
                'reset observation in space',
            )
            check_rejected_actions(
                make_env_like(env, [Action.ACTUATE]), env.state
            )
            for _ in range(40):
                # all actions from the current state
                for action in ALL_ACTIONS:
                    check_step(env, env.state, action)
                # and then follow one of them
                action = ALL_ACTIONS[policy_rng.integers(len(ALL_ACTIONS))]
                state = env.state
                reward, terminal = env.step(action)
                digest.update(
                    repr(
                        (name, action, env.state, reward, terminal)
                    ).encode()
                )
                digest.update(repr(env.observation).encode())
                check(env.state is not state, 'step replaces the state')
                check(
                    env.observation is env.observation,
                    'observation is memoized',
                )
                if terminal:
                    env.reset()

    return digest.hexdigest()


def make_env_like(env, actions):
    """same components, restricted action space"""
    return GridWorld(
        env.state_space,
        ActionSpace(list(actions)),
        env.observation_space,
        env._reset_function,
        env._transition_function,
        env._observation_function,
        env._reward_function,
        env._termination_function,
    )


EXPECTED_DIGEST = (
    '3dcfaf9c3a76a939e0b27012dbee72d495a1e6a32268c6cef08b044e6a187249'
)


def main():
    part_subgrid()
    print('subgrid ok', num_checks)
    part_observations()
    print('observations ok', num_checks)
    part_closure_random_states()
    print('closure (sampled states) ok', num_checks)
    digest = part_closure_reachable_states()
    print('closure (reachable states) ok', num_checks)
    check(digest == EXPECTED_DIGEST, 'trajectory digest', digest)
    print(f'all {num_checks} checks passed')


if __name__ == '__main__':
    main()
