"""Demo for change B (observation / visibility wrappers).

Run from the worktree root:  /venv/bin/python _seed/B/demo.py

Exits 0 on the pristine tree and with the patch applied.  It checks

1. that the visibility functions (`partially_occluded`, `raytracing` with all
   its parameters, `stochastic_raytracing` with explicit and library rng) and
   the observation wrappers built on them return exactly the results of a
   reference implementation embedded here (a transcription of the pristine
   code, including its own ray helpers), that the wrappers resolve the
   visibility function in the registry at call time, call it exactly once and
   forward `rng` untouched;
2. property C06 (hidden cells carry no information; occlusion is monotone).
"""
import itertools as itt
import math
import os
import random
import sys

import numpy as np

# the script is run from the worktree root: import the worktree's package
sys.path.insert(
    0, os.path.dirname(os.path.dirname(os.path.dirname(os.path.abspath(__file__))))
)

from gym_gridverse.agent import Agent
from gym_gridverse.envs import observation_functions as of
from gym_gridverse.envs import visibility_functions as vf
from gym_gridverse.geometry import Area, Orientation, Position
from gym_gridverse.grid import Grid
from gym_gridverse.observation import Observation
from gym_gridverse.rng import reset_gv_rng
from gym_gridverse.grid_object import (
    Beacon,
    Box,
    Color,
    Door,
    Exit,
    Floor,
    Hidden,
    Key,
    MovingObstacle,
    Telepod,
    Wall,
)
from gym_gridverse.state import State

CHECKS = 0


def check(condition, message):
    global CHECKS
    CHECKS += 1
    if not condition:
        print(f'FAIL: {message}')
        sys.exit(1)


# ---------------------------------------------------------------------------
# reference implementation of the ray helpers (pristine semantics)
# ---------------------------------------------------------------------------


def ref_compute_ray(position, area, *, radians, step_size, unique=True):
    if not area.contains(position):
        raise ValueError('position outside area')

    y0, x0 = float(position.y), float(position.x)
    dy = step_size * math.sin(radians)
    dx = step_size * math.cos(radians)

    ys = (y0 + i * dy for i in itt.count())
    xs = (x0 + i * dx for i in itt.count())
    positions = (Position(round(y), round(x)) for y, x in zip(ys, xs))
    positions = list(itt.takewhile(area.contains, positions))
    if unique:
        # order-preserving removal of duplicates
        positions = list(dict.fromkeys(positions))
    return positions


def ref_compute_rays(position, area):
    radians_over_degrees = math.pi / 180.0
    return [
        ref_compute_ray(
            position, area, radians=deg * radians_over_degrees, step_size=0.01
        )
        for deg in range(360)
    ]


def ref_compute_rays_fancy(position, area):
    ys = np.linspace(area.ymin, area.ymax + 1, num=area.height + 1) - 0.5
    xs = np.linspace(area.xmin, area.xmax + 1, num=area.width + 1) - 0.5
    ys = ys - position.y
    xs = xs - position.x
    yys, xxs = np.meshgrid(ys, xs)
    radians = np.arctan2(yys, xxs)
    radians = np.sort(radians, axis=None)
    return [
        ref_compute_ray(position, area, radians=rad, step_size=0.01)
        for rad in radians
    ]


# ---------------------------------------------------------------------------
# property C06
# ---------------------------------------------------------------------------

COLORS = list(Color)


def object_pool():
    return [
        Floor,
        Floor,
        Floor,
        Wall,
        Wall,
        lambda: Exit(),
        lambda: Exit(Color.NONE),
        lambda: Door(Door.Status.OPEN, Color.RED),
        lambda: Door(Door.Status.CLOSED, Color.NONE),
        lambda: Door(Door.Status.LOCKED, Color.BLUE),
        lambda: Key(Color.YELLOW),
        lambda: Key(Color.NONE),
        MovingObstacle,
        lambda: Box(Key(Color.GREEN)),
        lambda: Box(Wall()),
        lambda: Telepod(Color.RED),
        lambda: Beacon(Color.NONE),
    ]


def replacement_objects():
    return [
        Floor(),
        Wall(),
        Door(Door.Status.OPEN, Color.GREEN),
        Door(Door.Status.LOCKED, Color.NONE),
        Key(Color.NONE),
        Box(Floor()),
        Exit(Color.NONE),
    ]


def object_key(obj):
    return (type(obj).__name__, obj.state_index, obj.color, repr(obj))


def grid_keys(grid):
    return [[object_key(obj) for obj in row] for row in grid.objects]


def same_observation(a, b):
    return (
        a == b
        and a.grid.shape == b.grid.shape
        and grid_keys(a.grid) == grid_keys(b.grid)
        and a.agent.position == b.agent.position
        and a.agent.orientation == b.agent.orientation
        and object_key(a.agent.grid_object) == object_key(b.agent.grid_object)
    )


def random_grid(rng, height, width, opaque_bias):
    pool = object_pool()
    objects = []
    for _ in range(height):
        row = []
        for _ in range(width):
            if rng.random() < opaque_bias:
                row.append(Wall())
            else:
                row.append(rng.choice(pool)())
        objects.append(row)
    return Grid(objects)


def copy_grid(grid):
    return Grid([list(row) for row in grid.objects])


# reference visibility / observation functions (pristine semantics, on top of
# the reference rays above)


def ref_partially_occluded(grid, position):
    if position.y != grid.shape.height - 1:
        raise NotImplementedError

    def flood(next_positions):
        visibility = np.zeros((grid.shape.height, grid.shape.width), dtype=bool)

        def visit(p):
            if grid.area.contains(p) and not visibility[p.y, p.x]:
                visibility[p.y, p.x] = True
                if not grid[p].blocks_vision:
                    for q in next_positions(p):
                        visit(q)

        visit(position)
        return visibility

    left = flood(
        lambda p: [
            Position(p.y - 1, p.x),
            Position(p.y, p.x - 1),
            Position(p.y - 1, p.x - 1),
        ]
    )
    right = flood(
        lambda p: [
            Position(p.y - 1, p.x),
            Position(p.y, p.x + 1),
            Position(p.y - 1, p.x + 1),
        ]
    )
    return left | right


REF_RAYS_CACHE = {}


def ref_rays(position, area):
    key = (position, area)
    if key not in REF_RAYS_CACHE:
        REF_RAYS_CACHE[key] = ref_compute_rays_fancy(position, area)
    return REF_RAYS_CACHE[key]


def ref_counts(grid, position):
    counts_num = np.zeros((grid.shape.height, grid.shape.width), dtype=int)
    counts_den = np.zeros((grid.shape.height, grid.shape.width), dtype=int)
    for ray in ref_rays(position, grid.area):
        light = True
        for pos in ray:
            counts_num[pos.y, pos.x] += int(light)
            counts_den[pos.y, pos.x] += 1
            light = light and not grid[pos].blocks_vision
    return counts_num, counts_den


def ref_raytracing(grid, position):
    counts_num, _ = ref_counts(grid, position)
    return counts_num >= 1


REF_VISIBILITY = {
    'partially_occluded': ref_partially_occluded,
    'raytracing': ref_raytracing,
}


def ref_observation(state, area, name):
    pov_area = state.agent.transform * area
    pov_agent_position = Position(-area.ymin, -area.xmin)
    observation_grid = state.grid.subgrid(pov_area) * state.agent.orientation
    visibility = REF_VISIBILITY[name](observation_grid, pov_agent_position)
    for pos in observation_grid.area.positions():
        if not visibility[pos.y, pos.x]:
            observation_grid[pos] = Hidden()
    return Observation(
        observation_grid,
        Agent(pov_agent_position, Orientation.F, state.agent.grid_object),
    )


NEIGHBOURS = [
    (dy, dx) for dy in (-1, 0, 1) for dx in (-1, 0, 1) if (dy, dx) != (0, 0)
]


def check_chain(grid, position, visibility, label):
    """visible => linked to the agent by adjacent transparent visible cells"""
    height, width = visibility.shape
    check(bool(visibility[position.y, position.x]), f'{label}: agent cell visible')
    reached = {position.yx}
    frontier = [position.yx]
    while frontier:
        y, x = frontier.pop()
        # only transparent visible cells carry the chain (an opaque agent cell
        # means nothing beyond it can be seen)
        if grid[y, x].blocks_vision:
            continue
        for dy, dx in NEIGHBOURS:
            yy, xx = y + dy, x + dx
            if (
                0 <= yy < height
                and 0 <= xx < width
                and visibility[yy, xx]
                and (yy, xx) not in reached
            ):
                reached.add((yy, xx))
                frontier.append((yy, xx))
    visible = {(int(y), int(x)) for y, x in zip(*np.nonzero(visibility))}
    check(visible == reached, f'{label}: visible cells are chained to the agent')


def check_monotone(function, grid, position, visibility, label):
    """making a visible opaque cell transparent never hides a visible cell"""
    for y, x in zip(*np.nonzero(visibility)):
        y, x = int(y), int(x)
        if grid[y, x].blocks_vision:
            modified = copy_grid(grid)
            modified[y, x] = Floor()
            new_visibility = function(modified, position)
            check(
                bool(np.all(new_visibility[visibility])),
                f'{label}: monotone when opening ({y}, {x})',
            )


OBSERVATION_FUNCTIONS = {
    'partially_occluded': of.partially_occluded,
    'raytracing': of.raytracing,
}
VISIBILITY_FUNCTIONS = {
    'partially_occluded': vf.partially_occluded,
    'raytracing': vf.raytracing,
}

AREAS = {
    'partially_occluded': [
        Area((0, 0), (0, 0)),
        Area((-2, 0), (-1, 1)),
        Area((-3, 0), (-1, 3)),
        Area((-4, 0), (0, 0)),
        Area((0, 0), (-3, 2)),
        Area((-6, 0), (-3, 3)),
        Area((-2, 0), (0, 2)),
    ],
    'raytracing': [
        Area((0, 0), (0, 0)),
        Area((-2, 0), (-1, 1)),
        Area((-3, 0), (-1, 3)),
        Area((-2, 2), (-2, 2)),
        Area((-3, 1), (-1, 2)),
        Area((0, 2), (0, 3)),
        Area((-6, 0), (-3, 3)),
    ],
}


def check_state(rng, state, area, name):
    label = f'{name} {state.grid.shape} {state.agent.transform} {area}'
    observation_function = OBSERVATION_FUNCTIONS[name]
    visibility_function = VISIBILITY_FUNCTIONS[name]

    observation = observation_function(state, area=area)
    check(
        same_observation(observation, ref_observation(state, area, name)),
        f'{label}: observation equals reference',
    )
    check(
        same_observation(observation, observation_function(state, area=area)),
        f'{label}: repeated call',
    )
    check(
        observation.grid.shape.as_tuple == (area.height, area.width),
        f'{label}: observation shape',
    )

    pov_agent_position = Position(-area.ymin, -area.xmin)
    check(
        observation.agent.position == pov_agent_position
        and observation.agent.orientation is Orientation.F,
        f'{label}: observation agent',
    )
    check(
        not isinstance(observation.grid[pov_agent_position], Hidden),
        f'{label}: own cell is visible',
    )

    # the input of the visibility function, and the visibility itself
    pov_grid = state.grid.subgrid(state.agent.transform * area) * state.agent.orientation
    visibility = visibility_function(pov_grid, pov_agent_position)
    check(
        visibility.dtype == bool
        and visibility.shape == (area.height, area.width),
        f'{label}: visibility array',
    )
    check(
        bool(np.array_equal(visibility, REF_VISIBILITY[name](pov_grid, pov_agent_position))),
        f'{label}: visibility equals reference',
    )
    for pos in pov_grid.area.positions():
        expected = pov_grid[pos] if visibility[pos.y, pos.x] else Hidden()
        check(
            object_key(observation.grid[pos]) == object_key(expected),
            f'{label}: cell {pos} shown iff visible',
        )

    check_chain(pov_grid, pov_agent_position, visibility, label)
    check_monotone(visibility_function, pov_grid, pov_agent_position, visibility, label)

    # non-interference: world cells which are hidden or out of view
    shown = set()
    for pos in observation.grid.area.positions():
        if not isinstance(observation.grid[pos], Hidden):
            world = state.agent.transform * Position(
                pos.y + area.ymin, pos.x + area.xmin
            )
            check(state.grid.area.contains(world), f'{label}: shown cell in grid')
            check(
                object_key(state.grid[world]) == object_key(observation.grid[pos]),
                f'{label}: shown cell shows the world cell',
            )
            shown.add(world)

    replacements = replacement_objects()
    for world in state.grid.area.positions():
        if world in shown:
            continue
        for replacement in [Floor(), Wall(), rng.choice(replacements)]:
            modified_grid = copy_grid(state.grid)
            modified_grid[world] = replacement
            modified_state = State(modified_grid, state.agent)
            check(
                same_observation(
                    observation, observation_function(modified_state, area=area)
                ),
                f'{label}: replacing unseen {world} by {replacement} changes nothing',
            )


def check_random_states():
    rng = random.Random(6)
    shapes = [(1, 1), (1, 6), (5, 1), (3, 5), (6, 4), (7, 7), (2, 2)]
    for name in ['partially_occluded', 'raytracing']:
        for height, width in shapes:
            grid_area = Area((0, height - 1), (0, width - 1))
            agent_positions = {
                Position(0, 0),
                Position(0, width - 1),
                Position(height - 1, 0),
                Position(height - 1, width - 1),
                Position(height // 2, width // 2),
                Position(rng.randrange(height), rng.randrange(width)),
            }
            for opaque_bias in [0.0, 0.25]:
                grid = random_grid(rng, height, width, opaque_bias)
                for agent_position in sorted(agent_positions, key=lambda p: p.yx):
                    check(grid_area.contains(agent_position), 'agent in grid')
                    for orientation in [
                        Orientation.F,
                        Orientation.B,
                        Orientation.L,
                        Orientation.R,
                    ]:
                        held = rng.choice([None, Key(Color.NONE), Key(Color.RED)])
                        agent = Agent(agent_position, orientation, held)
                        state = State(grid, agent)
                        for area in rng.sample(AREAS[name], 2):
                            check_state(rng, state, area, name)


def check_exhaustive_small_views():
    """all opacity patterns of small views"""
    cases = [
        ('partially_occluded', (3, 3), Position(2, 1)),
        ('partially_occluded', (3, 3), Position(2, 0)),
        ('partially_occluded', (2, 4), Position(1, 2)),
        ('partially_occluded', (4, 2), Position(3, 1)),
        ('raytracing', (3, 3), Position(2, 1)),
        ('raytracing', (3, 3), Position(1, 1)),
        ('raytracing', (3, 3), Position(0, 2)),
        ('raytracing', (2, 4), Position(1, 2)),
        ('raytracing', (4, 2), Position(0, 0)),
    ]
    for name, (height, width), position in cases:
        function = VISIBILITY_FUNCTIONS[name]
        reference = REF_VISIBILITY[name]
        cells = [(y, x) for y in range(height) for x in range(width)]
        visibilities = {}
        for pattern in itt.product([False, True], repeat=len(cells)):
            grid = Grid(
                [
                    [
                        Wall() if pattern[y * width + x] else Floor()
                        for x in range(width)
                    ]
                    for y in range(height)
                ]
            )
            visibility = function(grid, position)
            label = f'exhaustive {name} {height}x{width} {position} {pattern}'
            check(
                bool(np.array_equal(visibility, reference(grid, position))),
                f'{label}: equals reference',
            )
            check_chain(grid, position, visibility, label)
            visibilities[pattern] = visibility

        # monotone: clearing one visible opaque cell
        for pattern, visibility in visibilities.items():
            for index, (y, x) in enumerate(cells):
                if pattern[index] and visibility[y, x]:
                    opened = pattern[:index] + (False,) + pattern[index + 1 :]
                    check(
                        bool(np.all(visibilities[opened][visibility])),
                        f'exhaustive {name} {pattern}: monotone at {(y, x)}',
                    )
                # hidden cells carry no information
                if not visibility[y, x]:
                    flipped = (
                        pattern[:index]
                        + (not pattern[index],)
                        + pattern[index + 1 :]
                    )
                    check(
                        bool(np.array_equal(visibilities[flipped], visibility)),
                        f'exhaustive {name} {pattern}: hidden {(y, x)} irrelevant',
                    )


def check_stochastic_bounds():
    rng = random.Random(66)
    for height, width in [(1, 1), (1, 5), (4, 3), (5, 5), (3, 7)]:
        for _ in range(4):
            grid = random_grid(rng, height, width, rng.choice([0.0, 0.3]))
            position = Position(rng.randrange(height), rng.randrange(width))
            counts_num, counts_den = ref_counts(grid, position)
            check(bool(np.all(counts_den > 0)), 'every cell is on some ray')
            may_show = counts_num >= 1
            must_show = counts_num == counts_den
            check(
                bool(np.array_equal(may_show, vf.raytracing(grid, position))),
                'deterministic ray-traced view',
            )
            for seed in range(8):
                visibility = vf.stochastic_raytracing(
                    grid, position, rng=np.random.default_rng(seed)
                )
                check(
                    bool(np.all(may_show[visibility])),
                    'stochastic view only shows what raytracing can show',
                )
                check(
                    bool(np.all(visibility[must_show])),
                    'stochastic view shows cells every ray reaches lit',
                )
                again = vf.stochastic_raytracing(
                    grid, position, rng=np.random.default_rng(seed)
                )
                check(bool(np.array_equal(visibility, again)), 're-seeding')

            # through the observation function as well
            agent = Agent(position, rng.choice(list(Orientation)))
            state = State(grid, agent)
            area = rng.choice(AREAS['raytracing'])
            deterministic = of.raytracing(state, area=area)
            for seed in range(4):
                stochastic = of.stochastic_raytracing(
                    state, area=area, rng=np.random.default_rng(seed)
                )
                for pos in stochastic.grid.area.positions():
                    if isinstance(deterministic.grid[pos], Hidden):
                        check(
                            isinstance(stochastic.grid[pos], Hidden),
                            'stochastic observation within deterministic one',
                        )


# ---------------------------------------------------------------------------
# wrappers against the reference
# ---------------------------------------------------------------------------


def ref_from_visibility(state, area, visibility_function, rng=None):
    pov_area = state.agent.transform * area
    pov_agent_position = Position(-area.ymin, -area.xmin)
    observation_grid = state.grid.subgrid(pov_area) * state.agent.orientation
    visibility = visibility_function(observation_grid, pov_agent_position, rng=rng)
    for pos in observation_grid.area.positions():
        if not visibility[pos.y, pos.x]:
            observation_grid[pos] = Hidden()
    return Observation(
        observation_grid,
        Agent(pov_agent_position, Orientation.F, state.agent.grid_object),
    )


def ref_stochastic_raytracing(grid, position, *, rng):
    counts_num, counts_den = ref_counts(grid, position)
    probs = np.nan_to_num(counts_num / counts_den)
    return rng.random(probs.shape) < probs


NAMES = [
    'fully_transparent',
    'partially_occluded',
    'raytracing',
    'stochastic_raytracing',
]


def check_registries():
    for name in NAMES:
        check(
            vf.visibility_function_registry[name] is getattr(vf, name),
            f'visibility registry entry {name}',
        )
        check(
            of.observation_function_registry[name] is getattr(of, name),
            f'observation registry entry {name}',
        )
    check(
        of.observation_function_registry['from_visibility'] is of.from_visibility,
        'observation registry entry from_visibility',
    )
    check(
        sorted(vf.visibility_function_registry.keys()) == sorted(NAMES),
        'visibility registry names',
    )
    check(
        sorted(of.observation_function_registry.keys())
        == sorted(NAMES + ['from_visibility']),
        'observation registry names',
    )


def check_visibility_functions():
    rng = random.Random(7)
    for height, width in [(1, 1), (1, 5), (4, 1), (3, 5), (6, 4), (5, 5)]:
        for opaque_bias in [0.0, 0.3]:
            grid = random_grid(rng, height, width, opaque_bias)
            snapshot = grid_keys(grid)
            positions = {
                Position(0, 0),
                Position(height - 1, width - 1),
                Position(height - 1, width // 2),
                Position(rng.randrange(height), rng.randrange(width)),
            }
            for position in sorted(positions, key=lambda p: p.yx):
                label = f'{height}x{width} {position}'
                check(
                    bool(np.all(vf.fully_transparent(grid, position)))
                    and vf.fully_transparent(grid, position).shape
                    == (height, width),
                    f'{label}: fully transparent',
                )

                if position.y == height - 1:
                    got = vf.partially_occluded(grid, position)
                    check(
                        got.dtype == bool
                        and bool(
                            np.array_equal(
                                got, ref_partially_occluded(grid, position)
                            )
                        ),
                        f'{label}: partially_occluded',
                    )
                    got = vf.partially_occluded(
                        grid, position, rng=np.random.default_rng(0)
                    )
                    check(
                        bool(
                            np.array_equal(
                                got, ref_partially_occluded(grid, position)
                            )
                        ),
                        f'{label}: partially_occluded ignores rng',
                    )
                else:
                    try:
                        vf.partially_occluded(grid, position)
                    except NotImplementedError:
                        check(True, 'NotImplementedError')
                    else:
                        check(False, f'{label}: no NotImplementedError')

                counts_num, counts_den = ref_counts(grid, position)
                check(
                    bool(
                        np.array_equal(
                            vf.raytracing(grid, position), counts_num >= 1
                        )
                    ),
                    f'{label}: raytracing defaults',
                )
                for threshold in [0, 1, 2, 5, 1000]:
                    got = vf.raytracing(
                        grid, position, absolute_counts=True, threshold=threshold
                    )
                    check(
                        got.dtype == bool
                        and bool(np.array_equal(got, counts_num >= threshold)),
                        f'{label}: raytracing absolute {threshold}',
                    )
                for threshold in [0.0, 0.25, 0.5, 1.0, 1.5]:
                    got = vf.raytracing(
                        grid, position, absolute_counts=False, threshold=threshold
                    )
                    check(
                        got.dtype == bool
                        and bool(
                            np.array_equal(
                                got, (counts_num / counts_den) >= threshold
                            )
                        ),
                        f'{label}: raytracing relative {threshold}',
                    )
                got = vf.factory('raytracing', absolute_counts=False, threshold=0.5)(
                    grid, position
                )
                check(
                    bool(np.array_equal(got, (counts_num / counts_den) >= 0.5)),
                    f'{label}: raytracing through the factory',
                )

                for seed in [0, 1, 12345]:
                    got = vf.stochastic_raytracing(
                        grid, position, rng=np.random.default_rng(seed)
                    )
                    expected = ref_stochastic_raytracing(
                        grid, position, rng=np.random.default_rng(seed)
                    )
                    check(
                        got.dtype == bool and bool(np.array_equal(got, expected)),
                        f'{label}: stochastic_raytracing seed {seed}',
                    )

                    # one generator, several calls: same stream consumption
                    generator = np.random.default_rng(seed)
                    reference_generator = np.random.default_rng(seed)
                    for _ in range(3):
                        got = vf.stochastic_raytracing(
                            grid, position, rng=generator
                        )
                        expected = ref_stochastic_raytracing(
                            grid, position, rng=reference_generator
                        )
                        check(
                            bool(np.array_equal(got, expected)),
                            f'{label}: stochastic_raytracing stream {seed}',
                        )
                    check(
                        generator.random() == reference_generator.random(),
                        f'{label}: generator state afterwards',
                    )

                    # library generator, re-seeded
                    reset_gv_rng(seed)
                    got = vf.stochastic_raytracing(grid, position)
                    got_next = vf.stochastic_raytracing(grid, position, rng=None)
                    reference_generator = np.random.default_rng(seed)
                    check(
                        bool(
                            np.array_equal(
                                got,
                                ref_stochastic_raytracing(
                                    grid, position, rng=reference_generator
                                ),
                            )
                        )
                        and bool(
                            np.array_equal(
                                got_next,
                                ref_stochastic_raytracing(
                                    grid, position, rng=reference_generator
                                ),
                            )
                        ),
                        f'{label}: stochastic_raytracing library rng {seed}',
                    )

            check(grid_keys(grid) == snapshot, 'visibility functions do not edit the grid')


def check_observation_wrappers():
    rng = random.Random(8)
    reference_visibility = {
        'fully_transparent': lambda grid, position, rng=None: np.ones(
            (grid.shape.height, grid.shape.width), dtype=bool
        ),
        'partially_occluded': lambda grid, position, rng=None: ref_partially_occluded(
            grid, position
        ),
        'raytracing': lambda grid, position, rng=None: ref_raytracing(
            grid, position
        ),
        'stochastic_raytracing': lambda grid, position, rng=None: ref_stochastic_raytracing(
            grid, position, rng=rng
        ),
    }

    for height, width in [(1, 1), (2, 5), (5, 3), (6, 6)]:
        grid = random_grid(rng, height, width, 0.2)
        snapshot = grid_keys(grid)
        for _ in range(6):
            agent = Agent(
                Position(rng.randrange(height), rng.randrange(width)),
                rng.choice(list(Orientation)),
                rng.choice([None, Key(Color.NONE), Box(Wall())]),
            )
            state = State(grid, agent)
            for name in NAMES:
                areas = AREAS[
                    'partially_occluded' if name == 'partially_occluded' else 'raytracing'
                ]
                for area in rng.sample(areas, 3):
                    label = f'{name} {height}x{width} {agent.transform} {area}'
                    seed = rng.randrange(1000)
                    expected = ref_from_visibility(
                        state,
                        area,
                        reference_visibility[name],
                        rng=np.random.default_rng(seed),
                    )

                    got = getattr(of, name)(
                        state, area=area, rng=np.random.default_rng(seed)
                    )
                    check(same_observation(got, expected), f'{label}: wrapper')

                    got = of.factory(name, area=area)(
                        state, rng=np.random.default_rng(seed)
                    )
                    check(same_observation(got, expected), f'{label}: factory')

                    got = of.from_visibility(
                        state,
                        area=area,
                        visibility_function=getattr(vf, name),
                        rng=np.random.default_rng(seed),
                    )
                    check(same_observation(got, expected), f'{label}: from_visibility')

                    got = of.factory(
                        'from_visibility',
                        area=area,
                        visibility_function=vf.factory(name),
                    )(state, rng=np.random.default_rng(seed))
                    check(
                        same_observation(got, expected),
                        f'{label}: from_visibility through the factories',
                    )

                    # library generator when no rng is given
                    reset_gv_rng(seed)
                    got = getattr(of, name)(state, area=area)
                    check(same_observation(got, expected), f'{label}: library rng')

                    check(
                        state.agent == agent and grid_keys(grid) == snapshot,
                        f'{label}: state untouched',
                    )


def check_wrappers_wiring():
    """registry looked up at call time, one call, same grid/position/rng"""
    grid = Grid(
        [
            [Floor(), Wall(), Key(Color.NONE)],
            [Floor(), Floor(), Door(Door.Status.CLOSED, Color.RED)],
        ]
    )
    state = State(grid, Agent(Position(1, 1), Orientation.R, Key(Color.BLUE)))
    area = Area((-1, 0), (-1, 1))

    for name in NAMES:
        calls = []

        def recorder(grid, position, *, rng=None):
            calls.append((grid, position, rng))
            visibility = np.zeros((grid.shape.height, grid.shape.width), dtype=bool)
            visibility[position.y, position.x] = True
            visibility[0, 0] = True
            return visibility

        generator = np.random.default_rng(3)
        registry = vf.visibility_function_registry
        original = registry.data[name]
        registry.data[name] = recorder
        try:
            observation = getattr(of, name)(state, area=area, rng=generator)
            observation_none = getattr(of, name)(state, area=area)
        finally:
            registry.data[name] = original

        check(len(calls) == 2, f'{name}: one visibility call per observation')
        check(calls[0][2] is generator, f'{name}: rng forwarded untouched')
        check(calls[1][2] is None, f'{name}: missing rng forwarded as None')
        check(calls[0][1] == Position(1, 1), f'{name}: agent position forwarded')
        expected_grid = Grid(
            [
                [Key(Color.NONE), Hidden(), Hidden()],
                [Hidden(), Floor(), Hidden()],
            ]
        )
        for got in [observation, observation_none]:
            check(
                grid_keys(got.grid) == grid_keys(expected_grid),
                f'{name}: observation built from the registered function',
            )
            check(
                got.agent.position == Position(1, 1)
                and got.agent.orientation is Orientation.F
                and object_key(got.agent.grid_object) == object_key(Key(Color.BLUE)),
                f'{name}: observation agent',
            )

        # after restoring the registry, the regular function is used again
        check(
            same_observation(
                getattr(of, name)(state, area=area, rng=np.random.default_rng(0)),
                of.from_visibility(
                    state,
                    area=area,
                    visibility_function=getattr(vf, name),
                    rng=np.random.default_rng(0),
                ),
            ),
            f'{name}: registry restored',
        )

    # wrong visibility shape is rejected
    try:
        of.from_visibility(
            state,
            area=area,
            visibility_function=lambda grid, position, rng=None: np.ones(
                (3, 3), dtype=bool
            ),
        )
    except ValueError:
        check(True, 'ValueError')
    else:
        check(False, 'no ValueError for a wrong visibility shape')

    # hard-coded expectations (agent facing right, on the border)
    expected_grid = Grid(
        [
            [Hidden(), Hidden(), Hidden()],
            [Key(Color.NONE), Door(Door.Status.CLOSED, Color.RED), Hidden()],
            [Wall(), Floor(), Hidden()],
        ]
    )
    for name in ['raytracing', 'partially_occluded']:
        observation = getattr(of, name)(state, area=Area((-2, 0), (-1, 1)))
        check(
            grid_keys(observation.grid) == grid_keys(expected_grid),
            f'hard-coded {name} observation {observation.grid}',
        )

    # hard-coded expectations (walls occluding the far row)
    F, W = Floor, Wall
    grid = Grid(
        [
            [Key(Color.NONE), F(), F(), F(), Exit()],
            [F(), W(), W(), F(), F()],
            [F(), F(), F(), F(), F()],
            [F(), F(), F(), F(), W()],
        ]
    )
    area = Area((-3, 0), (-2, 2))
    expectations = {
        ('raytracing', Orientation.F): ['HHHFE', 'FWWFF', 'FFFFF', 'FFFFW'],
        ('partially_occluded', Orientation.F): ['KHHFE', 'FWWFF', 'FFFFF', 'FFFFW'],
        ('raytracing', Orientation.L): ['HHHHH', 'HHFFF', 'HHFFW', 'HHFFW'],
        ('partially_occluded', Orientation.L): ['HHHHH', 'HHFFF', 'HHFFW', 'HHFFW'],
    }
    for (name, orientation), expected in expectations.items():
        state = State(grid, Agent(Position(3, 2), orientation))
        observation = getattr(of, name)(state, area=area)
        got = [
            ''.join(type(obj).__name__[0] for obj in row)
            for row in observation.grid.objects
        ]
        check(got == expected, f'hard-coded {name} {orientation}: {got}')


def main():
    check_registries()
    check_visibility_functions()
    check_observation_wrappers()
    check_wrappers_wiring()
    check_random_states()
    check_exhaustive_small_views()
    check_stochastic_bounds()
    print(f'OK ({CHECKS} checks)')


if __name__ == '__main__':
    main()
