"""C08 demo (change B): agent kinematics through the "free cell" test.

Self-contained: runs on the pristine tree and with the patch applied (it uses
`State.is_free` only when it exists, and then requires it to agree with the
reference below).  It checks

1. the "free cell" decision used by `move_agent` (inside the grid and not
   blocking movement) against hard-coded expectations for every object type
   and status, and for positions outside the grid -- in particular negative
   coordinates, which would wrap around if the grid were indexed directly;
2. `move_agent` / `turn_agent` / the other transition functions against a
   reference implementation of the kinematics embedded below, on non-square
   grids, all poses (edges and corners), all actions, all kinds of target
   cell (every object type and status, or outside the grid);
3. the invariant "agent inside the grid and not on a movement-blocking cell"
   along random histories from the shipped reset functions, with several
   environments interleaved in one process and re-seeding.
"""
import itertools as itt
import os
import sys

sys.path.insert(0, os.getcwd())  # run from the worktree root

import numpy.random as rnd  # noqa: E402

from gym_gridverse.action import Action
from gym_gridverse.agent import Agent
from gym_gridverse.envs import reset_functions as reset_fs
from gym_gridverse.envs import transition_functions as transition_fs
from gym_gridverse.geometry import Orientation, Position, Shape
from gym_gridverse.grid import Grid
from gym_gridverse.grid_object import (
    Beacon,
    Box,
    Color,
    Door,
    Exit,
    Floor,
    Hidden,
    Key,
    MovingObstacle,
    NoneGridObject,
    Telepod,
    Wall,
)
from gym_gridverse.state import State
from gym_gridverse.utils.fast_copy import fast_copy

N, E, S, W = Orientation.F, Orientation.R, Orientation.B, Orientation.L
HEADINGS = [N, E, S, W]

# hard-coded expectations: (heading, action) -> (dy, dx);  y grows downward
EXPECTED_DELTA = {
    (N, Action.MOVE_FORWARD): (-1, 0),
    (N, Action.MOVE_BACKWARD): (1, 0),
    (N, Action.MOVE_LEFT): (0, -1),
    (N, Action.MOVE_RIGHT): (0, 1),
    (E, Action.MOVE_FORWARD): (0, 1),
    (E, Action.MOVE_BACKWARD): (0, -1),
    (E, Action.MOVE_LEFT): (-1, 0),
    (E, Action.MOVE_RIGHT): (1, 0),
    (S, Action.MOVE_FORWARD): (1, 0),
    (S, Action.MOVE_BACKWARD): (-1, 0),
    (S, Action.MOVE_LEFT): (0, 1),
    (S, Action.MOVE_RIGHT): (0, -1),
    (W, Action.MOVE_FORWARD): (0, -1),
    (W, Action.MOVE_BACKWARD): (0, 1),
    (W, Action.MOVE_LEFT): (1, 0),
    (W, Action.MOVE_RIGHT): (-1, 0),
}
EXPECTED_TURN = {
    (N, Action.TURN_LEFT): W,
    (W, Action.TURN_LEFT): S,
    (S, Action.TURN_LEFT): E,
    (E, Action.TURN_LEFT): N,
    (N, Action.TURN_RIGHT): E,
    (E, Action.TURN_RIGHT): S,
    (S, Action.TURN_RIGHT): W,
    (W, Action.TURN_RIGHT): N,
}
MOVES = [
    Action.MOVE_FORWARD,
    Action.MOVE_BACKWARD,
    Action.MOVE_LEFT,
    Action.MOVE_RIGHT,
]
TURNS = [Action.TURN_LEFT, Action.TURN_RIGHT]

checks = 0


def check(condition, message):
    global checks
    checks += 1
    if not condition:
        print(f'FAIL: {message}')
        sys.exit(1)


# target cell kinds:  (factory, blocks movement)
CELL_KINDS = [
    (lambda: Floor(), False),
    (lambda: Wall(), True),
    (lambda: Exit(), False),
    (lambda: Exit(Color.GREEN), False),
    (lambda: Door(Door.Status.OPEN, Color.RED), False),
    (lambda: Door(Door.Status.CLOSED, Color.NONE), True),
    (lambda: Door(Door.Status.LOCKED, Color.BLUE), True),
    (lambda: Key(Color.YELLOW), False),
    (lambda: Key(Color.NONE), False),
    (lambda: MovingObstacle(), False),
    (lambda: Box(Floor()), True),
    (lambda: Box(Key(Color.RED)), True),
    (lambda: Telepod(Color.RED), False),
    (lambda: Beacon(Color.NONE), False),
    (lambda: Hidden(), False),
    (lambda: NoneGridObject(), False),
]


def reference_pose(grid_blocks, height, width, y, x, heading, action):
    """reference kinematics, written with plain integers and tables"""
    if action in MOVES:
        dy, dx = EXPECTED_DELTA[heading, action]
        ny, nx = y + dy, x + dx
        if 0 <= ny < height and 0 <= nx < width and not grid_blocks[ny][nx]:
            return ny, nx, heading
        return y, x, heading
    if action in TURNS:
        return y, x, EXPECTED_TURN[heading, action]
    return y, x, heading


# ---------------------------------------------------------------------------
# 1. the "free cell" decision
# ---------------------------------------------------------------------------
def reference_is_free(state, position):
    """reference: plain integer comparisons, then the object's attribute"""
    y, x = position.yx
    height, width = state.grid.shape.height, state.grid.shape.width
    if not (0 <= y < height and 0 <= x < width):
        return False
    return not state.grid.objects[y][x].blocks_movement


def is_free(state, position):
    """the library's decision when it offers one, else the reference"""
    expected = reference_is_free(state, position)
    library = getattr(state, 'is_free', None)
    if library is not None:
        result = library(position)
        check(result is expected, f'State.is_free({position}) = {result!r}')
        # repeatable, no side effect on the state
        check(library(position) is expected, 'State.is_free not repeatable')
    return expected


def check_free_cells():
    for height, width in [(1, 1), (1, 5), (4, 1), (3, 5), (5, 3)]:
        for factory, blocks in CELL_KINDS:
            # the whole grid is of one kind
            grid = Grid.from_shape((height, width), factory=factory)
            state = State(grid, Agent(Position(0, 0), N))
            before = fast_copy(state)
            for y, x in itt.product(range(-width - height - 2, width + height + 3), repeat=2):
                inside = 0 <= y < height and 0 <= x < width
                check(
                    is_free(state, Position(y, x)) is (inside and not blocks),
                    f'free cell {height}x{width} ({y},{x}) {factory()!r}',
                )
            check(state == before, 'free-cell test changed the state')

    # a free bottom-right corner must not make (-1, -1), (-1, x), (y, -1)
    # free:  negative coordinates do not wrap around;  and symmetric for a
    # blocked corner seen from the far side
    for height, width in [(2, 2), (3, 5), (5, 3)]:
        grid = Grid.from_shape((height, width), factory=Wall)
        grid[height - 1, width - 1] = Floor()
        state = State(grid, Agent(Position(height - 1, width - 1), N))
        for p in [
            Position(-1, -1),
            Position(-1, width - 1),
            Position(height - 1, -1),
            Position(-height, -width),
            Position(height, width - 1),
            Position(height - 1, width),
        ]:
            check(not is_free(state, p), f'{p} outside the grid is free')
        check(is_free(state, Position(height - 1, width - 1)), 'corner')
        check(not is_free(state, Position(0, 0)), 'wall corner')

    # moving off each edge towards the (wrapped) free cell stays in place
    for height, width in [(1, 1), (1, 4), (4, 1), (3, 4)]:
        for heading, action in itt.product(HEADINGS, MOVES):
            for y, x in itt.product(range(height), range(width)):
                state = State(
                    Grid.from_shape((height, width)),
                    Agent(Position(y, x), heading),
                )
                transition_fs.move_agent(state, action)
                dy, dx = EXPECTED_DELTA[heading, action]
                ny, nx = y + dy, x + dx
                inside = 0 <= ny < height and 0 <= nx < width
                check(
                    state.agent.position.yx == ((ny, nx) if inside else (y, x)),
                    f'edge move {height}x{width} ({y},{x}) {heading} {action}',
                )

    # status changes are seen at the time of the move (nothing is cached)
    door = Door(Door.Status.LOCKED, Color.RED)
    grid = Grid.from_shape((1, 3))
    grid[0, 1] = door
    state = State(grid, Agent(Position(0, 0), E))
    for status, blocks in [
        (Door.Status.LOCKED, True),
        (Door.Status.CLOSED, True),
        (Door.Status.OPEN, False),
        (Door.Status.CLOSED, True),
    ]:
        door.state = status
        state.agent.position = Position(0, 0)
        check(is_free(state, Position(0, 1)) is (not blocks), f'door {status}')
        transition_fs.move_agent(state, Action.MOVE_FORWARD)
        check(
            state.agent.position == Position(0, 0 if blocks else 1),
            f'move into door {status}',
        )


# ---------------------------------------------------------------------------
# 2. transition functions against the reference kinematics
# ---------------------------------------------------------------------------
def make_state(height, width, y, x, heading, cells):
    """grid of floor with `cells` = {(y, x): object}"""
    grid = Grid.from_shape((height, width))
    for position, obj in cells.items():
        grid[position] = obj
    return State(grid, Agent(Position(y, x), heading))


def neighbours(y, x):
    return [(y - 1, x), (y + 1, x), (y, x - 1), (y, x + 1)]


def check_transition_functions():
    shapes = [(1, 1), (1, 4), (5, 1), (2, 3), (3, 2), (4, 7)]
    for height, width in shapes:
        for y, x in itt.product(range(height), range(width)):
            for heading in HEADINGS:
                for (factory, blocks), action in itt.product(
                    CELL_KINDS, Action
                ):
                    # all in-grid neighbours are of the given kind
                    cells = {
                        (ny, nx): factory()
                        for ny, nx in neighbours(y, x)
                        if 0 <= ny < height and 0 <= nx < width
                    }
                    grid_blocks = [
                        [(yy, xx) in cells and blocks for xx in range(width)]
                        for yy in range(height)
                    ]
                    expected = reference_pose(
                        grid_blocks, height, width, y, x, heading, action
                    )

                    # move_agent: moves only
                    state = make_state(height, width, y, x, heading, cells)
                    transition_fs.move_agent(state, action)
                    pose = (*state.agent.position.yx, state.agent.orientation)
                    check(
                        pose == (expected if action in MOVES else (y, x, heading)),
                        f'move_agent {height}x{width} ({y},{x}) {heading} {action}: {pose}',
                    )
                    check(
                        state.grid.area.contains(state.agent.position)
                        and not state.grid[state.agent.position].blocks_movement,
                        'move_agent left the agent on an invalid cell',
                    )

                    # turn_agent: turns only, never displaces
                    state = make_state(height, width, y, x, heading, cells)
                    transition_fs.turn_agent(state, action)
                    pose = (*state.agent.position.yx, state.agent.orientation)
                    check(
                        pose == (expected if action in TURNS else (y, x, heading)),
                        f'turn_agent ({y},{x}) {heading} {action}: {pose}',
                    )

                    # the other (non teleport) functions never change the pose
                    for f in [
                        transition_fs.actuate_door,
                        transition_fs.actuate_box,
                        transition_fs.pickndrop,
                        transition_fs.move_obstacles,
                    ]:
                        state = make_state(height, width, y, x, heading, cells)
                        f(state, action, rng=rnd.default_rng(3))
                        pose = (
                            *state.agent.position.yx,
                            state.agent.orientation,
                        )
                        check(
                            pose == (y, x, heading),
                            f'{f.__name__} changed the pose',
                        )

                    # chain of both, functional version, original untouched
                    state = make_state(height, width, y, x, heading, cells)
                    next_state = transition_fs.transition_with_copy(
                        lambda s, a, rng=None: transition_fs.chain(
                            s,
                            a,
                            transition_functions=[
                                transition_fs.move_agent,
                                transition_fs.turn_agent,
                            ],
                            rng=rng,
                        ),
                        state,
                        action,
                    )
                    pose = (
                        *next_state.agent.position.yx,
                        next_state.agent.orientation,
                    )
                    check(pose == expected, f'chain: {pose} != {expected}')
                    check(
                        (*state.agent.position.yx, state.agent.orientation)
                        == (y, x, heading),
                        'transition_with_copy changed the input state',
                    )

    # asymmetric surroundings: only one neighbour blocks
    for heading, action in itt.product(HEADINGS, MOVES):
        for blocked in neighbours(1, 1):
            state = make_state(3, 3, 1, 1, heading, {blocked: Wall()})
            transition_fs.move_agent(state, action)
            dy, dx = EXPECTED_DELTA[heading, action]
            target = (1 + dy, 1 + dx)
            check(
                state.agent.position.yx
                == ((1, 1) if target == blocked else target),
                'asymmetric walls',
            )

    # turning: left then right restores, four equal turns restore
    for heading in HEADINGS:
        state = make_state(2, 5, 1, 4, heading, {})
        for action in [Action.TURN_LEFT, Action.TURN_RIGHT]:
            transition_fs.turn_agent(state, action)
        check(state.agent.orientation is heading, 'left-right')
        for action in [Action.TURN_RIGHT, Action.TURN_LEFT]:
            transition_fs.turn_agent(state, action)
        check(state.agent.orientation is heading, 'right-left')
        for turn in TURNS:
            seen = set()
            for _ in range(4):
                transition_fs.turn_agent(state, turn)
                seen.add(state.agent.orientation)
            check(state.agent.orientation is heading, 'four turns')
            check(len(seen) == 4, 'four turns visit four headings')
        check(state.agent.position == Position(1, 4), 'turn displaced')

    # teleport: the only other function that changes the position, and the
    # destination is a telepod of the same colour
    for seed in range(20):
        state = make_state(
            3,
            6,
            0,
            0,
            E,
            {
                (0, 0): Telepod(Color.RED),
                (2, 5): Telepod(Color.RED),
                (1, 3): Telepod(Color.BLUE),
            },
        )
        transition_fs.teleport(state, Action.ACTUATE, rng=rnd.default_rng(seed))
        check(state.agent.position == Position(2, 5), 'teleport destination')
        check(state.agent.orientation is E, 'teleport changed heading')


# ---------------------------------------------------------------------------
# 3. histories from the shipped reset functions
# ---------------------------------------------------------------------------
def valid(state):
    return is_free(state, state.agent.position)


def check_histories():
    resets = {
        'empty': lambda rng: reset_fs.empty(Shape(4, 9), True, True, rng=rng),
        'rooms': lambda rng: reset_fs.rooms(Shape(9, 13), (2, 3), rng=rng),
        'dynamic_obstacles': lambda rng: reset_fs.dynamic_obstacles(
            Shape(6, 8), 4, True, rng=rng
        ),
        'keydoor': lambda rng: reset_fs.keydoor(Shape(5, 8), rng=rng),
        'crossing': lambda rng: reset_fs.crossing(Shape(7, 9), 2, Wall, rng=rng),
        'teleport': lambda rng: reset_fs.teleport(Shape(6, 9), rng=rng),
        'memory': lambda rng: reset_fs.memory(
            Shape(5, 7), {Color.RED, Color.GREEN}, rng=rng
        ),
        'memory_rooms': lambda rng: reset_fs.memory_rooms(
            Shape(9, 11), (2, 2), {Color.RED, Color.BLUE}, 2, 2, rng=rng
        ),
    }
    functions = [
        transition_fs.move_agent,
        transition_fs.turn_agent,
        transition_fs.move_obstacles,
        transition_fs.actuate_door,
        transition_fs.actuate_box,
        transition_fs.pickndrop,
    ]
    actions = list(Action)

    def run(name, seed, steps):
        rng = rnd.default_rng(seed)
        state = resets[name](rng)
        check(valid(state), f'{name}: invalid initial state')
        trace = []
        for _ in range(steps):
            action = actions[rng.choice(len(actions))]
            y, x = state.agent.position.yx
            heading = state.agent.orientation
            # pose predicted by the reference from the grid *before* the step
            grid_blocks = [
                [
                    state.grid[yy, xx].blocks_movement
                    for xx in range(state.grid.shape.width)
                ]
                for yy in range(state.grid.shape.height)
            ]
            expected = reference_pose(
                grid_blocks,
                state.grid.shape.height,
                state.grid.shape.width,
                y,
                x,
                heading,
                action,
            )
            for f in functions:
                f(state, action, rng=rng)
            pose = (*state.agent.position.yx, state.agent.orientation)
            check(pose == expected, f'{name}: {pose} != {expected} ({action})')
            # teleport last: may relocate, never outside / on a blocking cell
            transition_fs.teleport(state, action, rng=rng)
            check(
                state.agent.orientation is expected[2],
                f'{name}: teleport changed heading',
            )
            check(valid(state), f'{name}: agent on invalid cell after {action}')
            trace.append((*state.agent.position.yx, state.agent.orientation))
        return trace

    # several environments interleaved in one process, and re-seeding gives
    # the same history
    for name in resets:
        traces = [run(name, seed, 150) for seed in (0, 1, 2)]
        again = [run(name, seed, 150) for seed in (2, 1, 0)]
        check(traces == again[::-1], f'{name}: history not reproducible')


def main():
    check_free_cells()
    check_transition_functions()
    check_histories()
    print(f'OK ({checks} checks)')


if __name__ == '__main__':
    main()
