"""Demo for change A: orientation tables derived from the clockwise order.

Checks property C18 (quarter-turn group, linear isometric action, pose
algebra, area / grid transforms, tentative next position) against reference
implementations and hard-coded tables embedded here.  Exits 0 both on the
pristine tree and with the patch applied.
"""
import itertools as itt
import os
import sys
import warnings

warnings.filterwarnings('ignore')
sys.path.insert(0, os.getcwd())

from gym_gridverse import geometry  # noqa: E402
from gym_gridverse.action import Action  # noqa: E402
from gym_gridverse.agent import Agent  # noqa: E402
from gym_gridverse.envs.utils import get_next_position  # noqa: E402
from gym_gridverse.geometry import (  # noqa: E402
    Area,
    Orientation,
    Position,
    Transform,
)
from gym_gridverse.grid import Grid  # noqa: E402
from gym_gridverse.grid_object import Color, Floor, Key, Wall  # noqa: E402

O = Orientation
ORIENTATIONS = [O.FORWARD, O.BACKWARD, O.LEFT, O.RIGHT]
checks = 0


def check(condition, *info):
    global checks
    checks += 1
    if not condition:
        print('FAILED', *info)
        sys.exit(1)


# ---------------------------------------------------------------- references

# quarter turns clockwise, written independently of the library
REF_TURNS = {O.FORWARD: 0, O.RIGHT: 1, O.BACKWARD: 2, O.LEFT: 3}
REF_FROM_TURNS = {v: k for k, v in REF_TURNS.items()}

# hard-coded copies of the pristine tables
REF_PRODUCT = {
    (O.F, O.F): O.F,
    (O.F, O.R): O.R,
    (O.F, O.B): O.B,
    (O.F, O.L): O.L,
    (O.R, O.F): O.R,
    (O.R, O.R): O.B,
    (O.R, O.B): O.L,
    (O.R, O.L): O.F,
    (O.B, O.F): O.B,
    (O.B, O.R): O.L,
    (O.B, O.B): O.F,
    (O.B, O.L): O.R,
    (O.L, O.F): O.L,
    (O.L, O.R): O.F,
    (O.L, O.B): O.R,
    (O.L, O.L): O.B,
}
REF_NEG = {O.F: O.F, O.R: O.L, O.B: O.B, O.L: O.R}
REF_DELTA = {O.F: (-1, 0), O.R: (0, 1), O.B: (1, 0), O.L: (0, -1)}
REF_MOVE = {
    Action.MOVE_FORWARD: O.F,
    Action.MOVE_LEFT: O.L,
    Action.MOVE_RIGHT: O.R,
    Action.MOVE_BACKWARD: O.B,
}


def ref_rotate(o, y, x):
    """rotation of (y, x) by o, as 2x2 integer matrix product"""
    m = {
        O.F: ((1, 0), (0, 1)),
        O.B: ((-1, 0), (0, -1)),
        O.R: ((0, 1), (-1, 0)),
        O.L: ((0, -1), (1, 0)),
    }[o]
    return m[0][0] * y + m[0][1] * x, m[1][0] * y + m[1][1] * x


def area_set(area):
    return {
        (y, x)
        for y in range(area.ys[0], area.ys[1] + 1)
        for x in range(area.xs[0], area.xs[1] + 1)
    }


# ------------------------------------------------- the module tables, exactly

check(geometry._orientation_rotations == REF_PRODUCT)
check(list(geometry._orientation_rotations) == list(REF_PRODUCT))
check(geometry._orientation_neg == REF_NEG)
check(list(geometry._orientation_neg) == list(REF_NEG))
check(
    geometry._position_from_orientation
    == {o: Position(*yx) for o, yx in REF_DELTA.items()}
)
check(list(geometry._position_from_orientation) == list(REF_DELTA))
for o, p in geometry._position_from_orientation.items():
    check(type(p) is Position and type(p.y) is int and type(p.x) is int, o, p)
    # shared constant, the same object on every call
    check(Position.from_orientation(o) is p)
    check(Position.from_orientation(o) is Position.from_orientation(o))
for table in (geometry._orientation_rotations, geometry._orientation_neg):
    for v in table.values():
        check(type(v) is Orientation)
check(len(set(ORIENTATIONS)) == 4 and set(O) == set(ORIENTATIONS))
check(O.F is O.FORWARD and O.B is O.BACKWARD)
check(O.L is O.LEFT and O.R is O.RIGHT)
check([o.value for o in (O.F, O.B, O.L, O.R)] == [0, 1, 2, 3])

# -------------------------------------------------- cyclic group of quarter turns

for a in ORIENTATIONS:
    check(a * O.F is a and O.F * a is a, 'identity', a)
    check(a * -a is O.F and -a * a is O.F, 'inverse', a)
    check(-(-a) is a)
    check(-a is REF_NEG[a])
    check(a * a * a * a is O.F, 'order divides 4', a)
    for b in ORIENTATIONS:
        check(a * b is REF_PRODUCT[a, b], a, b)
        check(a * b is REF_FROM_TURNS[(REF_TURNS[a] + REF_TURNS[b]) % 4])
        check(a * b is b * a, 'abelian', a, b)
        check(-(a * b) is -b * -a)
        for c in ORIENTATIONS:
            check((a * b) * c is a * (b * c), 'assoc', a, b, c)
# RIGHT generates the group, LEFT generates it backwards
check([O.F, O.R, O.R * O.R, O.R * O.R * O.R] == [O.F, O.R, O.B, O.L])
check([O.F, O.L, O.L * O.L, O.L * O.L * O.L] == [O.F, O.L, O.B, O.R])
check(O.B * O.B is O.F and O.L * O.R is O.F)
# repeated calls give the same answers (tables are not consumed / mutated)
for _ in range(3):
    check(all(a * b is REF_PRODUCT[a, b] for a, b in REF_PRODUCT))

# illegal operands are still refused
for bad in (1, 'R', None, (0, 1), 1.5):
    for a in ORIENTATIONS:
        try:
            a * bad
        except TypeError:
            check(True)
        else:
            check(False, 'expected TypeError', a, bad)
for bad in (0, 'FORWARD', None, Position(0, 0)):
    try:
        Position.from_orientation(bad)
    except TypeError:
        check(True)
    else:
        check(False, 'from_orientation should raise TypeError', bad)

# ---------------------------------- linear, isometric action on positions

COORDS = [-(10**12), -7, -2, -1, 0, 1, 2, 3, 11, 10**15 + 1]
POSITIONS = [Position(y, x) for y in COORDS for x in COORDS]
SMALL = [Position(y, x) for y in (-3, -1, 0, 2) for x in (-2, 0, 1, 5)]

for o in ORIENTATIONS:
    check(Position.from_orientation(o) == Position(*REF_DELTA[o]))
    check(o * Position.from_orientation(O.F) == Position.from_orientation(o))
    for a in ORIENTATIONS:
        check(
            a * Position.from_orientation(o)
            == Position.from_orientation(a * o)
        )
    for p in POSITIONS:
        r = o * p
        check(type(r) is Position and type(r.y) is int and type(r.x) is int)
        check(r.yx == ref_rotate(o, p.y, p.x), o, p)
        check(p * o == r)  # __rmul__
        check(r.y**2 + r.x**2 == p.y**2 + p.x**2, 'isometry')
        check(o * (-p) == -(o * p))
        check(-o * (o * p) == p and o * (-o * p) == p)
    check(o * Position(0, 0) == Position(0, 0))
    for p, q in itt.product(SMALL, SMALL):
        check(o * (p + q) == o * p + o * q, 'additive')
        check(o * (p - q) == o * p - o * q)
        check(
            Position.manhattan_distance(o * p, o * q)
            == Position.manhattan_distance(p, q)
        )
        check(
            Position.euclidean_distance(o * p, o * q)
            == Position.euclidean_distance(p, q)
        )
    for a in ORIENTATIONS:
        for p in SMALL:
            check((a * o) * p == a * (o * p), 'action', a, o, p)

# --------------------------------------------------------------- pose algebra

TRANSFORMS = [
    Transform(p, o)
    for p in (
        Position(0, 0),
        Position(-3, 4),
        Position(7, -1),
        Position(10**9, -(10**9)),
    )
    for o in ORIENTATIONS
]
IDENTITY = Transform(Position(0, 0), O.F)

for t in TRANSFORMS:
    check(t * IDENTITY == t and IDENTITY * t == t)
    check(t * -t == IDENTITY and -t * t == IDENTITY, 'inverse', t)
    check(-(-t) == t)
    check((-t).orientation is REF_NEG[t.orientation])
    for o in ORIENTATIONS:
        check(t * o is t.orientation * o)
    for p in SMALL:
        ry, rx = ref_rotate(t.orientation, p.y, p.x)
        check(t * p == Position(t.position.y + ry, t.position.x + rx))
        check(-t * (t * p) == p and t * (-t * p) == p)
    for s in TRANSFORMS:
        ts = t * s
        check(type(ts) is Transform)
        check(ts.orientation is REF_PRODUCT[t.orientation, s.orientation])
        check(-(t * s) == -s * -t)
        for p in SMALL:
            check(ts * p == t * (s * p), 'composed action', t, s, p)
for t, s, u in itt.product(TRANSFORMS[::3], TRANSFORMS[1::3], TRANSFORMS[2::3]):
    check((t * s) * u == t * (s * u), 'assoc', t, s, u)

# -------------------------------------------------------------------- areas

AREAS = [
    Area((0, 0), (0, 0)),
    Area((-2, 3), (1, 1)),
    Area((4, 4), (-5, -1)),
    Area((-6, 0), (-2, 1)),  # typical asymmetric view area
    Area((-3, -1), (2, 7)),
    Area((1, 2), (3, 6)),
    Area((-(10**6), -(10**6) + 2), (10**6, 10**6 + 1)),
]
for area in AREAS:
    positions = area_set(area)
    check(positions == {p.yx for p in area.positions()})
    for o in ORIENTATIONS:
        rotated = o * area
        check(type(rotated) is Area)
        check(area * o == rotated)
        check(area_set(rotated) == {ref_rotate(o, y, x) for y, x in positions})
        check(area_set(rotated) == {(o * Position(y, x)).yx for y, x in positions})
        check(-o * rotated == area)
        expected_shape = (
            (area.height, area.width)
            if o in (O.F, O.B)
            else (area.width, area.height)
        )
        check((rotated.height, rotated.width) == expected_shape)
        for a in ORIENTATIONS:
            check((a * o) * area == a * rotated)
    for t in TRANSFORMS[:12]:
        moved = t * area
        check(type(moved) is Area)
        check(area_set(moved) == {(t * Position(y, x)).yx for y, x in positions})
        check(-t * moved == area)
        for s in TRANSFORMS[4:8]:
            check((s * t) * area == s * moved)
    for p in SMALL:
        check(area_set(p + area) == {(p.y + y, p.x + x) for y, x in positions})
        check(area + p == p + area)

# -------------------------------------------------------------------- grids


def make_grid(height, width):
    """grid of pairwise distinguishable objects (colour NONE included)"""
    colors = list(Color)
    objects = []
    for y in range(height):
        row = []
        for x in range(width):
            k = y * width + x
            if k % 3 == 0:
                row.append(Key(colors[k % len(colors)]))
            elif k % 3 == 1:
                row.append(Wall())
            else:
                row.append(Floor())
        objects.append(row)
    return Grid(objects)


for height, width in [(1, 1), (1, 4), (5, 1), (2, 3), (3, 2), (4, 4), (3, 7)]:
    grid = make_grid(height, width)
    ids = [[id(obj) for obj in row] for row in grid.objects]
    center_free = Area((0, height - 1), (0, width - 1))
    for o in ORIENTATIONS:
        rotated = grid * o
        check(type(rotated) is Grid and rotated is not grid)
        check(o * grid == rotated)
        expected_shape = (
            (height, width) if o in (O.F, O.B) else (width, height)
        )
        check(rotated.shape.as_tuple == expected_shape, o, rotated.shape)
        # the very same objects, rearranged
        check(
            sorted(id(obj) for row in rotated.objects for obj in row)
            == sorted(i for row in ids for i in row)
        )
        # undone by the inverse rotation
        back = rotated * -o
        check(back == grid)
        check([[id(obj) for obj in row] for row in back.objects] == ids)
        # cells move according to the (inverse) rotation of their offsets from
        # the top-left corner of the rotated area
        rotated_area = -o * center_free
        for y in range(height):
            for x in range(width):
                q = -o * Position(y, x)
                qy, qx = q.y - rotated_area.ys[0], q.x - rotated_area.xs[0]
                check(rotated[qy, qx] is grid[y, x], o, (y, x), (qy, qx))
        for a in ORIENTATIONS:
            check((grid * o) * a == grid * (a * o))
    # the original is untouched
    check([[id(obj) for obj in row] for row in grid.objects] == ids)

# ------------------------------------------------- tentative next position

for p in SMALL + [Position(0, 0), Position(10**9, -(10**9))]:
    for o in ORIENTATIONS:
        agent = Agent(p, o)
        check(agent.front() == Position(p.y + REF_DELTA[o][0], p.x + REF_DELTA[o][1]))
        check(agent.position is p and agent.orientation is o)
        for action in Action:
            result = get_next_position(p, o, action)
            if action in REF_MOVE:
                m = REF_MOVE[action]
                dy, dx = REF_DELTA[REF_PRODUCT[o, m]]
                check(result == Position(p.y + dy, p.x + dx), p, o, action)
                check(result == Transform(p, o) * Position.from_orientation(m))
                check(
                    result
                    == (Transform(p, o) * Transform(Position.from_orientation(m), m)).position
                )
                check(Position.manhattan_distance(result, p) == 1)
            else:
                check(result is p, p, o, action)
        check(get_next_position(p, o, Action.MOVE_FORWARD) == agent.front())
        # forward then backward, left then right, cancel
        for a, b in [
            (Action.MOVE_FORWARD, Action.MOVE_BACKWARD),
            (Action.MOVE_LEFT, Action.MOVE_RIGHT),
        ]:
            check(get_next_position(get_next_position(p, o, a), o, b) == p)

# ------------------------------------------ end to end: views, moves, turns

from gym_gridverse.envs import reset_functions  # noqa: E402
from gym_gridverse.envs.observation_functions import (  # noqa: E402
    from_visibility,
)
from gym_gridverse.envs.transition_functions import (  # noqa: E402
    move_agent,
    turn_agent,
)
from gym_gridverse.envs.visibility_functions import (  # noqa: E402
    fully_transparent,
)
from gym_gridverse.geometry import Shape  # noqa: E402
from gym_gridverse.grid_object import Hidden  # noqa: E402
from gym_gridverse.rng import make_rng  # noqa: E402

VIEW_AREAS = [
    Area((-6, 0), (-3, 3)),  # the usual 7x7 view
    Area((-2, 1), (-1, 3)),  # asymmetric
    Area((0, 0), (0, 0)),  # only the agent's own cell
    Area((-1, 3), (-4, 0)),
]
TURNS = {Action.TURN_LEFT: O.L, Action.TURN_RIGHT: O.R}


def run_episode(seed, shape):
    """trace of one scripted random walk (two environments may interleave)"""
    rng = make_rng(seed)
    state = reset_functions.keydoor(Shape(*shape), rng=rng)
    height, width = state.grid.shape.as_tuple
    check((height, width) == shape)
    trace = []
    actions = list(Action)
    for step in range(40):
        agent = state.agent
        p, o = agent.position, agent.orientation
        for area in VIEW_AREAS:
            observation = from_visibility(
                state, area=area, visibility_function=fully_transparent
            )
            check(observation.grid.shape.as_tuple == (area.height, area.width))
            check(observation.agent.position == Position(-area.ymin, -area.xmin))
            check(observation.agent.orientation is O.F)
            for i in range(area.height):
                for j in range(area.width):
                    ry, rx = ref_rotate(o, area.ymin + i, area.xmin + j)
                    wy, wx = p.y + ry, p.x + rx
                    seen = observation.grid[i, j]
                    if 0 <= wy < height and 0 <= wx < width:
                        check(seen is state.grid[wy, wx], p, o, area, (i, j))
                    else:
                        check(type(seen) is Hidden, p, o, area, (i, j))
        action = actions[int(rng.integers(len(actions)))]
        # corners and borders included:  walk the agent onto the outer wall
        # cells now and then, where some moves leave the grid
        if step % 10 == 9:
            agent.position = Position(
                int(rng.integers(2)) * (height - 1),
                int(rng.integers(2)) * (width - 1),
            )
            p = agent.position
        move_agent(state, action)
        turn_agent(state, action)
        expected_o = REF_PRODUCT[o, TURNS[action]] if action in TURNS else o
        check(state.agent.orientation is expected_o, o, action)
        if action in REF_MOVE:
            dy, dx = REF_DELTA[REF_PRODUCT[o, REF_MOVE[action]]]
            q = (p.y + dy, p.x + dx)
            free = (
                0 <= q[0] < height
                and 0 <= q[1] < width
                and not state.grid[q].blocks_movement
            )
            check(state.agent.position.yx == (q if free else p.yx), p, o, action)
        else:
            check(state.agent.position == p)
        trace.append((state.agent.position.yx, state.agent.orientation.name))
    return trace


for shape in [(5, 9), (9, 5), (7, 7), (4, 12)]:
    first = run_episode(11, shape)
    check(first == run_episode(11, shape), 're-seeding repeats the walk')
    check(len({o for _, o in first}) >= 2)

print(f'ok ({checks} checks)')
