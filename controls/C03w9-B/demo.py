"""Demo for change B (from_visibility only overwrites the hidden cells).

Runs identically on the pristine tree and with the patch applied; exits 0 when

* every built-in observation function (and ``from_visibility`` with a number of
  custom visibility functions:  integer / float / object valued, all-true,
  all-false, wrongly shaped) agrees with a reference implementation embedded
  below (the pristine ``from_visibility``), cell by cell, including *which*
  python objects the observation is made of (visible cells are the state's own
  objects, hidden cells are fresh, pairwise distinct ``Hidden`` instances);
* a handful of hand-derived observations come out as expected;
* observing never modifies the state (same structure, same python objects),
  writing into the returned observation grid never shows in the state, and the
  answers do not depend on the history of calls (other environments, other
  view areas, more distinct ray-cache keys than the cache holds, re-seeding);
* ``functional_step`` keeps being pure and alias-free next to all that.

Run from the worktree root:  /venv/bin/python _seed/B/demo.py
"""
import copy
import itertools as itt
import os
import pickle
import sys
from functools import partial

import numpy as np

# run from the worktree root:  make `import gym_gridverse` pick up the worktree
sys.path.insert(0, os.getcwd())

from gym_gridverse.action import Action  # noqa: E402
from gym_gridverse.agent import Agent  # noqa: E402
from gym_gridverse.envs import observation_functions as ofs  # noqa: E402
from gym_gridverse.envs import reward_functions as rfs  # noqa: E402
from gym_gridverse.envs import terminating_functions as tfs  # noqa: E402
from gym_gridverse.envs import transition_functions as trs  # noqa: E402
from gym_gridverse.envs import visibility_functions as vfs  # noqa: E402
from gym_gridverse.envs.gridworld import GridWorld  # noqa: E402
from gym_gridverse.geometry import (  # noqa: E402
    Area,
    Orientation,
    Position,
    Shape,
)
from gym_gridverse.grid import Grid  # noqa: E402
from gym_gridverse.grid_object import (  # noqa: E402
    Beacon,
    Box,
    Color,
    Door,
    Exit,
    Floor,
    Hidden,
    Key,
    MovingObstacle,
    Telepod,
    Wall,
)
from gym_gridverse.observation import Observation  # noqa: E402
from gym_gridverse.rng import make_rng  # noqa: E402
from gym_gridverse.spaces import (  # noqa: E402
    ActionSpace,
    ObservationSpace,
    StateSpace,
)
from gym_gridverse.state import State  # noqa: E402

OBJECT_TYPES = [
    Floor,
    Wall,
    Exit,
    Door,
    Key,
    MovingObstacle,
    Box,
    Telepod,
    Beacon,
]
COLORS = list(Color)
ACTIONS = list(Action)


# --------------------------------------------------------------------------
# structural views (GridObject.__eq__ ignores Box contents)
# --------------------------------------------------------------------------


def canon_object(obj):
    content = canon_object(obj.content) if isinstance(obj, Box) else None
    return (type(obj).__name__, obj.state_index, obj.color, content)


def canon_grid(grid):
    return (
        grid.shape.as_tuple,
        tuple(tuple(canon_object(obj) for obj in row) for row in grid.objects),
    )


def canon_agent(agent):
    return (
        agent.position.yx,
        agent.orientation,
        canon_object(agent.grid_object),
    )


def canon(state_or_observation):
    return (
        canon_grid(state_or_observation.grid),
        canon_agent(state_or_observation.agent),
    )


def object_components(obj):
    yield obj
    if isinstance(obj, Box):
        yield from object_components(obj.content)


def mutable_components(state):
    components = [state.grid, state.grid.objects]
    for row in state.grid.objects:
        components.append(row)
        for obj in row:
            components.extend(object_components(obj))
    components.append(state.agent)
    components.append(state.agent.transform)
    components.extend(object_components(state.agent.grid_object))
    return components


def identity_view(state):
    return tuple(id(c) for c in mutable_components(state))


def provenance(observation, state):
    """where every object of an observation comes from

    the index of the state component it *is*, or 'fresh';  fresh objects must
    be pairwise distinct and distinct from everything in the state
    """
    index = {id(c): i for i, c in enumerate(mutable_components(state))}
    fresh = set()
    cells = []
    for row in observation.grid.objects:
        for obj in row:
            if id(obj) in index:
                cells.append(index[id(obj)])
            else:
                if id(obj) in fresh:
                    cells.append('shared fresh object')
                fresh.add(id(obj))
                cells.append('fresh')
    held = index.get(id(observation.agent.grid_object), 'fresh')
    containers = [
        id(observation.grid) in index,
        id(observation.grid.objects) in index,
        any(id(row) in index for row in observation.grid.objects),
        id(observation.agent) in index,
        id(observation.agent.transform) in index,
    ]
    return tuple(cells), held, tuple(containers)


# --------------------------------------------------------------------------
# reference implementation:  the pristine from_visibility, spelled out
# --------------------------------------------------------------------------


def reference_from_visibility(state, *, area, visibility_function, rng=None):
    pov_area = state.agent.transform * area
    pov_agent_position = Position(-area.ymin, -area.xmin)

    observation_grid = state.grid.subgrid(pov_area) * state.agent.orientation
    visibility = visibility_function(
        observation_grid, pov_agent_position, rng=rng
    )

    if visibility.shape != (area.height, area.width):
        raise ValueError(
            f'incorrect visibility shape ({visibility.shape}), '
            f'should be {(area.height, area.width)}'
        )

    for pos in observation_grid.area.positions():
        if not visibility[pos.y, pos.x]:
            observation_grid[pos] = Hidden()

    observation_agent = Agent(
        pov_agent_position, Orientation.F, state.agent.grid_object
    )
    return Observation(observation_grid, observation_agent)


# custom visibility functions:  anything array-like enough for the pristine
# implementation (`.shape`, 2D indexing, truthiness of the entries)


def checkerboard_ints(grid, position, *, rng=None):
    ys, xs = np.indices((grid.shape.height, grid.shape.width))
    return (ys + 2 * xs) % 3  # 0, 1, 2


def floats_with_nan(grid, position, *, rng=None):
    ys, xs = np.indices((grid.shape.height, grid.shape.width))
    values = ((ys - xs) % 3).astype(float)  # 0.0 hides
    values[values == 2.0] = np.nan  # nan is truthy
    values[0, 0] = -0.0  # negative zero hides
    return values


def python_objects(grid, position, *, rng=None):
    values = np.empty((grid.shape.height, grid.shape.width), dtype=object)
    options = itt.cycle([None, 'x', '', (), (0,), 0, 1.5, [], [0]])
    for y, x in np.ndindex(values.shape):
        values[y, x] = next(options)
    return values


def all_hidden(grid, position, *, rng=None):
    return np.zeros((grid.shape.height, grid.shape.width), dtype=bool)


def all_visible_fortran(grid, position, *, rng=None):
    return np.ones(
        (grid.shape.height, grid.shape.width), dtype=np.uint8, order='F'
    )


def transposed_view(grid, position, *, rng=None):
    """non-contiguous boolean view"""
    ys, xs = np.indices((grid.shape.width, grid.shape.height))
    return ((ys + xs) % 2 == 0).T


def only_opaque_cells(grid, position, *, rng=None):
    return np.array(
        [[obj.blocks_vision for obj in row] for row in grid.objects]
    )


def random_bits(grid, position, *, rng=None):
    return rng.integers(2, size=(grid.shape.height, grid.shape.width))


def wrong_shape(grid, position, *, rng=None):
    return np.ones((grid.shape.height + 1, grid.shape.width), dtype=bool)


def wrong_rank(grid, position, *, rng=None):
    return np.ones(grid.shape.height * grid.shape.width, dtype=bool)


def transposed_shape(grid, position, *, rng=None):
    return np.ones((grid.shape.width, grid.shape.height + 2), dtype=bool)


registry = vfs.visibility_function_registry

ANY_AREA = {
    'fully_transparent': registry['fully_transparent'],
    'checkerboard_ints': checkerboard_ints,
    'floats_with_nan': floats_with_nan,
    'python_objects': python_objects,
    'all_hidden': all_hidden,
    'all_visible_fortran': all_visible_fortran,
    'transposed_view': transposed_view,
    'only_opaque_cells': only_opaque_cells,
    'random_bits': random_bits,
    'wrong_shape': wrong_shape,
    'wrong_rank': wrong_rank,
    'transposed_shape': transposed_shape,
}
# need the agent inside the view
AGENT_INSIDE = {
    'raytracing': registry['raytracing'],
    'raytracing_relative': partial(
        registry['raytracing'], absolute_counts=False, threshold=0.5
    ),
    'raytracing_strict': partial(registry['raytracing'], threshold=10**6),
    'raytracing_lenient': partial(registry['raytracing'], threshold=0),
    'stochastic_raytracing': registry['stochastic_raytracing'],
}
# needs the agent in the bottom row of the view
AGENT_AT_BOTTOM = {
    'partially_occluded': registry['partially_occluded'],
}

AREAS = [
    # the usual ones (agent at the bottom centre)
    Area((-2, 0), (-1, 1)),
    Area((-6, 0), (-3, 3)),
    Area((-1, 0), (-2, 2)),
    # degenerate
    Area((0, 0), (0, 0)),
    Area((-3, 0), (0, 0)),
    Area((0, 0), (-2, 2)),
    # asymmetric, agent at the bottom
    Area((-3, 0), (-1, 2)),
    Area((-2, 0), (0, 3)),
    Area((-1, 0), (-3, 0)),
    # agent not at the bottom
    Area((-1, 2), (-2, 0)),
    Area((-2, 1), (0, 3)),
    Area((0, 2), (-1, 1)),
    # agent outside of its own view
    Area((-3, -1), (1, 2)),
    Area((1, 2), (-4, -2)),
]

SHAPES = [(1, 1), (1, 4), (4, 1), (3, 5), (5, 3), (4, 4)]

FILLERS = [
    Floor,
    lambda: Key(Color.GREEN),
    Floor,
    Wall,
    lambda: Telepod(Color.YELLOW),
    Floor,
    lambda: Door(Door.Status.CLOSED, Color.BLUE),
    MovingObstacle,
    lambda: Door(Door.Status.OPEN, Color.NONE),
    Floor,
    lambda: Box(Box(Key(Color.YELLOW))),
    lambda: Exit(Color.RED),
    lambda: Door(Door.Status.LOCKED, Color.RED),
    Floor,
    lambda: Beacon(Color.BLUE),
    Floor,
    Floor,
]

HELD = [lambda: None, lambda: Key(Color.NONE), lambda: Key(Color.RED)]


def make_state(shape, position, orientation, held, offset=0):
    height, width = shape
    fillers = itt.cycle(FILLERS)
    for _ in range(offset):
        next(fillers)
    grid = Grid([[next(fillers)() for _ in range(width)] for _ in range(height)])
    if grid[position].blocks_movement:
        grid[position] = Floor()
    return State(grid, Agent(position, orientation, held()))


failures = []
counts = {'observations': 0, 'errors': 0}


def check(condition, *context):
    if not condition:
        failures.append(context)
        if len(failures) > 20:
            report()


def report():
    for failure in failures:
        print('FAIL', *failure)
    print(f'{len(failures)} failures after {counts}')
    sys.exit(1)


def outcome(function, state, area, visibility_function, seed):
    """(observation or None, error message or None)"""
    try:
        observation = function(
            state,
            area=area,
            visibility_function=visibility_function,
            rng=make_rng(seed),
        )
    except ValueError as error:
        return None, ('ValueError', str(error))
    except NotImplementedError as error:
        return None, ('NotImplementedError', str(error))
    return observation, None


def check_observation(state, area, name, visibility_function, seed):
    context = (name, area, canon(state), seed)
    snapshot = canon(state)
    identities = identity_view(state)
    state_hash = hash(state)

    observation, error = outcome(
        ofs.from_visibility, state, area, visibility_function, seed
    )
    check(canon(state) == snapshot, 'state modified', *context)
    check(identity_view(state) == identities, 'state rewired', *context)
    check(hash(state) == state_hash, 'state hash changed', *context)

    expected, expected_error = outcome(
        reference_from_visibility, state, area, visibility_function, seed
    )
    check(error == expected_error, 'error', error, expected_error, *context)

    if observation is None or expected is None:
        counts['errors'] += 1
        check(observation is None and expected is None, 'one raised', *context)
        return None

    counts['observations'] += 1
    check(canon(observation) == canon(expected), 'observation', *context)
    check(observation == expected, 'observation (==)', *context)
    check(hash(observation) == hash(expected), 'observation hash', *context)
    check(
        provenance(observation, state) == provenance(expected, state),
        'provenance',
        *context,
    )
    check(
        observation.grid.shape.as_tuple == (area.height, area.width)
        and observation.grid.area == Area(
            (0, area.height - 1), (0, area.width - 1)
        ),
        'shape',
        *context,
    )
    check(
        all(len(row) == area.width for row in observation.grid.objects)
        and len(observation.grid.objects) == area.height,
        'rows',
        *context,
    )
    _, _, containers = provenance(observation, state)
    check(not any(containers), 'observation reuses state containers', *context)
    return observation


def overwrite(observation):
    """writes into every cell of an observation grid, and moves its agent"""
    for position in list(observation.grid.area.positions()):
        observation.grid[position] = Wall()
    observation.grid.objects.reverse()
    observation.agent.position = Position(7, 7)
    observation.agent.orientation = Orientation.B
    observation.agent.grid_object = Wall()


def exhaustive():
    seed = 0
    for shape in SHAPES:
        height, width = shape
        for y, x, orientation in itt.product(
            range(height), range(width), Orientation
        ):
            seed += 1
            position = Position(y, x)
            held = HELD[seed % len(HELD)]
            for area in AREAS:
                functions = dict(ANY_AREA)
                if area.contains(Position(0, 0)):
                    functions.update(AGENT_INSIDE)
                # partially_occluded raises NotImplementedError otherwise,
                # which is checked too (on a rotating subset)
                if area.ymax == 0 or seed % 7 == 0:
                    functions.update(AGENT_AT_BOTTOM)

                for name, visibility_function in functions.items():
                    # the custom functions on a rotating subset
                    if name not in registry and (seed + len(name)) % 4:
                        continue
                    state = make_state(
                        shape, position, orientation, held, seed % 5
                    )
                    snapshot = canon(state)
                    observation = check_observation(
                        state, area, name, visibility_function, seed
                    )
                    if observation is None:
                        continue
                    # the same question again, after the others
                    again = check_observation(
                        state, area, name, visibility_function, seed
                    )
                    check(
                        canon(again) == canon(observation),
                        'not repeatable',
                        name,
                        area,
                    )
                    # writing into the observation never shows in the state,
                    # nor in the other observation's containers
                    again_snapshot = canon(again)
                    overwrite(observation)
                    check(canon(state) == snapshot, 'observation leaks', name)
                    check(canon(again) == again_snapshot, 'observations alias')


# --------------------------------------------------------------------------
# hand-derived expectations
# --------------------------------------------------------------------------

LETTERS = {
    'Floor': '.',
    'Wall': 'W',
    'Key': 'K',
    'Door': 'D',
    'Exit': 'E',
    'Hidden': '?',
    'Box': 'B',
}


def picture(grid):
    return [
        ''.join(LETTERS[type(obj).__name__] for obj in row)
        for row in grid.objects
    ]


def hand_written():
    def room():
        # K W .
        # . A .
        # D . E
        return Grid(
            [
                [Key(Color.RED), Wall(), Floor()],
                [Floor(), Floor(), Floor()],
                [Door(Door.Status.CLOSED, Color.RED), Floor(), Exit()],
            ]
        )

    area = Area((-1, 0), (-1, 1))
    expected = {
        Orientation.F: ['KW.', '...'],
        Orientation.R: ['..E', 'W..'],
        Orientation.B: ['E.D', '...'],
        Orientation.L: ['D.K', '..W'],
    }
    for orientation, rows in expected.items():
        state = State(room(), Agent(Position(1, 1), orientation))
        for function in (ofs.fully_transparent, ofs.raytracing):
            observation = function(state, area=area)
            check(picture(observation.grid) == rows, 'room', orientation, function)
            check(observation.agent.position == Position(1, 1), 'pov position')
            check(observation.agent.orientation is Orientation.F, 'pov heading')

    # a corridor:  the wall hides what lies behind it
    corridor = Grid([[Floor(), Floor(), Wall(), Key(Color.BLUE), Floor()]])
    state = State(corridor, Agent(Position(0, 1), Orientation.R, Key(Color.RED)))
    for function in (ofs.partially_occluded, ofs.raytracing):
        observation = function(state, area=Area((-3, 0), (0, 0)))
        check(
            picture(observation.grid) == ['?', '?', 'W', '.'],
            'corridor',
            function,
            picture(observation.grid),
        )
        check(observation.agent.grid_object is state.agent.grid_object, 'held')
        check(observation.grid[2, 0] is corridor[0, 2], 'visible wall')
    observation = ofs.fully_transparent(state, area=Area((-3, 0), (0, 0)))
    check(picture(observation.grid) == ['.', 'K', 'W', '.'], 'corridor (all)')
    # looking the other way:  one floor cell, then out of the grid
    state = State(corridor, Agent(Position(0, 1), Orientation.L))
    for function in (ofs.partially_occluded, ofs.fully_transparent):
        observation = function(state, area=Area((-3, 0), (0, 0)))
        check(picture(observation.grid) == ['?', '?', '.', '.'], 'corridor (L)')

    # a corner:  everything outside of the grid is hidden
    state = State(Grid.from_shape((2, 2)), Agent(Position(0, 0), Orientation.F))
    observation = ofs.fully_transparent(state, area=area)
    check(picture(observation.grid) == ['???', '?..'], 'corner')
    hidden = [
        obj
        for row in observation.grid.objects
        for obj in row
        if isinstance(obj, Hidden)
    ]
    check(len(set(map(id, hidden))) == 4, 'hidden cells share an object')

    # a visibility function that shows nothing, not even the agent's own cell
    observation = ofs.from_visibility(
        state, area=area, visibility_function=all_hidden
    )
    check(picture(observation.grid) == ['???', '???'], 'nothing')

    # wrongly shaped visibility:  the documented exception and message
    try:
        ofs.from_visibility(state, area=area, visibility_function=wrong_shape)
    except ValueError as error:
        check(
            str(error)
            == 'incorrect visibility shape ((3, 3)), should be (2, 3)',
            'message',
            str(error),
        )
    else:
        check(False, 'ValueError expected')


# --------------------------------------------------------------------------
# through the environment interface, with histories
# --------------------------------------------------------------------------

TRANSITION = partial(
    trs.chain,
    transition_functions=[
        trs.turn_agent,
        trs.move_agent,
        trs.actuate_door,
        trs.actuate_box,
        trs.pickndrop,
        trs.teleport,
        trs.move_obstacles,
    ],
)
REWARD = partial(
    rfs.reduce_sum,
    reward_functions=[
        partial(rfs.living_reward, reward=-0.125),
        partial(rfs.reach_exit, reward_on=8.0),
        partial(rfs.bump_into_wall, reward=-2.0),
    ],
)
TERMINATION = partial(
    tfs.reduce_any,
    terminating_functions=[tfs.reach_exit, tfs.bump_moving_obstacle],
)


def make_env(shape, observation_shape, observation):
    observation_space = ObservationSpace(
        Shape(*observation_shape), OBJECT_TYPES, COLORS
    )
    return GridWorld(
        StateSpace(Shape(*shape), OBJECT_TYPES, COLORS),
        ActionSpace(ACTIONS),
        observation_space,
        reset_function=None,
        transition_function=TRANSITION,
        observation_function=partial(
            ofs.observation_function_registry[observation],
            area=observation_space.area,
        ),
        reward_function=REWARD,
        termination_function=TERMINATION,
    )


def environments():
    specs = [
        ((3, 5), (3, 3), 'partially_occluded'),
        ((5, 3), (7, 7), 'raytracing'),
        ((4, 4), (2, 5), 'fully_transparent'),
        ((1, 4), (5, 1), 'stochastic_raytracing'),
        ((4, 1), (1, 1), 'raytracing'),
    ]
    envs = [make_env(*spec) for spec in specs]
    starts = [
        make_state(shape, Position(shape[0] - 1, 0), Orientation.F, HELD[i % 3], i)
        for i, (shape, _, _) in enumerate(specs)
    ]

    def walk(order, length=60):
        """seeded walks in all environments, interleaved in the given order"""
        for i, env in enumerate(envs):
            env.set_seed(100 + i)
        states = list(starts)
        traces = [[] for _ in envs]
        action_rngs = [make_rng(i) for i, _ in enumerate(envs)]
        for _ in range(length):
            for i in order:
                env, state = envs[i], states[i]
                action = ACTIONS[action_rngs[i].integers(len(ACTIONS))]

                snapshot = canon(state)
                identities = identity_view(state)
                observation = env.functional_observation(state)
                next_state, reward, terminal = env.functional_step(state, action)
                check(canon(state) == snapshot, 'env call modified state')
                check(identity_view(state) == identities, 'env call rewired')
                check(
                    not set(identity_view(state))
                    & set(identity_view(next_state)),
                    'next state shares components',
                )
                duplicate = pickle.loads(pickle.dumps(state))
                check(
                    duplicate == state and hash(duplicate) == hash(state),
                    'copy differs',
                )
                check(copy.deepcopy(state) == state, 'deep copy differs')

                traces[i].append(
                    (canon(observation), canon(next_state), reward, terminal)
                )
                states[i] = next_state
        return traces

    forward = walk([0, 1, 2, 3, 4])
    backward = walk([4, 3, 2, 1, 0])
    alone = [walk([i])[i] for i in range(len(envs))]
    check(forward == backward, 'answers depend on the order of calls')
    check(forward == alone, 'answers depend on the other environments')
    snapshots = [canon(start) for start in starts]
    walk([2, 0, 4, 1, 3], length=5)
    check(snapshots == [canon(start) for start in starts], 'starts modified')


if __name__ == '__main__':
    hand_written()
    exhaustive()
    environments()
    if failures:
        report()
    print(f'OK ({counts})')
