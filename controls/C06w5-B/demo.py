"""Check program for the occlusion code (visibility / observation functions).

Run as:  cd /tmp/wt5-C06 && /venv/bin/python -W ignore _seed/<X>/demo.py

Everything the library returns is compared against an INDEPENDENT
re-implementation that lives in this file (own ray casting, own flood fill,
own world->view transform), and the property-level statements of C06 are
asserted directly on the library's outputs as well.
"""
import itertools
import math
import os
import sys

sys.path.insert(0, os.getcwd())

import numpy as np  # noqa: E402

from gym_gridverse.agent import Agent  # noqa: E402
from gym_gridverse.envs import observation_functions as of  # noqa: E402
from gym_gridverse.envs import visibility_functions as vf  # noqa: E402
from gym_gridverse.geometry import Area, Orientation, Position  # noqa: E402
from gym_gridverse.grid import Grid  # noqa: E402
from gym_gridverse.grid_object import (  # noqa: E402
    Beacon,
    Box,
    Color,
    Door,
    Exit,
    Floor,
    Hidden,
    Key,
    MovingObstacle,
    Telepod,
    Wall,
)
from gym_gridverse.rng import reset_gv_rng  # noqa: E402
from gym_gridverse.state import State  # noqa: E402
from gym_gridverse.utils.raytracing import compute_rays_fancy  # noqa: E402

COUNTS = {}


def count(name, n=1):
    COUNTS[name] = COUNTS.get(name, 0) + n


# ---------------------------------------------------------------------------
# independent reference implementation
# ---------------------------------------------------------------------------

_RAYS_CACHE = {}


def ref_rays(y0, x0, height, width):
    """rays towards all cell corners, as lists of (y, x); own implementation"""
    key = (y0, x0, height, width)
    if key in _RAYS_CACHE:
        return _RAYS_CACHE[key]

    if not (0 <= y0 < height and 0 <= x0 < width):
        raise ValueError('start outside')

    ys = np.linspace(0, height, num=height + 1) - 0.5 - y0
    xs = np.linspace(0, width, num=width + 1) - 0.5 - x0
    yys, xxs = np.meshgrid(ys, xs)
    angles = np.sort(np.arctan2(yys, xxs), axis=None)

    rays = []
    for angle in angles:
        dy = 0.01 * math.sin(angle)
        dx = 0.01 * math.cos(angle)
        ray = []
        seen = set()
        i = 0
        while True:
            cell = (round(float(y0) + i * dy), round(float(x0) + i * dx))
            if not (0 <= cell[0] < height and 0 <= cell[1] < width):
                break
            if cell not in seen:
                seen.add(cell)
                ray.append(cell)
            i += 1
        rays.append(ray)

    _RAYS_CACHE[key] = rays
    return rays


def ref_counts(opaque, y0, x0):
    height, width = opaque.shape
    num = np.zeros((height, width), dtype=int)
    den = np.zeros((height, width), dtype=int)
    for ray in ref_rays(y0, x0, height, width):
        lit = True
        for (y, x) in ray:
            den[y, x] += 1
            if lit:
                num[y, x] += 1
            if opaque[y, x]:
                lit = False
    return num, den


def ref_raytracing(opaque, y0, x0, absolute_counts=True, threshold=1):
    num, den = ref_counts(opaque, y0, x0)
    if absolute_counts:
        return num >= threshold
    return (num / den) >= threshold


def ref_stochastic(opaque, y0, x0, rng):
    num, den = ref_counts(opaque, y0, x0)
    probs = np.nan_to_num(num / den)
    return rng.random(probs.shape) < probs


def ref_partially_occluded(opaque, y0, x0):
    """union of two flood fills (front-left and front-right), iterative"""
    height, width = opaque.shape
    if y0 != height - 1:
        raise NotImplementedError
    result = np.zeros((height, width), dtype=bool)
    for sx in (-1, +1):
        seen = set()
        todo = [(y0, x0)]
        while todo:
            y, x = todo.pop()
            if not (0 <= y < height and 0 <= x < width):
                continue
            if (y, x) in seen:
                continue
            seen.add((y, x))
            if not opaque[y, x]:
                todo.extend([(y - 1, x), (y, x + sx), (y - 1, x + sx)])
        for (y, x) in seen:
            result[y, x] = True
    return result


def rotate(orientation, y, x):
    if orientation is Orientation.F:
        return y, x
    if orientation is Orientation.B:
        return -y, -x
    if orientation is Orientation.R:
        return x, -y
    if orientation is Orientation.L:
        return -x, y
    raise AssertionError


def ref_view(state, area):
    """world cell (or None when off-grid) shown at every view cell"""
    height, width = area.height, area.width
    cells = [[None] * width for _ in range(height)]
    for i in range(height):
        for j in range(width):
            dy, dx = rotate(
                state.agent.orientation, area.ymin + i, area.xmin + j
            )
            wy = state.agent.position.y + dy
            wx = state.agent.position.x + dx
            if (
                0 <= wy < state.grid.shape.height
                and 0 <= wx < state.grid.shape.width
            ):
                cells[i][j] = (wy, wx)
    return cells


def view_opacity(state, cells):
    height, width = len(cells), len(cells[0])
    opaque = np.ones((height, width), dtype=bool)
    for i in range(height):
        for j in range(width):
            if cells[i][j] is not None:
                opaque[i, j] = bool(state.grid[cells[i][j]].blocks_vision)
    return opaque


# ---------------------------------------------------------------------------
# helpers
# ---------------------------------------------------------------------------


def grid_from_opacity(opaque):
    return Grid(
        [
            [Wall() if opaque[y, x] else Floor() for x in range(opaque.shape[1])]
            for y in range(opaque.shape[0])
        ]
    )


OBJECT_MAKERS = [
    Floor,
    Floor,
    Floor,
    Wall,
    Wall,
    lambda: Door(Door.Status.OPEN, Color.RED),
    lambda: Door(Door.Status.CLOSED, Color.GREEN),
    lambda: Door(Door.Status.LOCKED, Color.BLUE),
    lambda: Key(Color.YELLOW),
    Exit,
    MovingObstacle,
    lambda: Box(Key(Color.RED)),
    lambda: Telepod(Color.BLUE),
    lambda: Beacon(Color.GREEN),
]

REPLACEMENTS = [
    Floor,
    Wall,
    lambda: Door(Door.Status.OPEN, Color.YELLOW),
    lambda: Door(Door.Status.CLOSED, Color.YELLOW),
    lambda: Key(Color.GREEN),
    Exit,
]


def random_grid(rng, height, width):
    return Grid(
        [
            [
                OBJECT_MAKERS[rng.integers(len(OBJECT_MAKERS))]()
                for _ in range(width)
            ]
            for _ in range(height)
        ]
    )


def copy_state(state):
    grid = Grid([list(row) for row in state.grid.objects])
    agent = Agent(
        state.agent.position, state.agent.orientation, state.agent.grid_object
    )
    return State(grid, agent)


def same_observation(a, b):
    """strict comparison (types and attributes through ==, shapes, agents)"""
    return (
        a.grid.shape == b.grid.shape
        and a.grid == b.grid
        and all(
            type(a.grid[p]) is type(b.grid[p]) for p in a.grid.area.positions()
        )
        and a.agent == b.agent
    )


def neighbours(y, x, height, width):
    for dy in (-1, 0, 1):
        for dx in (-1, 0, 1):
            if (dy or dx) and 0 <= y + dy < height and 0 <= x + dx < width:
                yield y + dy, x + dx


def check_chain(visible, opaque, y0, x0):
    """every visible cell is linked to the agent by adjacent transparent
    visible cells"""
    height, width = visible.shape
    assert visible[y0, x0], 'agent cell must be visible'
    reached = {(y0, x0)}
    todo = [(y0, x0)]
    while todo:
        y, x = todo.pop()
        if opaque[y, x]:
            continue
        for n in neighbours(y, x, height, width):
            if visible[n] and n not in reached:
                reached.add(n)
                todo.append(n)
    for y in range(height):
        for x in range(width):
            if visible[y, x]:
                assert (y, x) in reached, ('unlinked visible cell', y, x)


# ---------------------------------------------------------------------------
# 1. visibility functions, exhaustive opacity patterns of small views
# ---------------------------------------------------------------------------


def check_visibility_exhaustive():
    po = vf.visibility_function_registry['partially_occluded']
    rt = vf.visibility_function_registry['raytracing']
    assert po is vf.partially_occluded and rt is vf.raytracing

    shapes = [(1, 1), (1, 3), (2, 1), (2, 2), (2, 3), (3, 2), (3, 3), (3, 4), (4, 3)]
    for height, width in shapes:
        for x0 in range(width):
            y0 = height - 1
            rays_lib = compute_rays_fancy(
                Position(y0, x0), Area((0, height - 1), (0, width - 1))
            )
            rays_ref = ref_rays(y0, x0, height, width)
            assert [[p.yx for p in ray] for ray in rays_lib] == rays_ref

            table = {'po': {}, 'rt': {}}
            n = height * width
            for bits in itertools.product([False, True], repeat=n):
                opaque = np.array(bits, dtype=bool).reshape(height, width)
                grid = grid_from_opacity(opaque)
                position = Position(y0, x0)

                v_po = po(grid, position)
                v_rt = rt(grid, position)
                for v in (v_po, v_rt):
                    assert isinstance(v, np.ndarray)
                    assert v.dtype == bool and v.shape == (height, width)

                assert np.array_equal(
                    v_po, ref_partially_occluded(opaque, y0, x0)
                ), (opaque, y0, x0)
                assert np.array_equal(v_rt, ref_raytracing(opaque, y0, x0))

                check_chain(v_po, opaque, y0, x0)
                check_chain(v_rt, opaque, y0, x0)

                table['po'][bits] = v_po
                table['rt'][bits] = v_rt
                count('exhaustive patterns')

            # monotonicity: opening a visible opaque cell never hides anything
            for name in ('po', 'rt'):
                for bits, visible in table[name].items():
                    flat = visible.reshape(-1)
                    for k in range(n):
                        if bits[k] and flat[k]:
                            opened = bits[:k] + (False,) + bits[k + 1 :]
                            after = table[name][opened]
                            assert not (visible & ~after).any(), (name, bits, k)
                            count('monotone checks')


# ---------------------------------------------------------------------------
# 2. visibility functions on random opacity patterns / parameters
# ---------------------------------------------------------------------------


def check_visibility_random():
    rng = np.random.default_rng(20240607)
    shapes = [(3, 5), (4, 4), (5, 5), (7, 7), (5, 8), (6, 3), (2, 7)]
    thresholds_abs = [0, 1, 2, 3, 5, 1.5]
    thresholds_rel = [0.0, 0.25, 0.5, 0.75, 1.0, 1]

    for height, width in shapes:
        for trial in range(25):
            density = [0.1, 0.3, 0.5, 0.8][trial % 4]
            opaque = rng.random((height, width)) < density
            grid = grid_from_opacity(opaque)

            # partially occluded: only from the bottom row (else not implemented)
            for x0 in range(width):
                v = vf.partially_occluded(grid, Position(height - 1, x0))
                assert np.array_equal(
                    v, ref_partially_occluded(opaque, height - 1, x0)
                )
                check_chain(v, opaque, height - 1, x0)
                count('po random')
            if height > 1:
                try:
                    vf.partially_occluded(grid, Position(0, 0))
                except NotImplementedError:
                    pass
                else:
                    raise AssertionError('expected NotImplementedError')
            # position beside the view: nothing is visible
            for x0 in (-1, width):
                v = vf.partially_occluded(grid, Position(height - 1, x0))
                assert v.shape == (height, width) and not v.any()

            # ray tracing: from anywhere
            for y0 in range(height):
                for x0 in range(width):
                    position = Position(y0, x0)
                    v = vf.raytracing(grid, position)
                    assert np.array_equal(v, ref_raytracing(opaque, y0, x0))
                    check_chain(v, opaque, y0, x0)
                    count('rt random')

            # parameters
            y0, x0 = int(rng.integers(height)), int(rng.integers(width))
            position = Position(y0, x0)
            for threshold in thresholds_abs:
                v = vf.raytracing(grid, position, threshold=threshold)
                assert np.array_equal(
                    v, ref_raytracing(opaque, y0, x0, True, threshold)
                )
                f = vf.factory('raytracing', threshold=threshold)
                assert np.array_equal(f(grid, position), v)
            for threshold in thresholds_rel:
                v = vf.raytracing(
                    grid, position, absolute_counts=False, threshold=threshold
                )
                assert v.dtype == bool
                assert np.array_equal(
                    v, ref_raytracing(opaque, y0, x0, False, threshold)
                )
                f = vf.factory(
                    'raytracing', absolute_counts=False, threshold=threshold
                )
                assert np.array_equal(f(grid, position, rng=None), v)
                count('rt params')

            # rng argument is accepted and irrelevant / not consumed
            g = np.random.default_rng(5)
            before = g.bit_generator.state
            vf.raytracing(grid, position, rng=g)
            vf.partially_occluded(grid, Position(height - 1, 0), rng=g)
            assert g.bit_generator.state == before

    # position outside: ray tracing refuses
    grid = grid_from_opacity(np.zeros((3, 3), dtype=bool))
    for fn in (vf.raytracing, vf.stochastic_raytracing):
        try:
            fn(grid, Position(3, 0))
        except ValueError:
            pass
        else:
            raise AssertionError('expected ValueError')


# ---------------------------------------------------------------------------
# 3. stochastic ray tracing: exact draws and bounds
# ---------------------------------------------------------------------------


def check_stochastic():
    rng = np.random.default_rng(99)
    shapes = [(1, 1), (3, 3), (4, 6), (7, 7), (5, 2)]
    for height, width in shapes:
        for trial in range(12):
            opaque = rng.random((height, width)) < [0.15, 0.4, 0.7][trial % 3]
            grid = grid_from_opacity(opaque)
            for y0, x0 in {
                (height - 1, width // 2),
                (0, 0),
                (int(rng.integers(height)), int(rng.integers(width))),
            }:
                position = Position(y0, x0)
                num, den = ref_counts(opaque, y0, x0)
                can_show = num >= 1
                must_show = (num == den) & (den > 0)
                deterministic = vf.raytracing(grid, position)
                assert np.array_equal(deterministic, can_show)

                for seed in range(12):
                    g_lib = np.random.default_rng(seed)
                    g_ref = np.random.default_rng(seed)
                    v = vf.stochastic_raytracing(grid, position, rng=g_lib)
                    expected = ref_stochastic(opaque, y0, x0, g_ref)
                    assert v.dtype == bool and v.shape == (height, width)
                    assert np.array_equal(v, expected)
                    # same number of draws: the streams stay in lock step
                    assert g_lib.bit_generator.state == g_ref.bit_generator.state
                    assert g_lib.random() == g_ref.random()
                    # bounds
                    assert not (v & ~can_show).any()
                    assert (v | ~must_show).all()
                    count('stochastic draws')

                # module level generator is used when rng is None
                reset_gv_rng(1234)
                v = vf.stochastic_raytracing(grid, position)
                expected = ref_stochastic(
                    opaque, y0, x0, np.random.default_rng(1234)
                )
                assert np.array_equal(v, expected)
                reset_gv_rng(1234)
                v = vf.factory('stochastic_raytracing')(grid, position, rng=None)
                assert np.array_equal(v, expected)


# ---------------------------------------------------------------------------
# 4. observation functions on states
# ---------------------------------------------------------------------------

AREAS_PO = [
    Area((-6, 0), (-3, 3)),
    Area((-2, 0), (-1, 1)),
    Area((-3, 0), (-2, 1)),
    Area((-1, 0), (0, 0)),
    Area((0, 0), (0, 0)),
    Area((-4, 0), (-1, 3)),
    Area((0, 0), (-2, 2)),
    Area((-2, 0), (1, 3)),  # agent beside the view: everything hidden
]
AREAS_RT = AREAS_PO[:-1] + [
    Area((-2, 2), (-2, 2)),
    Area((-1, 3), (-2, 1)),
    Area((-3, 1), (0, 2)),
]


def expected_observation_check(state, area, observation, visible):
    """compares a library observation to the reference view + visibility"""
    cells = ref_view(state, area)
    assert observation.grid.shape.as_tuple == (area.height, area.width)
    assert observation.agent.position == Position(-area.ymin, -area.xmin)
    assert observation.agent.orientation is Orientation.F
    assert observation.agent.grid_object is state.agent.grid_object

    hidden_ids = set()
    n_hidden = 0
    for i in range(area.height):
        for j in range(area.width):
            obj = observation.grid[i, j]
            if visible[i, j] and cells[i][j] is not None:
                # visible cells show the very world object
                assert obj is state.grid[cells[i][j]], (i, j)
            else:
                assert type(obj) is Hidden, (i, j, obj)
                hidden_ids.add(id(obj))
                n_hidden += 1
    # every hidden cell has its own Hidden instance
    assert len(hidden_ids) == n_hidden
    return cells


def check_observations():
    rng = np.random.default_rng(4242)
    obs_po = of.observation_function_registry['partially_occluded']
    obs_rt = of.observation_function_registry['raytracing']
    obs_st = of.observation_function_registry['stochastic_raytracing']
    obs_ft = of.observation_function_registry['fully_transparent']
    assert obs_po is of.partially_occluded and obs_rt is of.raytracing

    shapes = [(3, 3), (4, 5), (6, 4), (5, 7)]
    for shape_index, (height, width) in enumerate(shapes):
        for trial in range(3):
            grid = random_grid(rng, height, width)
            held = [None, Key(Color.RED)][trial % 2]
            for y, x in itertools.product(range(height), range(width)):
                for orientation in (
                    Orientation.F,
                    Orientation.R,
                    Orientation.B,
                    Orientation.L,
                ):
                    state = State(grid, Agent(Position(y, x), orientation, held))
                    snapshot = [list(row) for row in grid.objects]

                    for name, fn, areas in (
                        ('po', obs_po, AREAS_PO),
                        ('rt', obs_rt, AREAS_RT),
                    ):
                        for area in areas:
                            check_one(state, area, name, fn, rng)

                    # the state is never modified
                    assert all(
                        a is b
                        for ra, rb in zip(snapshot, grid.objects)
                        for a, b in zip(ra, rb)
                    )
                    assert state.agent.position == Position(y, x)
                    assert state.agent.orientation is orientation

                    # stochastic variant + fully transparent, one area each
                    area = AREAS_RT[(y + x + trial) % len(AREAS_RT)]
                    if area.xmin <= 0 <= area.xmax:
                        check_stochastic_observation(state, area, obs_st, rng)
                        o = obs_ft(state, area=area)
                        expected_observation_check(
                            state,
                            area,
                            o,
                            np.ones((area.height, area.width), dtype=bool),
                        )

    # unsupported areas for the partially occluded view
    state = State(
        random_grid(rng, 4, 4), Agent(Position(2, 2), Orientation.R, None)
    )
    for area in (Area((-2, 1), (-1, 1)), Area((-1, 2), (0, 0))):
        try:
            obs_po(state, area=area)
        except NotImplementedError:
            pass
        else:
            raise AssertionError('expected NotImplementedError')
    # ray tracing with the agent beside the view
    try:
        obs_rt(state, area=Area((-2, 0), (1, 3)))
    except ValueError:
        pass
    else:
        raise AssertionError('expected ValueError')

    # from_visibility validates the shape returned by the visibility function
    def bad_visibility(grid, position, *, rng=None):
        return np.ones((2, 5), dtype=bool)

    try:
        of.from_visibility(
            state, area=Area((-2, 0), (-1, 1)), visibility_function=bad_visibility
        )
    except ValueError as error:
        assert str(error) == (
            'incorrect visibility shape ((2, 5)), should be (3, 3)'
        ), str(error)
    else:
        raise AssertionError('expected ValueError')

    # from_visibility hands (view grid, view position, rng) to the function
    calls = []
    marker = np.random.default_rng(0)

    def spy_visibility(grid, position, *, rng=None):
        calls.append((grid.shape.as_tuple, position, rng))
        v = np.zeros((grid.shape.height, grid.shape.width), dtype=bool)
        v[0, 0] = True
        return v

    area = Area((-3, 0), (-2, 1))
    o = of.from_visibility(
        state, area=area, visibility_function=spy_visibility, rng=marker
    )
    assert calls == [((4, 4), Position(3, 2), marker)] and calls[0][2] is marker
    visible = np.zeros((4, 4), dtype=bool)
    visible[0, 0] = True
    expected_observation_check(state, area, o, visible)
    f = of.factory(
        'from_visibility', area=area, visibility_function=spy_visibility
    )
    assert same_observation(f(state, rng=marker), o)


def check_one(state, area, name, fn, rng):
    agent_in_view = area.xmin <= 0 <= area.xmax and area.ymin <= 0 <= area.ymax
    cells = ref_view(state, area)
    opaque = view_opacity(state, cells)
    y0, x0 = -area.ymin, -area.xmin

    if name == 'rt' and not agent_in_view:
        return
    if name == 'po':
        if agent_in_view:
            visible = ref_partially_occluded(opaque, y0, x0)
        else:
            visible = np.zeros((area.height, area.width), dtype=bool)
    else:
        visible = ref_raytracing(opaque, y0, x0)

    observation = fn(state, area=area)
    expected_observation_check(state, area, observation, visible)
    if agent_in_view:
        assert visible[y0, x0]
        assert observation.grid[y0, x0] is state.grid[state.agent.position]
        check_chain(visible, opaque, y0, x0)
    count('observations ' + name)

    # the registered factory yields the same thing, with and without an rng
    g = np.random.default_rng(3)
    before = g.bit_generator.state
    again = of.factory(
        {'po': 'partially_occluded', 'rt': 'raytracing'}[name], area=area
    )(state, rng=g)
    assert g.bit_generator.state == before
    assert same_observation(again, observation)
    expected_observation_check(state, area, again, visible)

    # ---- non-interference -------------------------------------------------
    shown = {
        cells[i][j]
        for i in range(area.height)
        for j in range(area.width)
        if visible[i, j] and cells[i][j] is not None
    }
    unseen = [
        (wy, wx)
        for wy in range(state.grid.shape.height)
        for wx in range(state.grid.shape.width)
        if (wy, wx) not in shown
    ]
    if not unseen:
        return

    # (a) replace all hidden / out-of-view cells at once
    other = copy_state(state)
    for cell in unseen:
        other.grid[cell] = REPLACEMENTS[rng.integers(len(REPLACEMENTS))]()
    assert same_observation(fn(other, area=area), observation)
    count('non-interference (all cells)')

    # (b) one cell at a time, every replacement object (sub-sampled states)
    if rng.random() < 0.12:
        for cell in unseen:
            for maker in REPLACEMENTS:
                other = copy_state(state)
                other.grid[cell] = maker()
                changed = fn(other, area=area)
                assert same_observation(changed, observation), (cell, maker)
                count('non-interference (single cell)')

    # (c) monotonicity at the observation level: opening a visible opaque
    # world cell never hides a cell that was visible
    if rng.random() < 0.3:
        for i in range(area.height):
            for j in range(area.width):
                if visible[i, j] and opaque[i, j] and cells[i][j] is not None:
                    other = copy_state(state)
                    other.grid[cells[i][j]] = Floor()
                    after = fn(other, area=area)
                    for a in range(area.height):
                        for b in range(area.width):
                            if visible[a, b] and cells[a][b] is not None:
                                assert type(after.grid[a, b]) is not Hidden
                    count('monotone observations')


def check_stochastic_observation(state, area, fn, rng):
    cells = ref_view(state, area)
    opaque = view_opacity(state, cells)
    y0, x0 = -area.ymin, -area.xmin
    num, den = ref_counts(opaque, y0, x0)
    for seed in (0, 1, 2, int(rng.integers(1 << 30))):
        g_lib = np.random.default_rng(seed)
        g_ref = np.random.default_rng(seed)
        observation = fn(state, area=area, rng=g_lib)
        visible = ref_stochastic(opaque, y0, x0, g_ref)
        assert g_lib.bit_generator.state == g_ref.bit_generator.state
        expected_observation_check(state, area, observation, visible)
        assert not (visible & ~(num >= 1)).any()
        assert (visible | ~((num == den) & (den > 0))).all()
        count('stochastic observations')


def main():
    check_visibility_exhaustive()
    check_visibility_random()
    check_stochastic()
    check_observations()
    for name in sorted(COUNTS):
        print(f'{name}: {COUNTS[name]}')
    print('demo OK')


if __name__ == '__main__':
    main()
