"""Demo for change A (gym adapter: one helper derives every advertised space).

Run from the worktree root:  /venv/bin/python _seed/A/demo.py

Checks property C20 (the gym adapter is a faithful view of the wrapped
environment) on every shipped configuration, wrapped directly and -- when the
gym registry is usable -- through the registered ids, and on hand-made awkward
configurations.  Every result of the adapter is compared with a reference that
drives a *twin* inner environment (same configuration, same seed) through the
inner API only, and the advertised spaces are compared with a reference
conversion embedded in this file.  Exits 0 on the pristine tree and with the
patch applied.
"""
import copy
import os
import random
import sys
import types
import warnings

warnings.filterwarnings('ignore')
sys.path.insert(0, os.getcwd())

# --------------------------------------------------------------------------
# a loader for the YAML subset used by the shipped configurations (PyYAML may
# be missing);  block maps, block lists, flow lists, plain scalars
# --------------------------------------------------------------------------


def _scalar(token):
    token = token.strip()
    if token in ('True', 'true'):
        return True
    if token in ('False', 'false'):
        return False
    for cast in (int, float):
        try:
            return cast(token)
        except ValueError:
            pass
    return token


def _flow(text):
    pos = 0

    def skip():
        nonlocal pos
        while pos < len(text) and text[pos] == ' ':
            pos += 1

    def parse():
        nonlocal pos
        skip()
        if text[pos] == '[':
            pos += 1
            items = []
            while True:
                skip()
                if text[pos] == ']':
                    pos += 1
                    return items
                items.append(parse())
                skip()
                if text[pos] == ',':
                    pos += 1
        start = pos
        while text[pos] not in ',]':
            pos += 1
        return _scalar(text[start:pos])

    value = parse()
    skip()
    assert pos == len(text), text
    return value


def _value(text):
    text = text.strip()
    return _flow(text) if text.startswith('[') else _scalar(text)


def mini_yaml_load(text):
    lines = []
    for raw in text.splitlines():
        raw = raw.split(' #')[0].rstrip()
        if not raw.strip() or raw.lstrip().startswith('#'):
            continue
        lines.append([len(raw) - len(raw.lstrip()), raw.strip()])

    def parse_block(i):
        indent, content = lines[i]
        if content.startswith('- '):
            return parse_list(i, indent)
        return parse_map(i, indent)

    def parse_list(i, indent):
        items = []
        while (
            i < len(lines)
            and lines[i][0] == indent
            and lines[i][1].startswith('- ')
        ):
            rest = lines[i][1][2:].strip()
            if ':' in rest and not rest.startswith('['):
                lines[i] = [indent + 2, rest]
                value, i = parse_map(i, indent + 2)
                items.append(value)
            else:
                items.append(_value(rest))
                i += 1
        return items, i

    def parse_map(i, indent):
        data = {}
        while (
            i < len(lines)
            and lines[i][0] == indent
            and not lines[i][1].startswith('- ')
        ):
            key, _, rest = lines[i][1].partition(':')
            if rest.strip():
                data[key.strip()] = _value(rest)
                i += 1
            else:
                data[key.strip()], i = parse_block(i + 1)
        return data, i

    value, i = parse_block(0)
    assert i == len(lines), (i, len(lines))
    return value


def _install_yaml_shim_if_needed():
    try:
        import yaml  # noqa

        if hasattr(yaml, 'safe_load'):
            return
    except ImportError:
        pass
    shim = types.ModuleType('yaml')
    shim.safe_load = lambda f: mini_yaml_load(
        f.read() if hasattr(f, 'read') else f
    )
    sys.modules['yaml'] = shim


_install_yaml_shim_if_needed()

import gym  # noqa: E402
import numpy as np  # noqa: E402

import gym_gridverse  # noqa: E402

assert os.path.realpath(os.path.dirname(gym_gridverse.__file__)).startswith(
    os.path.realpath(os.getcwd())
), 'run from the worktree root'

from gym_gridverse.action import Action  # noqa: E402
from gym_gridverse.envs.yaml.factory import factory_env_from_data  # noqa: E402
from gym_gridverse.gym import (  # noqa: E402
    STRING_TO_YAML_FILE,
    GymEnvironment,
    GymStateWrapper,
    from_factory,
    outer_env_factory,
    outer_space_to_gym_space,
)
from gym_gridverse.outer_env import OuterEnv  # noqa: E402
from gym_gridverse.representations.observation_representations import (  # noqa: E402
    make_observation_representation,
)
from gym_gridverse.representations.spaces import SpaceType  # noqa: E402
from gym_gridverse.representations.state_representations import (  # noqa: E402
    make_state_representation,
)
from gym_gridverse.spaces import ActionSpace  # noqa: E402

NAMES = ['default', 'no-overlap', 'compact']
CHECKS = 0
TALLY = {}


def ok(condition, *message):
    global CHECKS
    CHECKS += 1
    if not condition:
        raise AssertionError(' '.join(str(m) for m in message))


# --------------------------------------------------------------------------
# reference implementations
# --------------------------------------------------------------------------


def reference_gym_space(space):
    """Reference conversion Dict[str, Space] -> description of a gym Dict space.

    list of (key, low, high, dtype), in key order.
    """
    reference = []
    for key, value in space.items():
        if value.space_type is SpaceType.CONTINUOUS:
            dtype = np.dtype(float)
        else:
            ok(
                value.space_type
                in (SpaceType.CATEGORICAL, SpaceType.DISCRETE),
                'unknown space type',
            )
            dtype = np.dtype(int)
        reference.append((key, value.lower_bound, value.upper_bound, dtype))
    return reference


def check_gym_space(gym_space, reference, what):
    ok(isinstance(gym_space, gym.spaces.Dict), what, 'not a gym Dict space')
    # NOTE gym sorts the keys of a plain dict;  the key *set* is what matters
    ok(
        sorted(gym_space.spaces.keys()) == sorted(key for key, *_ in reference),
        what,
        'keys',
        list(gym_space.spaces.keys()),
    )
    for key, low, high, dtype in reference:
        box = gym_space.spaces[key]
        ok(isinstance(box, gym.spaces.Box), what, key, 'not a Box')
        ok(box.dtype == dtype, what, key, 'dtype', box.dtype, dtype)
        ok(box.shape == low.shape, what, key, 'shape', box.shape, low.shape)
        ok(np.array_equal(box.low, low), what, key, 'low')
        ok(np.array_equal(box.high, high), what, key, 'high')


def same_arrays(result, expected, what):
    ok(isinstance(result, dict), what, 'not a dict')
    ok(list(result.keys()) == list(expected.keys()), what, 'keys')
    for key in expected:
        ok(result[key].dtype == expected[key].dtype, what, key, 'dtype')
        ok(result[key].shape == expected[key].shape, what, key, 'shape')
        ok(np.array_equal(result[key], expected[key]), what, key, 'values')


class Twin:
    """Reference:  the inner environment driven through the inner API only."""

    def __init__(self, inner, observation_name='default', state_name=None):
        self.inner = inner
        self.set_observation(observation_name)
        self.set_state(state_name)

    def set_observation(self, name):
        self.observation_representation = (
            None
            if name is None
            else make_observation_representation(
                name, self.inner.observation_space
            )
        )

    def set_state(self, name):
        self.state_representation = (
            None
            if name is None
            else make_state_representation(name, self.inner.state_space)
        )

    def seed(self, seed):
        self.inner.set_seed(seed)

    def observation(self):
        return self.observation_representation.convert(self.inner.observation)

    def state(self):
        return self.state_representation.convert(self.inner.state)

    def reset(self):
        self.inner.reset()
        return self.observation()

    def step(self, index):
        action = list(self.inner.action_space.actions)[int(index)]
        reward, done = self.inner.step(action)
        return self.observation(), reward, done


# --------------------------------------------------------------------------
# configurations
# --------------------------------------------------------------------------

REGISTERED_DIR = os.path.join(
    os.path.dirname(gym_gridverse.__file__), 'registered_envs'
)


def shipped_data(env_id):
    with open(os.path.join(REGISTERED_DIR, STRING_TO_YAML_FILE[env_id])) as f:
        return mini_yaml_load(f.read())


def awkward_configurations():
    """hand-made configurations:  non-square grids, asymmetric view areas,
    custom / reordered / single-action action spaces, colour NONE only"""

    def base(shape, area, **extra):
        data = {
            'state_space': {
                'objects': ['Wall', 'Floor', 'Exit'],
                'colors': ['NONE'],
            },
            'observation_space': {
                'objects': ['Wall', 'Floor', 'Exit'],
                'colors': ['NONE'],
            },
            'reset_function': {
                'name': 'empty',
                'shape': list(shape),
                'random_agent': True,
                'random_exit': True,
            },
            'transition_functions': [
                {'name': 'move_agent'},
                {'name': 'turn_agent'},
            ],
            'reward_functions': [
                {'name': 'reach_exit', 'reward_on': 5.0, 'reward_off': 0.0},
                {'name': 'bump_into_wall', 'reward': -1.0},
                {'name': 'living_reward', 'reward': -0.05},
            ],
            'observation_function': {
                'name': 'partially_occluded',
                'area': [list(area[0]), list(area[1])],
            },
            'terminating_function': {'name': 'reach_exit'},
        }
        data.update(extra)
        return data

    return {
        # non-square, tiny, every position is a border/corner neighbour
        'wide-4x7': base((4, 7), ((-6, 0), (-3, 3))),
        'tall-9x4': base((9, 4), ((-2, 0), (-1, 1))),
        # asymmetric view areas (the agent is not at the bottom centre)
        # (partially_occluded needs the agent on the bottom row of the view)
        'asym-view-side': base((5, 6), ((-3, 0), (-1, 3))),
        'asym-view': base(
            (5, 6),
            ((-2, 1), (-1, 3)),
            observation_function={
                'name': 'raytracing',
                'area': [[-2, 1], [-1, 3]],
            },
        ),
        # stochastic observations:  the adapter must consume the random
        # stream exactly like the inner environment does
        'asym-view-behind-stochastic': base(
            (6, 5),
            ((-1, 3), (-4, 0)),
            observation_function={
                'name': 'stochastic_raytracing',
                'area': [[-1, 3], [-4, 0]],
            },
        ),
        # 1x1 view:  the agent only sees its own cell
        'unit-view': base((4, 4), ((0, 0), (0, 0))),
        # reordered, partial and single-action action spaces
        'reordered-actions': base(
            (5, 5),
            ((-3, 0), (-2, 2)),
            action_space=[
                'TURN_RIGHT',
                'MOVE_BACKWARD',
                'TURN_LEFT',
                'MOVE_FORWARD',
            ],
        ),
        'single-action': base(
            (4, 5), ((-3, 0), (-1, 1)), action_space=['MOVE_FORWARD']
        ),
        # transparent observation, terminating on bumps too
        'transparent': base(
            (6, 4),
            ((-4, 0), (-2, 2)),
            observation_function={
                'name': 'fully_transparent',
                'area': [[-4, 0], [-2, 2]],
            },
            terminating_function={
                'name': 'reduce_any',
                'terminating_functions': [
                    {'name': 'reach_exit'},
                    {'name': 'bump_into_wall'},
                ],
            },
        ),
    }


def make_direct(data, observation_name='default', state_name=None):
    """mirror of gym_gridverse.gym.outer_env_factory on configuration data"""
    inner = factory_env_from_data(copy.deepcopy(data))
    outer = OuterEnv(
        inner,
        state_representation=(
            None
            if state_name is None
            else make_state_representation(state_name, inner.state_space)
        ),
        observation_representation=(
            None
            if observation_name is None
            else make_observation_representation(
                observation_name, inner.observation_space
            )
        ),
    )
    return GymEnvironment(outer)


def make_twin(data, observation_name='default', state_name=None):
    return Twin(
        factory_env_from_data(copy.deepcopy(data)), observation_name, state_name
    )


def try_make_registered(env_id):
    """gym.make on the registered id;  None if this gym cannot build it."""
    try:
        try:
            env = gym.make(env_id, disable_env_checker=True)
        except TypeError:
            env = gym.make(env_id)
    except Exception as error:  # registry / yaml unusable in this venv
        return None, f'{type(error).__name__}: {error}'
    return env, None


# --------------------------------------------------------------------------
# the checks
# --------------------------------------------------------------------------


def check_advertised(env, twin, what):
    """action / observation / state spaces advertised by the adapter"""
    env = env.unwrapped
    actions = list(twin.inner.action_space.actions)
    ok(isinstance(env.action_space, gym.spaces.Discrete), what, 'action space')
    ok(env.action_space.n == len(actions), what, 'number of actions')
    ok(getattr(env.action_space, 'start', 0) == 0, what, 'action start')

    if twin.observation_representation is None:
        ok(env.observation_space is None, what, 'observation space not None')
    else:
        check_gym_space(
            env.observation_space,
            reference_gym_space(twin.observation_representation.space),
            what + ' observation_space',
        )
    if twin.state_representation is None:
        ok(env.state_space is None, what, 'state space not None')
    else:
        check_gym_space(
            env.state_space,
            reference_gym_space(twin.state_representation.space),
            what + ' state_space',
        )


def run_episode_pair(env, twin, seed, indices, what, wrapper=None):
    """same seed, same action indices:  the adapter and the twin must agree on
    everything;  results must lie in the advertised spaces"""
    base = env.unwrapped
    base.outer_env.inner_env.set_seed(seed)
    twin.seed(seed)
    front = env if wrapper is None else wrapper

    def check_reset():
        result = front.reset()
        expected = twin.reset()
        if wrapper is None:
            same_arrays(result, expected, what + ' reset')
            ok(base.observation_space.contains(result), what, 'reset in space')
            same_arrays(base.observation, expected, what + ' .observation')
        else:
            same_arrays(result, twin.state(), what + ' wrapper reset')
            ok(
                wrapper.observation_space.contains(result),
                what,
                'wrapper reset in space',
            )
            same_arrays(base.observation, expected, what + ' .observation')
        if twin.state_representation is not None:
            same_arrays(base.state, twin.state(), what + ' .state')

    check_reset()
    for t, index in enumerate(indices):
        ok(base.action_space.contains(index), what, 'index in action space')
        result = front.step(index)
        ok(isinstance(result, tuple) and len(result) == 4, what, 'step tuple')
        observation, reward, done, info = result
        expected_observation, expected_reward, expected_done = twin.step(index)
        # the i-th action of the action space has been executed:  the inner
        # states agree (twin executed actions[index] by construction)
        ok(
            base.outer_env.inner_env.state == twin.inner.state,
            what,
            f'inner state after step {t}',
        )
        ok(reward == expected_reward, what, f'reward at step {t}')
        ok(type(reward) is type(expected_reward), what, 'reward type')
        ok(done is expected_done or done == expected_done, what, 'done')
        ok(isinstance(info, dict), what, 'info type')
        if wrapper is None:
            ok(info == {}, what, 'info must be empty')
            same_arrays(observation, expected_observation, what + ' step')
            ok(
                base.observation_space.contains(observation),
                what,
                'step observation in space',
            )
        else:
            ok(list(info.keys()) == ['observation'], what, 'wrapper info keys')
            same_arrays(
                info['observation'], expected_observation, what + ' info obs'
            )
            ok(
                base.observation_space.contains(info['observation']),
                what,
                'info observation in space',
            )
            same_arrays(observation, twin.state(), what + ' wrapper step')
            ok(
                wrapper.observation_space.contains(observation),
                what,
                'wrapper step in space',
            )
            ok(
                base.state_space.contains(observation),
                what,
                'state in state space',
            )
        if done:
            check_reset()


def index_sequence(rng, n, length):
    """action indices:  every index at least once, python and numpy ints"""
    indices = list(range(n)) + [rng.randrange(n) for _ in range(length)]
    rng.shuffle(indices)
    return [
        index if k % 3 else np.int64(index) for k, index in enumerate(indices)
    ]


def check_switching(env, twin, what):
    """switching representations updates the advertised spaces consistently,
    leaves the other space alone, and failed switches change nothing"""
    base = env.unwrapped
    for state_name in NAMES + ['default']:
        observation_space_before = base.observation_space
        base.set_state_representation(state_name)
        twin.set_state(state_name)
        ok(
            base.observation_space is observation_space_before,
            what,
            'observation space touched by a state switch',
        )
        ok(
            type(base.outer_env.state_representation)
            is type(twin.state_representation),
            what,
            'state representation installed',
        )
        check_advertised(base, twin, f'{what} state->{state_name}')
        for observation_name in NAMES:
            state_space_before = base.state_space
            base.set_observation_representation(observation_name)
            twin.set_observation(observation_name)
            ok(
                base.state_space is state_space_before,
                what,
                'state space touched by an observation switch',
            )
            check_advertised(
                base, twin, f'{what} {state_name}/{observation_name}'
            )
            # consistency:  the advertised space is that of the installed one
            check_gym_space(
                base.observation_space,
                reference_gym_space(
                    base.outer_env.observation_representation.space
                ),
                what + ' installed observation representation',
            )
            check_gym_space(
                base.state_space,
                reference_gym_space(base.outer_env.state_representation.space),
                what + ' installed state representation',
            )

    # failed switches:  ValueError, nothing changes
    for bad in ['', 'Default', 'compact ', 'no_overlap', None]:
        before = (
            base.state_space,
            base.observation_space,
            base.outer_env.state_representation,
            base.outer_env.observation_representation,
        )
        for setter in (
            base.set_state_representation,
            base.set_observation_representation,
        ):
            try:
                setter(bad)
            except ValueError:
                pass
            else:
                ok(False, what, f'switch to {bad!r} did not raise ValueError')
        after = (
            base.state_space,
            base.observation_space,
            base.outer_env.state_representation,
            base.outer_env.observation_representation,
        )
        ok(
            all(a is b for a, b in zip(before, after)),
            what,
            'failed switch changed something',
        )


def check_configuration(label, data, env, seeds, length, rng, pairs=None):
    """the whole property on one environment (direct or registered)"""
    what = label
    TALLY[label.split()[0]] = TALLY.get(label.split()[0], 0) + 1
    twin = make_twin(data)
    check_advertised(env, twin, what)
    base = env.unwrapped
    ok(base.state_space is None, what, 'fresh adapter has no state space')
    try:
        base.state
    except RuntimeError:
        pass
    else:
        ok(False, what, '.state without representation must raise')

    n = twin.inner.action_space.num_actions
    for seed in seeds:
        run_episode_pair(
            env, twin, seed, index_sequence(rng, n, length), f'{what} s{seed}'
        )

    # re-seeding reproduces the run (same adapter, repeated calls)
    indices = index_sequence(rng, n, length)
    runs = []
    for _ in range(2):
        base.outer_env.inner_env.set_seed(seeds[0])
        trace = [env.reset()]
        for index in indices:
            observation, reward, done, info = env.step(index)
            trace.append((observation, reward, done))
            if done:
                trace.append(env.reset())
        runs.append(trace)
    ok(len(runs[0]) == len(runs[1]), what, 're-seeded run length')
    for a, b in zip(*runs):
        if isinstance(a, tuple):
            same_arrays(a[0], b[0], what + ' re-seeded step')
            ok(a[1:] == b[1:], what, 're-seeded reward/done')
        else:
            same_arrays(a, b, what + ' re-seeded reset')

    # representation switching, then the wrapper over every pair of names
    check_switching(env, twin, what)
    if pairs is None:
        pairs = [(s, o) for s in NAMES for o in NAMES]
    for state_name, observation_name in pairs:
        if True:
            base.set_state_representation(state_name)
            base.set_observation_representation(observation_name)
            twin.set_state(state_name)
            twin.set_observation(observation_name)
            wrapper = GymStateWrapper(env)
            ok(
                wrapper.observation_space is base.state_space,
                what,
                'wrapper advertises the state space',
            )
            ok(
                wrapper.action_space is base.action_space
                or wrapper.action_space == base.action_space,
                what,
                'wrapper action space',
            )
            same_seed = seeds[-1]
            run_episode_pair(
                env,
                twin,
                same_seed,
                index_sequence(rng, n, max(4, length // 3)),
                f'{what} wrapper {state_name}/{observation_name}',
                wrapper=wrapper,
            )
            # and without the wrapper, under the switched representation
            run_episode_pair(
                env,
                twin,
                same_seed + 1,
                index_sequence(rng, n, max(4, length // 3)),
                f'{what} switched {state_name}/{observation_name}',
            )


def check_constructor_variants(data, label):
    """representations given at construction:  every combination incl. none"""
    for state_name in [None] + NAMES:
        for observation_name in [None] + NAMES:
            env = make_direct(data, observation_name, state_name)
            twin = make_twin(data, observation_name, state_name)
            what = f'{label} ctor {state_name}/{observation_name}'
            check_advertised(env, twin, what)
            env.outer_env.inner_env.set_seed(3)
            twin.seed(3)
            if observation_name is None:
                # no observation representation:  reset runs the inner reset
                # and then fails while converting the observation
                for call in (env.reset, lambda: env.step(0)):
                    try:
                        call()
                    except RuntimeError:
                        pass
                    else:
                        ok(False, what, 'RuntimeError expected')
                twin.inner.reset()
                twin.inner.step(list(twin.inner.action_space.actions)[0])
                ok(
                    env.outer_env.inner_env.state == twin.inner.state,
                    what,
                    'inner state after failing reset/step',
                )
                # a later switch repairs the adapter
                env.set_observation_representation('default')
                twin.set_observation('default')
                check_advertised(env, twin, what + ' repaired')
                same_arrays(env.observation, twin.observation(), what)
            else:
                same_arrays(env.reset(), twin.reset(), what + ' reset')
                observation, reward, done, info = env.step(0)
                expected = twin.step(0)
                same_arrays(observation, expected[0], what + ' step')
                ok((reward, done) == expected[1:], what, 'reward/done')
                ok(info == {}, what, 'info')
            if state_name is not None:
                same_arrays(env.state, twin.state(), what + ' state')
                ok(env.state_space.contains(env.state), what, 'state in space')


def check_hard_coded():
    """hard-coded expectations on GV-Empty-4x4-v0 with a fixed initial agent"""
    data = shipped_data('GV-Empty-4x4-v0')
    data['reset_function']['random_agent'] = False
    env = make_direct(data)
    env.outer_env.inner_env.set_seed(0)

    ok(env.action_space.n == 6, 'Empty-4x4 number of actions')
    ok(
        list(env.outer_env.action_space.actions)
        == [
            Action.MOVE_FORWARD,
            Action.MOVE_BACKWARD,
            Action.MOVE_LEFT,
            Action.MOVE_RIGHT,
            Action.TURN_LEFT,
            Action.TURN_RIGHT,
        ],
        'Empty-4x4 actions',
    )
    space = env.observation_space
    ok(sorted(space.spaces) == ['agent_id_grid', 'grid', 'item'], 'keys')
    ok(space['grid'].shape == (7, 7, 3), 'grid shape')
    ok(space['agent_id_grid'].shape == (7, 7), 'agent_id_grid shape')
    ok(space['item'].shape == (3,), 'item shape')
    # types Wall Floor Exit + Hidden(7?) ...:  bounds come from the registry
    ok(np.array_equal(space['item'].low, [0, 0, 0]), 'item low')
    ok(np.array_equal(space['agent_id_grid'].high, np.ones((7, 7))), 'id high')

    observation = env.reset()
    agent_id = np.zeros((7, 7), int)
    agent_id[6, 3] = 1
    ok(np.array_equal(observation['agent_id_grid'], agent_id), 'agent id grid')
    # agent at (1, 1) facing right in a 4x4 room with the exit at (2, 2):
    # in front of the agent (up in the view): floor (1,2), wall (1,3)
    from gym_gridverse.grid_object import Exit, Floor, Hidden, Wall

    grid = observation['grid'][..., 0]
    ok(grid[6, 3] == Floor.type_index(), 'own cell')
    ok(grid[5, 3] == Floor.type_index(), 'cell in front')
    ok(grid[4, 3] == Wall.type_index(), 'wall in front')
    ok(grid[3, 3] == Hidden.type_index(), 'behind the wall')
    ok(grid[6, 2] == Wall.type_index(), 'wall on the left (north)')
    ok(grid[6, 4] == Floor.type_index(), 'floor on the right (south)')
    ok(grid[5, 4] == Exit.type_index(), 'exit front-right')

    # index 5 is TURN_RIGHT, index 0 is MOVE_FORWARD:  turn right (face
    # south), forward once -> (2, 1);  turn left (index 4) -> face east,
    # forward -> (2, 2) the exit:  reward 5 - 0.05 + 0.2, done
    trajectory = [(5, False), (0, False), (4, False), (0, True)]
    for index, expected_done in trajectory:
        observation, reward, done, info = env.step(index)
        ok(done is expected_done, 'hard-coded done', index)
        ok(info == {}, 'hard-coded info')
    ok(abs(reward - (5.0 + 0.2 - 0.05)) < 1e-12, 'hard-coded reward', reward)
    ok(
        observation['grid'][6, 3, 0] == Exit.type_index(),
        'agent stands on the exit',
    )
    state = env.outer_env.inner_env.state
    ok(state.agent.position.yx == (2, 2), 'agent position', state.agent)


def check_interleaved(rng):
    """several adapters alive in one process, stepped in lock-step"""
    ids = ['GV-Keydoor-5x5-v0', 'GV-DynamicObstacles-7x7-v0', 'GV-Teleport-5x5-v0']
    datas = [shipped_data(env_id) for env_id in ids]
    envs = [make_direct(data) for data in datas] + [
        make_direct(datas[0], 'compact', 'no-overlap')
    ]
    twins = [make_twin(data) for data in datas] + [
        make_twin(datas[0], 'compact', 'no-overlap')
    ]
    for k, (env, twin) in enumerate(zip(envs, twins)):
        env.outer_env.inner_env.set_seed(100 + k % 3)
        twin.seed(100 + k % 3)
        same_arrays(env.reset(), twin.reset(), f'interleaved reset {k}')
    for t in range(60):
        for k, (env, twin) in enumerate(zip(envs, twins)):
            index = rng.randrange(env.action_space.n)
            observation, reward, done, info = env.step(index)
            expected = twin.step(index)
            same_arrays(observation, expected[0], f'interleaved {k} step {t}')
            ok((reward, done) == expected[1:], 'interleaved reward/done')
            ok(env.observation_space.contains(observation), 'interleaved space')
            if done:
                same_arrays(env.reset(), twin.reset(), 'interleaved re-reset')
    # adapters 0 and 3 share configuration and seed:  same inner states
    ok(
        envs[0].outer_env.inner_env.state != None,  # noqa: E711
        'interleaved state',
    )


def main():
    rng = random.Random(20)
    check_hard_coded()

    registered_skipped = None
    for env_id in STRING_TO_YAML_FILE:
        data = shipped_data(env_id)
        heavy = any(tag in env_id for tag in ('13x13', '10x10', '9x9'))
        seeds = [1, 1337] if heavy else [1, 10, 0xDEADBEEF]
        length = 12 if heavy else 30
        k = list(STRING_TO_YAML_FILE).index(env_id)
        some_pairs = [
            (NAMES[k % 3], NAMES[(k + 1) % 3]),
            (NAMES[(k + 2) % 3], NAMES[(k + 2) % 3]),
        ]
        check_configuration(
            f'direct {env_id}',
            data,
            make_direct(data),
            seeds,
            length,
            rng,
            pairs=some_pairs if heavy else None,
        )
        # from_factory + outer_env_factory (what the registry calls)
        path = os.path.join(REGISTERED_DIR, STRING_TO_YAML_FILE[env_id])
        if 'yaml' in sys.modules and hasattr(sys.modules['yaml'], 'safe_load'):
            env = from_factory(lambda: outer_env_factory(path))
            ok(isinstance(env, GymEnvironment), env_id, 'from_factory type')
            check_configuration(
                f'factory {env_id}',
                data,
                env,
                seeds[:1],
                length // 2,
                rng,
                pairs=some_pairs[:1],
            )
        env, error = try_make_registered(env_id)
        if env is None:
            registered_skipped = error
        else:
            ok(
                isinstance(env.unwrapped, GymEnvironment),
                env_id,
                'registered id builds a GymEnvironment',
            )
            check_configuration(
                f'registered {env_id}',
                data,
                env,
                seeds[:1],
                length // 2,
                rng,
                pairs=some_pairs[1:],
            )

    for label, data in awkward_configurations().items():
        check_configuration(
            f'awkward {label}', data, make_direct(data), [0, 7, 2**31], 40, rng
        )
        check_constructor_variants(data, f'awkward {label}')
    check_constructor_variants(shipped_data('GV-Keydoor-7x7-v0'), 'keydoor')
    check_constructor_variants(shipped_data('GV-Memory-5x5-v0'), 'memory')
    check_interleaved(rng)

    if registered_skipped is not None:
        print('note: registered ids not usable here:', registered_skipped)
    print(f'OK ({CHECKS} checks; environments checked: {TALLY})')


if __name__ == '__main__':
    main()
