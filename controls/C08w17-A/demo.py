#!/usr/bin/env python
"""Demo for change A (geometry operators: rotation table, explicit __rmul__).

Runs from the worktree root: `/venv/bin/python _seed/A/demo.py`.  Exits 0 both
on the pristine tree and with the patch applied.  Everything is compared with
reference implementations / hard-coded expectations embedded in this file.
"""
import itertools as itt
import operator
import os
import sys
import warnings

warnings.filterwarnings('ignore')
sys.path.insert(0, os.getcwd())  # the worktree root, not the script directory

import numpy.random as rnd  # noqa: E402

from gym_gridverse.action import Action  # noqa: E402
from gym_gridverse.agent import Agent  # noqa: E402
from gym_gridverse.envs import observation_functions as obs_fs  # noqa: E402
from gym_gridverse.envs import reset_functions as reset_fs  # noqa: E402
from gym_gridverse.envs import reward_functions as reward_fs  # noqa: E402
from gym_gridverse.envs import terminating_functions as term_fs  # noqa: E402
from gym_gridverse.envs import transition_functions as trans_fs  # noqa: E402
from gym_gridverse.envs.gridworld import GridWorld  # noqa: E402
from gym_gridverse.envs.utils import get_next_position  # noqa: E402
from gym_gridverse.geometry import (  # noqa: E402
    Area,
    Orientation,
    Position,
    Shape,
    Transform,
)
from gym_gridverse.grid import Grid  # noqa: E402
from gym_gridverse.grid_object import (  # noqa: E402
    Beacon,
    Box,
    Color,
    Door,
    Exit,
    Floor,
    Hidden,
    Key,
    MovingObstacle,
    NoneGridObject,
    Telepod,
    Wall,
)
from gym_gridverse.spaces import (  # noqa: E402
    ActionSpace,
    ObservationSpace,
    StateSpace,
)
from gym_gridverse.state import State  # noqa: E402

CHECKS = 0


def check(condition, *info):
    global CHECKS
    CHECKS += 1
    if not condition:
        print('FAILED:', *info)
        sys.exit(1)


F, R, B, L = Orientation.F, Orientation.R, Orientation.B, Orientation.L
ORIENTATIONS = [F, R, B, L]  # clockwise, starting north
check(list(Orientation) == [F, B, L, R], 'members of Orientation')
check(F is Orientation.FORWARD and R is Orientation.RIGHT, 'aliases')
check(B is Orientation.BACKWARD and L is Orientation.LEFT, 'aliases')

# ---------------------------------------------------------------------------
# reference implementations (spelled out independently of the library)
# ---------------------------------------------------------------------------


def ref_rotate_yx(orientation, y, x):
    if orientation is F:
        return (y, x)
    if orientation is B:
        return (-y, -x)
    if orientation is R:
        return (x, -y)
    if orientation is L:
        return (-x, y)
    raise AssertionError


def ref_rotate_area(orientation, ys, xs):
    (ymin, ymax), (xmin, xmax) = ys, xs
    if orientation is F:
        return ((ymin, ymax), (xmin, xmax))
    if orientation is B:
        return ((-ymax, -ymin), (-xmax, -xmin))
    if orientation is R:
        return ((xmin, xmax), (-ymax, -ymin))
    if orientation is L:
        return ((-xmax, -xmin), (ymin, ymax))
    raise AssertionError


def ref_compose(o1, o2):
    """clockwise quarter turns add up"""
    return ORIENTATIONS[(ORIENTATIONS.index(o1) + ORIENTATIONS.index(o2)) % 4]


HEADING_DELTA = {F: (-1, 0), R: (0, 1), B: (1, 0), L: (0, -1)}
MOVE_QUARTERS = {
    Action.MOVE_FORWARD: 0,
    Action.MOVE_RIGHT: 1,
    Action.MOVE_BACKWARD: 2,
    Action.MOVE_LEFT: 3,
}
TURN_QUARTERS = {Action.TURN_RIGHT: 1, Action.TURN_LEFT: 3}


def ref_blocks(obj):
    """hard-coded table of what blocks movement"""
    if isinstance(obj, (Wall, Box)):
        return True
    if isinstance(obj, Door):
        return obj.state is not Door.Status.OPEN
    check(
        isinstance(
            obj,
            (
                Floor,
                Exit,
                Key,
                MovingObstacle,
                Telepod,
                Beacon,
                Hidden,
                NoneGridObject,
            ),
        ),
        'unknown object',
        obj,
    )
    return False


def ref_kinematics(grid, y, x, heading, action):
    """expected pose after move_agent + turn_agent (in any order)"""
    height, width = grid.shape.height, grid.shape.width
    if action in MOVE_QUARTERS:
        direction = ORIENTATIONS[
            (ORIENTATIONS.index(heading) + MOVE_QUARTERS[action]) % 4
        ]
        dy, dx = HEADING_DELTA[direction]
        ny, nx = y + dy, x + dx
        if 0 <= ny < height and 0 <= nx < width:
            if not ref_blocks(grid.objects[ny][nx]):
                return ny, nx, heading
        return y, x, heading
    if action in TURN_QUARTERS:
        heading = ORIENTATIONS[
            (ORIENTATIONS.index(heading) + TURN_QUARTERS[action]) % 4
        ]
        return y, x, heading
    return y, x, heading


# ---------------------------------------------------------------------------
# 1. Orientation * Position / Area / Orientation, both ways round
# ---------------------------------------------------------------------------

COORDS = range(-4, 5)
for o in ORIENTATIONS:
    for y, x in itt.product(COORDS, COORDS):
        p = Position(y, x)
        expected = Position(*ref_rotate_yx(o, y, x))
        for result in (
            o * p,
            p * o,
            o.__mul__(p),
            o.__rmul__(p),
            operator.mul(o, p),
        ):
            check(type(result) is Position, 'type', o, p, result)
            check(result == expected, 'rotation', o, p, result, expected)
            check(result is not p, 'a new position is returned', o, p)
        check(p == Position(y, x), 'operand untouched')

INTERVALS = [(a, b) for a in range(-3, 4) for b in range(a, 4)]
for o in ORIENTATIONS:
    for ys, xs in itt.product(INTERVALS, INTERVALS):
        area = Area(ys, xs)
        eys, exs = ref_rotate_area(o, ys, xs)
        for result in (o * area, area * o, o.__mul__(area), o.__rmul__(area)):
            check(type(result) is Area, 'type', o, area, result)
            check(
                result.ys == eys and result.xs == exs,
                'area rotation',
                o,
                area,
                result,
            )
            check(
                type(result.ys) is tuple and type(result.xs) is tuple,
                'tuples',
            )
        check(area == Area(ys, xs), 'operand untouched')

# a rotated area holds exactly the rotated cells (asymmetric view areas too)
for area in [
    Area((-6, 0), (-3, 3)),
    Area((-6, 0), (-2, 4)),
    Area((-1, 5), (0, 0)),
    Area((0, 0), (0, 0)),
    Area((2, 3), (-7, -5)),
    Area((-2, 2), (1, 1)),
]:
    for o in ORIENTATIONS:
        rotated = o * area
        check(
            set(rotated.positions()) == {o * p for p in area.positions()},
            'cells of rotated area',
            o,
            area,
        )
        check(
            {rotated.height, rotated.width} == {area.height, area.width},
            'sizes',
        )
        check(-o * (o * area) == area, 'inverse rotation', o, area)

# hard-coded samples
check(R * Position(1, 2) == Position(2, -1), 'sample')
check(L * Position(1, 2) == Position(-2, 1), 'sample')
check(B * Position(1, 2) == Position(-1, -2), 'sample')
check(F * Position(1, 2) == Position(1, 2), 'sample')
check(R * Area((-6, 0), (-3, 3)) == Area((-3, 3), (0, 6)), 'sample')
check(L * Area((-6, 0), (-3, 3)) == Area((-3, 3), (-6, 0)), 'sample')
check(B * Area((-6, 0), (-3, 3)) == Area((0, 6), (-3, 3)), 'sample')
check(R * Area((-6, 0), (-2, 4)) == Area((-2, 4), (0, 6)), 'sample')
check(L * Area((-6, 0), (-2, 4)) == Area((-4, 2), (-6, 0)), 'sample')
check(B * Area((-6, 0), (-2, 4)) == Area((0, 6), (-4, 2)), 'sample')

for o1, o2 in itt.product(ORIENTATIONS, ORIENTATIONS):
    expected = ref_compose(o1, o2)
    check(o1 * o2 is expected, 'composition', o1, o2)
    check(o1.__mul__(o2) is expected, 'composition', o1, o2)
    check(o1.__rmul__(o2) is expected, 'reflected composition', o1, o2)
    o = o1
    o *= o2
    check(o is expected, 'in-place composition', o1, o2)
    # rotating in two steps or at once
    for p in (Position(0, 0), Position(2, -3), Position(-1, 4)):
        check(o1 * (o2 * p) == (o1 * o2) * p, 'action', o1, o2, p)

for o in ORIENTATIONS:
    check(o * L * R is o and o * R * L is o, 'left then right restores', o)
    check(o * L * L * L * L is o, 'four lefts', o)
    check(o * R * R * R * R is o, 'four rights', o)
    check(o * L is not o and o * R is not o, 'quarter turn moves', o)
    check(o * L * L is o * R * R is o * B, 'half turn', o)
    check(o * -o is F and -o * o is F, 'negation', o)

# foreign operands
FOREIGN = [
    3,
    2.5,
    None,
    'x',
    (1, 2),
    [1, 2],
    Shape(2, 3),
    Action.TURN_LEFT,
    Color.NONE,
    Floor(),
    object(),
]
for o in ORIENTATIONS:
    for foreign in FOREIGN:
        check(o.__mul__(foreign) is NotImplemented, 'foreign', o, foreign)
        check(o.__rmul__(foreign) is NotImplemented, 'foreign', o, foreign)
        for a, b in ((o, foreign), (foreign, o)):
            try:
                a * b
            except TypeError:
                check(True)
            else:
                check(False, 'no TypeError', a, b)

# the grid still takes over when the orientation declines
grid = Grid([[Wall(), Floor(), Exit()], [Key(Color.RED), Floor(), Wall()]])
for o in ORIENTATIONS:
    check(o.__mul__(grid) is NotImplemented, 'grid is foreign to orientation')
    check(o * grid == grid * o, 'grid rotation both ways', o)
check((R * grid).shape == Shape(3, 2), 'rotated shape')
check(
    (R * grid).objects
    == [[Exit(), Wall()], [Floor(), Floor()], [Wall(), Key(Color.RED)]],
    'rotated right',
)

# ---------------------------------------------------------------------------
# 2. Transform
# ---------------------------------------------------------------------------

TRANSFORMS = [
    Transform(Position(y, x), o)
    for y, x, o in itt.product((-2, 0, 3), (-1, 0, 5), ORIENTATIONS)
]
for t in TRANSFORMS:
    ty, tx, to = t.position.y, t.position.x, t.orientation
    for y, x in itt.product(range(-3, 4), range(-3, 4)):
        p = Position(y, x)
        ry, rx = ref_rotate_yx(to, y, x)
        expected = Position(ty + ry, tx + rx)
        for result in (t * p, p * t, t.__mul__(p), t.__rmul__(p)):
            check(type(result) is Position and result == expected, t, p)

    for ys, xs in [
        ((-6, 0), (-3, 3)),
        ((-6, 0), (-2, 4)),
        ((0, 0), (0, 0)),
        ((-1, 2), (3, 3)),
    ]:
        area = Area(ys, xs)
        (a, b), (c, d) = ref_rotate_area(to, ys, xs)
        expected = Area((ty + a, ty + b), (tx + c, tx + d))
        for result in (t * area, area * t, t.__mul__(area), t.__rmul__(area)):
            check(type(result) is Area and result == expected, t, area)

    for o in ORIENTATIONS:
        expected = ref_compose(to, o)
        for result in (t * o, o * t, t.__mul__(o), t.__rmul__(o)):
            check(result is expected, 'transform * orientation', t, o)

    for t2 in TRANSFORMS[::5]:
        ry, rx = ref_rotate_yx(to, t2.position.y, t2.position.x)
        expected = Transform(
            Position(ty + ry, tx + rx), ref_compose(to, t2.orientation)
        )
        check(t * t2 == expected, 'transform * transform', t, t2)
        check(t.__mul__(t2) == expected, 'transform * transform', t, t2)
        check(type(t * t2) is Transform, 'type')
        # the reflected product, if asked for directly, is the same product
        check(t.__rmul__(t2) == expected, 'reflected transform product')

    identity = Transform(Position(0, 0), F)
    check(-t * t == identity and t * -t == identity, 'inverse', t)
    check(t == Transform(Position(ty, tx), to), 'operand untouched')

    for foreign in FOREIGN:
        check(t.__mul__(foreign) is NotImplemented, 'foreign', t, foreign)
        check(t.__rmul__(foreign) is NotImplemented, 'foreign', t, foreign)
        for a, b in ((t, foreign), (foreign, t)):
            try:
                a * b
            except TypeError:
                check(True)
            else:
                check(False, 'no TypeError', a, b)

# front of the agent, every heading, corners of a non-square grid included
for y, x in [(0, 0), (0, 6), (3, 0), (3, 6), (2, 3)]:
    for o in ORIENTATIONS:
        agent = Agent(Position(y, x), o)
        dy, dx = HEADING_DELTA[o]
        check(agent.front() == Position(y + dy, x + dx), 'front', y, x, o)
        check(agent.position == Position(y, x), 'front leaves the pose alone')
        check(agent.orientation is o, 'front leaves the pose alone')

# ---------------------------------------------------------------------------
# 3. kinematics, exhaustively on small grids (non-square, 1-wide, 1x1)
# ---------------------------------------------------------------------------


def target_objects():
    yield Floor()
    yield Wall()
    yield Exit()
    yield Exit(Color.BLUE)
    for status, color in itt.product(Door.Status, Color):
        yield Door(status, color)
    for color in Color:
        yield Key(color)
        yield Telepod(color)
        yield Beacon(color)
    yield MovingObstacle()
    yield Box(Floor())
    yield Box(Key(Color.NONE))
    yield Box(Box(Floor()))
    yield Hidden()
    yield NoneGridObject()


TARGETS = list(target_objects())
move_agent = trans_fs.move_agent
turn_agent = trans_fs.turn_agent
chain_mt = trans_fs.factory(
    'chain', transition_functions=[move_agent, turn_agent]
)
chain_tm = trans_fs.factory(
    'chain', transition_functions=[turn_agent, move_agent]
)
chain_none = trans_fs.factory('chain', transition_functions=[])

for height, width in [(1, 1), (1, 5), (4, 1), (3, 5), (5, 4), (2, 2)]:
    for y, x, heading in itt.product(
        range(height), range(width), ORIENTATIONS
    ):
        neighbours = [
            (y + dy, x + dx)
            for dy, dx in HEADING_DELTA.values()
            if 0 <= y + dy < height and 0 <= x + dx < width
        ]
        # every kind of cell around the agent (one kind at a time), the agent
        # itself standing on floor / exit / open door
        for target, under in itt.product(
            TARGETS, [Floor(), Exit(), Door(Door.Status.OPEN, Color.NONE)]
        ):
            if (height, width) in [(3, 5), (5, 4)] and not isinstance(
                under, Floor
            ):
                continue  # keep the run short

            for action in Action:

                def make_state():
                    grid = Grid.from_shape((height, width))
                    grid[y, x] = under
                    for ny, nx in neighbours:
                        grid[ny, nx] = target
                    return State(grid, Agent(Position(y, x), heading))

                expected = ref_kinematics(
                    make_state().grid, y, x, heading, action
                )
                ey, ex, eheading = expected

                # move_agent alone
                state = make_state()
                grid_before = Grid([list(row) for row in state.grid.objects])
                move_agent(state, action)
                my, mx = (ey, ex) if action in MOVE_QUARTERS else (y, x)
                check(
                    state.agent.position == Position(my, mx)
                    and state.agent.orientation is heading,
                    'move_agent',
                    (height, width),
                    (y, x),
                    heading,
                    action,
                    target,
                    state.agent,
                )
                check(state.grid == grid_before, 'move leaves the grid alone')
                check(
                    abs(my - y) + abs(mx - x) <= 1, 'at most one cell', action
                )

                # turn_agent alone
                state = make_state()
                turn_agent(state, action)
                theading = eheading if action in TURN_QUARTERS else heading
                check(
                    state.agent.position == Position(y, x)
                    and state.agent.orientation is theading,
                    'turn_agent',
                    (y, x),
                    heading,
                    action,
                    state.agent,
                )
                check(state.grid == grid_before, 'turn leaves the grid alone')

                # both, in either order, and nothing at all
                for function in (chain_mt, chain_tm):
                    state = make_state()
                    function(state, action)
                    check(
                        state.agent.position == Position(ey, ex)
                        and state.agent.orientation is eheading,
                        'chain',
                        (y, x),
                        heading,
                        action,
                        target,
                        state.agent,
                    )
                    check(
                        state.grid.area.contains(state.agent.position)
                        and not ref_blocks(state.grid[state.agent.position]),
                        'agent inside and on a free cell',
                    )
                state = make_state()
                chain_none(state, action)
                check(
                    state.agent.position == Position(y, x)
                    and state.agent.orientation is heading,
                    'empty chain',
                )

                # the tentative next position, by itself
                np_ = get_next_position(Position(y, x), heading, action)
                if action in MOVE_QUARTERS:
                    q = (ORIENTATIONS.index(heading) + MOVE_QUARTERS[action])
                    dy, dx = HEADING_DELTA[ORIENTATIONS[q % 4]]
                    check(np_ == Position(y + dy, x + dx), 'next position')
                else:
                    check(np_ == Position(y, x), 'next position (no move)')

# turn sequences
for heading in ORIENTATIONS:
    state = State(Grid.from_shape((2, 3)), Agent(Position(1, 2), heading))
    for first, second in [
        (Action.TURN_LEFT, Action.TURN_RIGHT),
        (Action.TURN_RIGHT, Action.TURN_LEFT),
    ]:
        turn_agent(state, first)
        check(state.agent.orientation is not heading, 'turned')
        turn_agent(state, second)
        check(state.agent.orientation is heading, 'left/right restore')
    for action in (Action.TURN_LEFT, Action.TURN_RIGHT):
        seen = []
        for _ in range(4):
            turn_agent(state, action)
            seen.append(state.agent.orientation)
        check(seen[-1] is heading and len(set(seen)) == 4, 'four turns')
        check(state.agent.position == Position(1, 2), 'turns never displace')

# ---------------------------------------------------------------------------
# 4. histories from reset, python-built counterparts of the shipped configs
# ---------------------------------------------------------------------------

ALL_OBJECTS = [
    Floor,
    Wall,
    Exit,
    Door,
    Key,
    MovingObstacle,
    Box,
    Telepod,
    Beacon,
]
MOVE_TURN = ['move_agent', 'turn_agent']
CONFIGS = [
    ('empty', dict(shape=Shape(4, 4)), MOVE_TURN),
    ('empty', dict(shape=Shape(8, 8), random_agent=True), MOVE_TURN),
    ('empty', dict(shape=Shape(4, 9), random_agent=True, random_exit=True),
     MOVE_TURN),
    ('rooms', dict(shape=Shape(7, 7), layout=(2, 2)), MOVE_TURN),
    ('rooms', dict(shape=Shape(10, 10), layout=(3, 3)), MOVE_TURN),
    ('rooms', dict(shape=Shape(9, 13), layout=(2, 3)), MOVE_TURN),
    ('dynamic_obstacles', dict(shape=Shape(5, 5), num_obstacles=1),
     MOVE_TURN + ['move_obstacles']),
    ('dynamic_obstacles',
     dict(shape=Shape(7, 6), num_obstacles=3, random_agent=True),
     MOVE_TURN + ['move_obstacles']),
    ('keydoor', dict(shape=Shape(5, 5)),
     MOVE_TURN + ['actuate_door', 'pickndrop']),
    ('keydoor', dict(shape=Shape(9, 7)),
     MOVE_TURN + ['actuate_door', 'pickndrop']),
    ('crossing', dict(shape=Shape(7, 7), num_rivers=2, object_type=Wall),
     MOVE_TURN),
    ('crossing', dict(shape=Shape(5, 9), num_rivers=1, object_type=Wall),
     MOVE_TURN),
    ('teleport', dict(shape=Shape(5, 5)), MOVE_TURN + ['teleport']),
    ('teleport', dict(shape=Shape(7, 5)), MOVE_TURN + ['teleport']),
    ('memory', dict(shape=Shape(5, 5), colors={Color.RED, Color.GREEN}),
     MOVE_TURN),
    ('memory',
     dict(shape=Shape(9, 7),
          colors={Color.RED, Color.GREEN, Color.BLUE, Color.YELLOW}),
     MOVE_TURN),
    ('memory_rooms',
     dict(shape=Shape(9, 9), layout=(2, 2),
          colors={Color.RED, Color.GREEN, Color.BLUE}, num_beacons=1,
          num_exits=2),
     MOVE_TURN),
    ('memory_rooms',
     dict(shape=Shape(13, 13), layout=(3, 3),
          colors={Color.RED, Color.GREEN, Color.BLUE, Color.YELLOW},
          num_beacons=1, num_exits=2),
     MOVE_TURN),
]


def make_env(reset_name, reset_kwargs, transition_names, view, view_name):
    shape = reset_kwargs['shape']
    view_shape = Shape(view.height, view.width)
    return GridWorld(
        StateSpace(shape, ALL_OBJECTS, list(Color)),
        ActionSpace(list(Action)),
        ObservationSpace(view_shape, ALL_OBJECTS, list(Color)),
        reset_fs.factory(reset_name, **reset_kwargs),
        trans_fs.factory(
            'chain',
            transition_functions=[
                trans_fs.factory(name) for name in transition_names
            ],
        ),
        obs_fs.factory(view_name, area=view),
        reward_fs.factory('living_reward', reward=-1.0),
        term_fs.factory('reach_exit'),
    )


VIEWS = [
    (Area((-6, 0), (-3, 3)), 'partially_occluded'),
    (Area((-2, 0), (-1, 1)), 'partially_occluded'),
    (Area((-3, 1), (-2, 2)), 'fully_transparent'),  # agent not on the edge
    (Area((-3, 0), (-1, 3)), 'raytracing'),  # asymmetric
]
total_steps = 0
for index, (reset_name, reset_kwargs, transition_names) in enumerate(CONFIGS):
    view, view_name = VIEWS[index % len(VIEWS)]
    env = make_env(reset_name, reset_kwargs, transition_names, view, view_name)
    for seed in (0, 1, 2):
        env.set_seed(seed)
        action_rng = rnd.default_rng(1000 + seed)
        env.reset()
        for step in range(120):
            state = env.state
            height, width = state.grid.shape.height, state.grid.shape.width
            y, x = state.agent.position.yx
            heading = state.agent.orientation
            check(0 <= y < height and 0 <= x < width, 'inside', reset_name)
            check(
                not ref_blocks(state.grid.objects[y][x]),
                'free cell',
                reset_name,
                state.grid.objects[y][x],
            )
            held = state.agent.grid_object

            action = list(Action)[action_rng.integers(len(Action))]
            ey, ex, eheading = ref_kinematics(
                state.grid, y, x, heading, action
            )
            env.step(action)
            total_steps += 1
            after = env.state
            check(after is not state, 'a new state object')
            check(
                state.agent.position == Position(y, x)
                and state.agent.orientation is heading,
                'the previous state is left alone',
            )
            check(after.agent.orientation is eheading, 'heading', reset_name)
            if after.agent.position != Position(ey, ex):
                # only teleportation may do that
                check('teleport' in transition_names, 'jump', reset_name)
                source = state.grid.objects[ey][ex]
                destination = after.grid[after.agent.position]
                check(
                    isinstance(source, Telepod)
                    and isinstance(destination, Telepod)
                    and source.color == destination.color,
                    'teleportation between telepods',
                )
            if action not in (Action.PICK_N_DROP,):
                check(after.agent.grid_object == held, 'held object')

            # the view is laid out around the pose
            observation = env.observation
            check(
                observation.grid.shape == Shape(view.height, view.width),
                'observation shape',
            )
            check(
                observation.agent.position == Position(-view.ymin, -view.xmin)
                and observation.agent.orientation is F,
                'observation agent',
            )
            ay, ax = after.agent.position.yx
            for vy, vx in [(0, 0), (-1, 0), (0, 1), (0, -1), (view.ymin, 0)]:
                ry, rx = ref_rotate_yx(after.agent.orientation, vy, vx)
                gy, gx = ay + ry, ax + rx
                seen = observation.grid[vy - view.ymin, vx - view.xmin]
                if isinstance(seen, Hidden):
                    continue
                check(
                    0 <= gy < height and 0 <= gx < width,
                    'seen cells are inside the grid',
                )
                check(
                    seen == after.grid.objects[gy][gx],
                    'seen cell is the one at the rotated offset',
                    reset_name,
                    (vy, vx),
                )
            check(
                observation.grid[-view.ymin, -view.xmin]
                == after.grid.objects[ay][ax],
                'the agent sees its own cell',
            )

print(f'OK: {CHECKS} checks, {total_steps} environment steps')
