"""Demo / check program for commit A (vectorised ray counting).

Run as:  cd /tmp/wt7-C07 && /venv/bin/python -W ignore _seed/A/demo.py

Everything is checked against an independent re-implementation (contained in
this file) of ray casting, ray counting, the three deterministic visibility
functions, and of the egocentric observation itself.  The program exits 0 both
on the clean tree and with the commit applied.
"""
import itertools as itt
import math
import os
import sys

sys.path.insert(0, os.getcwd())

import numpy as np  # noqa: E402
import numpy.random as rnd  # noqa: E402

from gym_gridverse.agent import Agent  # noqa: E402
from gym_gridverse.envs import observation_functions as ofs  # noqa: E402
from gym_gridverse.envs import visibility_functions as vfs  # noqa: E402
from gym_gridverse.geometry import Area, Orientation, Position  # noqa: E402
from gym_gridverse.grid import Grid  # noqa: E402
from gym_gridverse.grid_object import (  # noqa: E402
    Beacon,
    Box,
    Color,
    Door,
    Exit,
    Floor,
    Hidden,
    Key,
    MovingObstacle,
    Telepod,
    Wall,
)
from gym_gridverse.rng import reset_gv_rng  # noqa: E402
from gym_gridverse.state import State  # noqa: E402

checks = 0


def check(condition, message):
    global checks
    checks += 1
    if not condition:
        print('FAILED:', message)
        sys.exit(1)


# ---------------------------------------------------------------------------
# independent reference implementation
# ---------------------------------------------------------------------------

_ref_rays_cache = {}


def ref_rays(y0, x0, height, width):
    """rays (lists of (y, x)) from (y0, x0) in a height x width grid"""
    key = (y0, x0, height, width)
    if key in _ref_rays_cache:
        return _ref_rays_cache[key]

    if not (0 <= y0 < height and 0 <= x0 < width):
        raise ValueError('outside')

    ys = np.linspace(0, height, num=height + 1) - 0.5 - y0
    xs = np.linspace(0, width, num=width + 1) - 0.5 - x0
    yys, xxs = np.meshgrid(ys, xs)
    angles = np.sort(np.arctan2(yys, xxs), axis=None)

    rays = []
    for radians in angles:
        dy = 0.01 * math.sin(radians)
        dx = 0.01 * math.cos(radians)
        ray = []
        seen = set()
        i = 0
        while True:
            y, x = round(float(y0) + i * dy), round(float(x0) + i * dx)
            if not (0 <= y < height and 0 <= x < width):
                break
            if (y, x) not in seen:
                seen.add((y, x))
                ray.append((y, x))
            i += 1
        rays.append(ray)

    _ref_rays_cache[key] = rays
    return rays


def ref_counts(objects, y0, x0):
    height, width = len(objects), len(objects[0])
    num = [[0] * width for _ in range(height)]
    den = [[0] * width for _ in range(height)]
    for ray in ref_rays(y0, x0, height, width):
        light = True
        for y, x in ray:
            if light:
                num[y][x] += 1
            den[y][x] += 1
            if objects[y][x].blocks_vision:
                light = False
    return np.array(num, dtype=int), np.array(den, dtype=int)


def ref_raytracing(objects, y0, x0, absolute_counts=True, threshold=1):
    num, den = ref_counts(objects, y0, x0)
    if absolute_counts:
        return num >= threshold
    with np.errstate(all='ignore'):
        return (num / den) >= threshold


def ref_probs(objects, y0, x0):
    num, den = ref_counts(objects, y0, x0)
    with np.errstate(all='ignore'):
        return np.nan_to_num(num / den)


def ref_fully_transparent(objects, y0, x0):
    return np.ones((len(objects), len(objects[0])), dtype=bool)


def ref_partially_occluded(objects, y0, x0):
    height, width = len(objects), len(objects[0])
    if y0 != height - 1:
        raise NotImplementedError
    result = np.zeros((height, width), dtype=bool)
    for dx in (-1, +1):
        seen = np.zeros((height, width), dtype=bool)
        stack = [(y0, x0)]
        while stack:
            y, x = stack.pop()
            if not (0 <= y < height and 0 <= x < width) or seen[y, x]:
                continue
            seen[y, x] = True
            if not objects[y][x].blocks_vision:
                stack.extend([(y - 1, x), (y, x + dx), (y - 1, x + dx)])
        result |= seen
    return result


REF_VISIBILITY = {
    'fully_transparent': ref_fully_transparent,
    'partially_occluded': ref_partially_occluded,
    'raytracing': ref_raytracing,
}

# orientation algebra (independent):  quarter turns clockwise from FORWARD
TURNS = {
    Orientation.F: 0,
    Orientation.R: 1,
    Orientation.B: 2,
    Orientation.L: 3,
}
FROM_TURNS = {v: k for k, v in TURNS.items()}


def rotate_vector(y, x, turns):
    for _ in range(turns % 4):
        y, x = x, -y  # clockwise quarter turn:  up (-1, 0) -> right (0, 1)
    return y, x


def ref_observation(objects, agent_yx, agent_orientation, area, visibility):
    """returns matrix of entries, where an entry is either ('obj', obj) for a
    visible object of the state, or 'hidden'.  Also returns the agent cell."""
    height, width = len(objects), len(objects[0])
    (ymin, ymax), (xmin, xmax) = area
    turns = TURNS[agent_orientation]

    view = []
    for ay in range(ymin, ymax + 1):
        row = []
        for ax in range(xmin, xmax + 1):
            dy, dx = rotate_vector(ay, ax, turns)
            y, x = agent_yx[0] + dy, agent_yx[1] + dx
            if 0 <= y < height and 0 <= x < width:
                row.append(objects[y][x])
            else:
                row.append(Hidden())
        view.append(row)

    pov = (-ymin, -xmin)
    visible = visibility(view, pov[0], pov[1])
    entries = [
        [
            ('obj', view[i][j]) if visible[i, j] else 'hidden'
            for j in range(len(view[0]))
        ]
        for i in range(len(view))
    ]
    return entries, pov


def rotate_world(objects, agent_yx, agent_orientation, turns):
    """rotates the world (objects matrix and agent pose) clockwise"""
    for _ in range(turns % 4):
        height = len(objects)
        objects = [list(row) for row in zip(*objects[::-1])]
        agent_yx = (agent_yx[1], height - 1 - agent_yx[0])
        agent_orientation = FROM_TURNS[(TURNS[agent_orientation] + 1) % 4]
    return objects, agent_yx, agent_orientation


# ---------------------------------------------------------------------------
# random worlds
# ---------------------------------------------------------------------------

COLORS = [Color.RED, Color.GREEN, Color.BLUE, Color.YELLOW]


def random_object(rng):
    k = rng.integers(14)
    color = COLORS[rng.integers(len(COLORS))]
    if k < 5:
        return Floor()
    if k < 8:
        return Wall()
    if k == 8:
        status = list(Door.Status)[rng.integers(len(Door.Status))]
        return Door(status, color)
    if k == 9:
        return Key(color)
    if k == 10:
        return MovingObstacle()
    if k == 11:
        return Box(Key(color))
    if k == 12:
        return [Exit(), Hidden(), Telepod(color)][rng.integers(3)]
    return Beacon(color)


def random_objects(rng, height, width, density):
    return [
        [
            random_object(rng) if rng.random() < density else Floor()
            for _ in range(width)
        ]
        for _ in range(height)
    ]


def copy_matrix(objects):
    return [list(row) for row in objects]


# ---------------------------------------------------------------------------
# 1. visibility functions
# ---------------------------------------------------------------------------

raytracing = vfs.visibility_function_registry['raytracing']
stochastic_raytracing = vfs.visibility_function_registry[
    'stochastic_raytracing'
]

THRESHOLDS_ABSOLUTE = [1, 0, 2, 3, 7, 1.5, 10**6, -1]
THRESHOLDS_RELATIVE = [1, 1.0, 0.0, 0.5, 0.25, 0.99, 1e-9, 2, -0.5]

SHAPES = [(1, 1), (1, 2), (2, 1), (1, 6), (6, 1), (2, 2), (3, 3)]
SHAPES += [(2, 5), (5, 2), (3, 4), (4, 3), (5, 7), (7, 5), (6, 6), (4, 9)]


def check_visibility_functions():
    rng = rnd.default_rng(20240701)
    n_zero_den = 0

    for height, width in SHAPES:
        grids = [
            random_objects(rng, height, width, density)
            for density in (0.0, 0.2, 0.5, 1.0)
        ]
        grids.append([[Wall() for _ in range(width)] for _ in range(height)])

        for objects in grids:
            grid = Grid(copy_matrix(objects))
            for y, x in itt.product(range(height), range(width)):
                position = Position(y, x)
                label = f'{height}x{width} at {(y, x)}'

                num, den = ref_counts(objects, y, x)
                n_zero_den += int((den == 0).sum())

                # default parameters
                expected = ref_raytracing(objects, y, x)
                actual = raytracing(grid, position)
                check(actual.dtype == np.bool_, f'dtype {label}')
                check(actual.shape == (height, width), f'shape {label}')
                check(np.array_equal(actual, expected), f'default {label}')
                check(actual[y, x], f'agent cell visible {label}')

                # repeated call: equal result, fresh and writeable array
                actual[...] = False
                again = raytracing(grid, position, rng=rnd.default_rng(0))
                check(again is not actual, f'fresh array {label}')
                check(np.array_equal(again, expected), f'repeated {label}')

                for threshold in THRESHOLDS_ABSOLUTE:
                    check(
                        np.array_equal(
                            raytracing(
                                grid,
                                position,
                                absolute_counts=True,
                                threshold=threshold,
                            ),
                            ref_raytracing(objects, y, x, True, threshold),
                        ),
                        f'absolute threshold {threshold} {label}',
                    )
                for threshold in THRESHOLDS_RELATIVE:
                    check(
                        np.array_equal(
                            raytracing(
                                grid,
                                position,
                                absolute_counts=False,
                                threshold=threshold,
                            ),
                            ref_raytracing(objects, y, x, False, threshold),
                        ),
                        f'relative threshold {threshold} {label}',
                    )

                # stochastic:  same samples, same number of draws
                probs = ref_probs(objects, y, x)
                for seed in (0, 1, 12345):
                    rng_actual = rnd.default_rng(seed)
                    rng_expected = rnd.default_rng(seed)
                    actual = stochastic_raytracing(
                        grid, position, rng=rng_actual
                    )
                    expected = rng_expected.random(probs.shape) < probs
                    check(actual.dtype == np.bool_, f'stoch dtype {label}')
                    check(
                        np.array_equal(actual, expected),
                        f'stochastic seed {seed} {label}',
                    )
                    check(
                        rng_actual.bit_generator.state
                        == rng_expected.bit_generator.state,
                        f'stochastic rng state seed {seed} {label}',
                    )
                    check(
                        not (actual & (num == 0)).any(),
                        f'stochastic never shows unlit cell {label}',
                    )

                # the grid is not modified
                check(
                    all(
                        grid.objects[i][j] is objects[i][j]
                        for i in range(height)
                        for j in range(width)
                    ),
                    f'grid untouched {label}',
                )

    # library rng is used (and advanced identically) when rng is None
    objects = random_objects(rng, 4, 5, 0.4)
    grid = Grid(copy_matrix(objects))
    probs = ref_probs(objects, 3, 2)
    gv_rng = reset_gv_rng(77)
    rng_expected = rnd.default_rng(77)
    for _ in range(3):
        actual = stochastic_raytracing(grid, Position(3, 2))
        expected = rng_expected.random(probs.shape) < probs
        check(np.array_equal(actual, expected), 'library rng samples')
    check(
        gv_rng.bit_generator.state == rng_expected.bit_generator.state,
        'library rng state',
    )

    # positions outside of the grid are rejected in the same way
    for position in [
        Position(-1, 0),
        Position(0, -1),
        Position(4, 0),
        Position(0, 5),
        Position(7, 7),
    ]:
        for function in (raytracing, stochastic_raytracing):
            try:
                function(grid, position, rng=rnd.default_rng(0))
            except ValueError:
                check(True, 'outside raises ValueError')
            else:
                check(False, f'{position} outside should raise ValueError')

    return n_zero_den


# ---------------------------------------------------------------------------
# 2. observation functions:  reference and invariance under world rotation
# ---------------------------------------------------------------------------

AREAS = [
    ((-6, 0), (-3, 3)),  # default minigrid-like view
    ((-2, 0), (-1, 1)),
    ((-3, 0), (-2, 1)),  # asymmetric
    ((-1, 0), (0, 3)),
    ((0, 0), (0, 0)),  # agent cell only
    ((0, 0), (-4, 4)),  # single row
    ((-5, 0), (0, 0)),  # single column
    ((-2, 2), (-2, 2)),  # agent in the middle (not partially_occluded)
    ((-1, 3), (-4, 1)),
    ((-9, 0), (-8, 8)),  # larger than any world
]

WORLD_SHAPES = [(1, 1), (1, 4), (3, 3), (3, 5), (6, 4), (5, 7)]


def check_entries(observation, entries, pov, held, label):
    grid = observation.grid
    check(
        grid.shape.as_tuple == (len(entries), len(entries[0])),
        f'observation shape {label}',
    )
    for i, row in enumerate(entries):
        for j, entry in enumerate(row):
            obj = grid[i, j]
            if entry == 'hidden':
                check(type(obj) is Hidden, f'hidden cell {(i, j)} {label}')
            else:
                expected = entry[1]
                check(obj == expected, f'cell {(i, j)} {label}')
                check(
                    type(obj) is type(expected),
                    f'cell type {(i, j)} {label}',
                )
                if type(expected) is not Hidden:
                    # visible objects are the very objects of the state
                    check(obj is expected, f'cell identity {(i, j)} {label}')
    check(observation.agent.position == Position(*pov), f'pov {label}')
    check(observation.agent.orientation is Orientation.F, f'front {label}')
    check(observation.agent.grid_object is held, f'held object {label}')


def check_observation_functions():
    rng = rnd.default_rng(4242)
    n_observations = 0

    for height, width in WORLD_SHAPES:
        for density in (0.25, 0.6):
            objects = random_objects(rng, height, width, density)
            held = Key(Color.RED) if density > 0.5 else None

            for (y, x), orientation in itt.product(
                itt.product(range(height), range(width)), TURNS
            ):
                worlds = [
                    rotate_world(objects, (y, x), orientation, turns)
                    for turns in range(4)
                ]
                states = [
                    State(
                        Grid(copy_matrix(w_objects)),
                        Agent(Position(*w_yx), w_orientation, held),
                    )
                    for w_objects, w_yx, w_orientation in worlds
                ]

                for area_spec, name in itt.product(AREAS, REF_VISIBILITY):
                    if name == 'partially_occluded' and area_spec[0][1] != 0:
                        continue
                    if name == 'raytracing' and (
                        (area_spec[0][1] - area_spec[0][0] + 1)
                        * (area_spec[1][1] - area_spec[1][0] + 1)
                        > 60
                    ):
                        continue

                    area = Area(*area_spec)
                    function = ofs.observation_function_registry[name]
                    label = (
                        f'{name} {height}x{width} pose {(y, x)} '
                        f'{orientation.name} area {area_spec}'
                    )

                    entries, pov = ref_observation(
                        objects,
                        (y, x),
                        orientation,
                        area_spec,
                        REF_VISIBILITY[name],
                    )

                    observations = [
                        function(state, area=area) for state in states
                    ]
                    n_observations += len(observations)

                    # against the reference (cells, identity, agent)
                    for observation, state in zip(observations, states):
                        check_entries(
                            observation,
                            entries,
                            pov,
                            state.agent.grid_object,
                            label,
                        )

                    # the property:  equal observations for all quarter turns
                    for turns, observation in enumerate(observations):
                        check(
                            observation == observations[0],
                            f'rotation invariance turns={turns} {label}',
                        )
                        check(
                            observation.grid.shape
                            == observations[0].grid.shape,
                            f'rotation invariance shape {turns} {label}',
                        )

                    # second call on the same state gives an equal observation
                    check(
                        function(states[1], area=area) == observations[1],
                        f'repeatable {label}',
                    )

                # states are not modified by observing
                for state, (w_objects, w_yx, w_orientation) in zip(
                    states, worlds
                ):
                    check(
                        all(
                            state.grid.objects[i][j] is w_objects[i][j]
                            for i in range(len(w_objects))
                            for j in range(len(w_objects[0]))
                        ),
                        'state grid untouched',
                    )
                    check(
                        state.agent.position == Position(*w_yx)
                        and state.agent.orientation is w_orientation,
                        'state agent untouched',
                    )

    # the factory route, with the stochastic function and explicit rng
    objects = random_objects(rng, 5, 6, 0.4)
    area_spec = ((-3, 0), (-2, 2))
    function = ofs.factory('stochastic_raytracing', area=Area(*area_spec))
    for (y, x), orientation in itt.product([(0, 0), (4, 5), (2, 3)], TURNS):
        view_entries, pov = ref_observation(
            objects, (y, x), orientation, area_spec, ref_fully_transparent
        )
        view = [[entry[1] for entry in row] for row in view_entries]
        probs = ref_probs(view, pov[0], pov[1])
        for turns in range(4):
            w_objects, w_yx, w_orientation = rotate_world(
                objects, (y, x), orientation, turns
            )
            state = State(
                Grid(copy_matrix(w_objects)),
                Agent(Position(*w_yx), w_orientation),
            )
            rng_actual = rnd.default_rng(99)
            rng_expected = rnd.default_rng(99)
            observation = function(state, rng=rng_actual)
            visible = rng_expected.random(probs.shape) < probs
            entries = [
                [
                    view_entries[i][j] if visible[i, j] else 'hidden'
                    for j in range(len(view[0]))
                ]
                for i in range(len(view))
            ]
            check_entries(
                observation,
                entries,
                pov,
                state.agent.grid_object,
                f'stochastic observation {(y, x)} {orientation.name} {turns}',
            )
            check(
                rng_actual.bit_generator.state
                == rng_expected.bit_generator.state,
                'stochastic observation rng state',
            )

    return n_observations


if __name__ == '__main__':
    n_zero_den = check_visibility_functions()
    n_observations = check_observation_functions()
    print(
        f'OK: {checks} checks, {n_observations} observations, '
        f'{len(_ref_rays_cache)} distinct ray sources, '
        f'{n_zero_den} cells never hit by any ray'
    )
