"""Demo for change A (Area.contains reads the bound tuples once).

Exits 0 on the pristine tree and with the patch applied.  Checks

1. ``Area.contains`` against a reference spelled out with plain integers, on
   square / non-square / degenerate / negative-offset areas, for every cell in
   a margin around the area (corners, borders, one-off outside, far outside);
2. property C19 for the two ray fans (``compute_rays``, ``compute_rays_fancy``)
   over all areas up to 5x5 x all origins, plus larger / asymmetric / shifted
   areas:  each ray starts at its origin, stays inside the area, has no
   repeated cell, moves between edge- or corner-adjacent cells and ends on the
   border;  the fan covers the whole area;
3. determinism and cache transparency: cached results equal fresh results,
   whatever the order of earlier queries, and equal a reference ray marcher
   embedded here;
4. end to end: the ray-traced visibility of an unobstructed grid is all-True
   for every origin of non-square grids.
"""
import itertools as itt
import math
import random
import os
import sys
import warnings

warnings.filterwarnings('ignore')
sys.path.insert(0, os.getcwd())  # run from the worktree root

import numpy as np  # noqa: E402

from gym_gridverse.envs.visibility_functions import (  # noqa: E402
    raytracing as raytracing_visibility,
)
from gym_gridverse.geometry import Area, Position  # noqa: E402
from gym_gridverse.grid import Grid  # noqa: E402
from gym_gridverse.grid_object import Floor  # noqa: E402
from gym_gridverse.utils.raytracing import (  # noqa: E402
    cached_compute_rays,
    cached_compute_rays_fancy,
    compute_ray,
    compute_rays,
    compute_rays_fancy,
)

failures = []


def check(condition, message):
    if not condition:
        failures.append(message)
        if len(failures) < 20:
            print('FAIL:', message)


# ---------------------------------------------------------------- references


def ref_contains(ys, xs, y, x):
    return ys[0] <= y and y <= ys[1] and xs[0] <= x and x <= xs[1]


def ref_ray(y0, x0, ys, xs, radians, step_size, unique=True):
    """reference ray marcher on plain tuples"""
    dy = step_size * math.sin(radians)
    dx = step_size * math.cos(radians)
    ray, seen = [], set()
    i = 0
    while True:
        cell = (round(float(y0) + i * dy), round(float(x0) + i * dx))
        if not ref_contains(ys, xs, *cell):
            return ray
        if not unique or cell not in seen:
            seen.add(cell)
            ray.append(cell)
        i += 1


def ref_fancy_radians(y0, x0, ys, xs):
    height = ys[1] - ys[0] + 1
    width = xs[1] - xs[0] + 1
    # cell corners relative to the origin cell centre (half-integers)
    cys = np.array([ys[0] + i - 0.5 - y0 for i in range(height + 1)])
    cxs = np.array([xs[0] + i - 0.5 - x0 for i in range(width + 1)])
    radians = np.arctan2(cys[np.newaxis, :], cxs[:, np.newaxis])
    return [float(rad) for rad in np.sort(radians, axis=None)]


# ------------------------------------------------------------ 1. contains

AREAS = [
    ((0, 0), (0, 0)),
    ((0, 0), (0, 6)),
    ((0, 6), (0, 0)),
    ((0, 4), (0, 4)),
    ((0, 2), (0, 7)),
    ((0, 7), (0, 2)),
    ((-3, 3), (-3, 3)),
    ((-6, 0), (-3, 3)),  # the default 7x7 view area
    ((-2, 1), (3, 7)),
    ((-5, -5), (-9, -2)),
    ((10, 12), (-1, 0)),
    ((-1000000, 1000000), (5, 5)),
]

for ys, xs in AREAS:
    area = Area(ys, xs)
    check(area.ys == ys and area.xs == xs, f'{area} fields')
    y_candidates = sorted(
        {ys[0] - 50, ys[0] - 2, ys[0] - 1, ys[0], ys[0] + 1}
        | {ys[1] - 1, ys[1], ys[1] + 1, ys[1] + 2, ys[1] + 50}
        | {0, (ys[0] + ys[1]) // 2}
    )
    x_candidates = sorted(
        {xs[0] - 50, xs[0] - 2, xs[0] - 1, xs[0], xs[0] + 1}
        | {xs[1] - 1, xs[1], xs[1] + 1, xs[1] + 2, xs[1] + 50}
        | {0, (xs[0] + xs[1]) // 2}
    )
    for y, x in itt.product(y_candidates, x_candidates):
        result = area.contains(Position(y, x))
        check(type(result) is bool, f'{area}.contains returns {type(result)}')
        check(
            result == ref_contains(ys, xs, y, x),
            f'{area}.contains({y}, {x}) = {result}',
        )
    # every enumerated position is contained, the enumeration has h*w cells
    cells = list(area.positions()) if area.height * area.width < 1000 else []
    check(all(area.contains(p) for p in cells), f'{area} positions contained')
    # repeated calls, same answer (no state)
    p = Position(ys[0], xs[1])
    check(
        [area.contains(p) for _ in range(3)] == [True] * 3,
        f'{area} repeated contains',
    )

# contains accepts anything with integer-like y / x the way it always did
check(Area((0, 3), (0, 3)).contains(Position(True, False)), 'bool coordinates')
check(not Area((1, 3), (0, 3)).contains(Position(0.5, 1)), 'float coordinates')
check(Area((0, 3), (0, 3)).contains(Position(0.5, 2.5)), 'float coordinates')
try:
    Area((0, 3), (0, 3)).contains((1, 1))
except AttributeError:
    pass
else:
    check(False, 'contains(tuple) should raise AttributeError')

# ---------------------------------------------------- 2./3. ray properties


def check_ray(ray, origin, area, label):
    check(len(ray) > 0 and ray[0] == origin, f'{label}: starts at origin')
    check(all(area.contains(p) for p in ray), f'{label}: leaves area')
    check(
        all(
            ref_contains(area.ys, area.xs, p.y, p.x)
            and type(p.y) is int
            and type(p.x) is int
            for p in ray
        ),
        f'{label}: leaves area (reference)',
    )
    check(len(set(ray)) == len(ray), f'{label}: repeated cell')
    check(
        all(
            max(abs(p.y - q.y), abs(p.x - q.x)) == 1
            for p, q in zip(ray, ray[1:])
        ),
        f'{label}: not connected',
    )
    last = ray[-1]
    check(
        last.y in area.ys or last.x in area.xs,
        f'{label}: does not end on border',
    )


def check_fan(origin, area, *, with_degrees):
    ys, xs = area.ys, area.xs
    everything = {
        (y, x)
        for y in range(ys[0], ys[1] + 1)
        for x in range(xs[0], xs[1] + 1)
    }

    fancy = compute_rays_fancy(origin, area)
    radians = ref_fancy_radians(origin.y, origin.x, ys, xs)
    check(
        len(fancy) == (area.height + 1) * (area.width + 1) == len(radians),
        f'{origin} {area}: number of rays',
    )
    expected = [
        ref_ray(origin.y, origin.x, ys, xs, rad, 0.01) for rad in radians
    ]
    check(
        [[p.yx for p in ray] for ray in fancy] == expected,
        f'{origin} {area}: fancy rays differ from reference',
    )
    for i, ray in enumerate(fancy):
        check_ray(ray, origin, area, f'fancy {origin} {area} #{i}')
    check(
        {p.yx for ray in fancy for p in ray} == everything,
        f'{origin} {area}: fancy fan does not sweep the area',
    )

    if with_degrees:
        rays = compute_rays(origin, area)
        check(len(rays) == 360, 'compute_rays: 360 rays')
        expected = [
            ref_ray(
                origin.y, origin.x, ys, xs, deg * (math.pi / 180.0), 0.01
            )
            for deg in range(360)
        ]
        check(
            [[p.yx for p in ray] for ray in rays] == expected,
            f'{origin} {area}: degree rays differ from reference',
        )
        for i, ray in enumerate(rays):
            check_ray(ray, origin, area, f'degrees {origin} {area} #{i}')
        if area.height <= 7 and area.width <= 7:
            check(
                {p.yx for ray in rays for p in ray} == everything,
                f'{origin} {area}: degree fan does not sweep the area',
            )
    return fancy


# all areas up to 5x5 (at the origin), all origins
for height, width in itt.product(range(1, 6), repeat=2):
    area = Area((0, height - 1), (0, width - 1))
    for origin in area.positions():
        check_fan(
            origin,
            area,
            with_degrees=(height, width) in [(1, 1), (1, 5), (3, 4), (5, 5)]
            and origin in (Position(0, 0), Position(height - 1, width // 2)),
        )

# larger, asymmetric and shifted areas;  corners, borders and interior origins
LARGER = [
    (Area((0, 6), (0, 6)), [(0, 0), (6, 3), (3, 3), (6, 6), (2, 5)]),
    (Area((-6, 0), (-3, 3)), [(0, 0), (-6, -3), (-3, 1), (0, 3)]),
    (Area((-2, 1), (3, 7)), [(0, 5), (-2, 3), (1, 7), (-1, 6)]),
    (Area((0, 1), (0, 10)), [(0, 0), (1, 10), (1, 4)]),
    (Area((0, 10), (0, 1)), [(0, 0), (10, 1), (4, 1)]),
    (Area((0, 8), (0, 10)), [(8, 5), (0, 10), (4, 4)]),
    (Area((5, 5), (-4, 4)), [(5, -4), (5, 0), (5, 4)]),
    (Area((-12, -1), (20, 24)), [(-12, 20), (-1, 24), (-7, 22)]),
]
for area, origins in LARGER:
    for y, x in origins:
        check_fan(
            Position(y, x),
            area,
            with_degrees=(y, x) == origins[0],
        )

# origin outside the area: documented ValueError, for both fans and one ray
for area, outside in [
    (Area((0, 2), (0, 2)), Position(3, 0)),
    (Area((0, 2), (0, 2)), Position(0, -1)),
    (Area((-2, 1), (3, 7)), Position(0, 0)),
    (Area((-2, 1), (3, 7)), Position(2, 8)),
]:
    for function in (compute_rays, compute_rays_fancy):
        try:
            function(outside, area)
        except ValueError:
            pass
        else:
            check(False, f'{function.__name__}({outside}, {area}) no error')
    try:
        compute_ray(outside, area, radians=0.0, step_size=0.01)
    except ValueError:
        pass
    else:
        check(False, f'compute_ray({outside}, {area}) no error')

# hard-coded rays
HARD = [
    (((0, 2), (0, 2)), (0, 0), 0.0, [(0, 0), (0, 1), (0, 2)]),
    (((0, 2), (0, 2)), (0, 0), math.pi / 2, [(0, 0), (1, 0), (2, 0)]),
    (((0, 2), (0, 2)), (0, 0), math.pi / 4, [(0, 0), (1, 1), (2, 2)]),
    (((0, 2), (0, 2)), (0, 0), math.pi, [(0, 0)]),
    (((0, 2), (0, 2)), (0, 0), -math.pi / 2, [(0, 0)]),
    (((-2, 1), (3, 7)), (0, 5), math.pi, [(0, 5), (0, 4), (0, 3)]),
    (((-2, 1), (3, 7)), (0, 5), -math.pi / 2, [(0, 5), (-1, 5), (-2, 5)]),
    (((-2, 1), (3, 7)), (0, 5), 0.3, [(0, 5), (0, 6), (0, 7), (1, 7)]),
    (((-2, 1), (3, 7)), (0, 5), 2.0, [(0, 5), (1, 5), (1, 4)]),
    (
        ((-2, 1), (3, 7)),
        (0, 5),
        -2.5,
        [(0, 5), (0, 4), (-1, 4), (-1, 3), (-2, 3)],
    ),
]
for (ys, xs), (y, x), rad, expected in HARD:
    ray = compute_ray(Position(y, x), Area(ys, xs), radians=rad, step_size=0.01)
    check([p.yx for p in ray] == expected, f'hard-coded ray {ys} {xs} {rad}')

# -------------------------------------------------- 3. cache transparency

queries = [
    (Position(y, x), Area(ys, xs))
    for ys, xs in [((0, 3), (0, 5)), ((0, 5), (0, 3)), ((-3, 0), (-2, 2))]
    for y in range(ys[0], ys[1] + 1)
    for x in range(xs[0], xs[1] + 1)
]
fresh = {query: compute_rays_fancy(*query) for query in queries}
rng = random.Random(19)
for _ in range(3):
    order = queries + rng.sample(queries, len(queries) // 2)
    rng.shuffle(order)
    for query in order:
        # equal-but-not-identical keys hit the same entry
        position, area = query
        key = (Position(position.y, position.x), Area(area.ys, area.xs))
        check(
            cached_compute_rays_fancy(*key) == fresh[query],
            f'cached fancy rays differ for {query}',
        )
    cached_compute_rays_fancy.cache_clear()
check(
    cached_compute_rays(Position(1, 1), Area((0, 2), (0, 3)))
    == compute_rays(Position(1, 1), Area((0, 2), (0, 3)))
    == cached_compute_rays(Position(1, 1), Area((0, 2), (0, 3))),
    'cached degree rays differ',
)

# ------------------------------------------------------- 4. end to end

for height, width in [(1, 1), (1, 6), (6, 1), (3, 5), (5, 3), (7, 7), (4, 9)]:
    grid = Grid.from_shape((height, width), factory=Floor)
    origins = (
        list(grid.area.positions())
        if height * width <= 15
        else list(grid.area.positions('border'))[::3]
        + [Position(height // 2, width // 2)]
    )
    for origin in origins:
        visibility = raytracing_visibility(grid, origin)
        check(
            visibility.shape == (height, width) and bool(visibility.all()),
            f'unobstructed {height}x{width} view from {origin} has holes',
        )
        check(
            np.array_equal(visibility, raytracing_visibility(grid, origin)),
            'repeated visibility query differs',
        )

if failures:
    print(f'{len(failures)} failures')
    sys.exit(1)
print('ok')
