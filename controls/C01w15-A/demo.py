"""Demo for change A (GridWorld.functional_step: action validated first).

Run from the worktree root:  /venv/bin/python _seed/A/demo.py

Exits 0 on the pristine tree and with the patch applied.  Checks property C01
(closure and totality of steps, rejection of foreign actions without any side
effect, exactness of the space-membership predicates) with reference
predicates embedded below, plus a golden digest of seeded roll-outs.
"""
import hashlib
import itertools
import math
import os
import sys
import warnings

warnings.filterwarnings('ignore')
sys.path.insert(0, os.getcwd())

import numpy as np  # noqa: E402

from gym_gridverse.action import Action  # noqa: E402
from gym_gridverse.agent import Agent  # noqa: E402
from gym_gridverse.debugging import reset_gv_debug  # noqa: E402
from gym_gridverse.envs import observation_functions as observation_fs  # noqa: E402
from gym_gridverse.envs import reset_functions as reset_fs  # noqa: E402
from gym_gridverse.envs import reward_functions as reward_fs  # noqa: E402
from gym_gridverse.envs import terminating_functions as terminating_fs  # noqa: E402
from gym_gridverse.envs import transition_functions as transition_fs  # noqa: E402
from gym_gridverse.envs.gridworld import GridWorld  # noqa: E402
from gym_gridverse.geometry import Area, Orientation, Position, Shape  # noqa: E402
from gym_gridverse.grid import Grid  # noqa: E402
from gym_gridverse.grid_object import (  # noqa: E402
    Beacon,
    Box,
    Color,
    Door,
    Exit,
    Floor,
    Hidden,
    Key,
    MovingObstacle,
    NoneGridObject,
    Telepod,
    Wall,
)
from gym_gridverse.spaces import (  # noqa: E402
    ActionSpace,
    ObservationSpace,
    StateSpace,
)
from gym_gridverse.state import State  # noqa: E402
from gym_gridverse.utils.fast_copy import fast_copy  # noqa: E402

CHECKS = 0


def check(condition, message):
    global CHECKS
    CHECKS += 1
    if not condition:
        print(f'FAIL: {message}')
        sys.exit(1)


# --------------------------------------------------------------------------
# canonical encodings (independent of __repr__ / __eq__ of the library)
# --------------------------------------------------------------------------


def enc_obj(obj):
    extra = enc_obj(obj.content) if isinstance(obj, Box) else None
    return (type(obj).__name__, int(obj.state_index), obj.color.name, extra)


def enc_grid(grid):
    return tuple(
        tuple(enc_obj(grid.objects[y][x]) for x in range(grid.shape.width))
        for y in range(grid.shape.height)
    )


def enc_agent(agent):
    return (
        int(agent.position.y),
        int(agent.position.x),
        agent.orientation.name,
        enc_obj(agent.grid_object),
    )


def enc_state(state):
    return (enc_grid(state.grid), enc_agent(state.agent))


# --------------------------------------------------------------------------
# reference membership predicates (written from the property statement)
# --------------------------------------------------------------------------


def ref_state_in_space(state, shape, object_types, colors):
    colors = set(colors) | {Color.NONE}
    grid = state.grid
    if (grid.shape.height, grid.shape.width) != (shape.height, shape.width):
        return False
    if len(grid.objects) != shape.height:
        return False
    for row in grid.objects:
        if len(row) != shape.width:
            return False
        for obj in row:
            if not any(type(obj) is t for t in object_types):
                return False
            if obj.color not in colors:
                return False
    y, x = state.agent.position.y, state.agent.position.x
    if not (0 <= y < shape.height and 0 <= x < shape.width):
        return False
    if not isinstance(state.agent.orientation, Orientation):
        return False
    held = state.agent.grid_object
    if not any(type(held) is t for t in list(object_types) + [NoneGridObject]):
        return False
    return held.color in colors


def ref_observation_in_space(observation, shape, object_types, colors):
    colors = set(colors) | {Color.NONE}
    grid = observation.grid
    if (grid.shape.height, grid.shape.width) != (shape.height, shape.width):
        return False
    for row in grid.objects:
        if len(row) != shape.width:
            return False
        for obj in row:
            if not any(type(obj) is t for t in list(object_types) + [Hidden]):
                return False
            if obj.color not in colors:
                return False
    y, x = observation.agent.position.y, observation.agent.position.x
    if not (0 <= y < shape.height and 0 <= x < shape.width):
        return False
    held = observation.agent.grid_object
    if not any(type(held) is t for t in list(object_types) + [NoneGridObject]):
        return False
    return held.color in colors


# --------------------------------------------------------------------------
# environment assembly through the python API
# --------------------------------------------------------------------------

ALL_COLORS = [Color.NONE, Color.RED, Color.GREEN, Color.BLUE, Color.YELLOW]
MOVE_TURN = [
    Action.MOVE_FORWARD,
    Action.MOVE_BACKWARD,
    Action.MOVE_LEFT,
    Action.MOVE_RIGHT,
    Action.TURN_LEFT,
    Action.TURN_RIGHT,
]


def chain(*names):
    return transition_fs.factory(
        'chain',
        transition_functions=[transition_fs.factory(n) for n in names],
    )


def reward_sum(*specs):
    return reward_fs.factory(
        'reduce_sum',
        reward_functions=[reward_fs.factory(n, **kw) for n, kw in specs],
    )


def term_any(*names):
    return terminating_fs.factory(
        'reduce_any',
        terminating_functions=[terminating_fs.factory(n) for n in names],
    )


GETTING_CLOSER = (
    'getting_closer',
    dict(object_type=Exit, reward_closer=0.2, reward_further=-0.2),
)
LIVING = ('living_reward', dict(reward=-0.05))
REACH = ('reach_exit', dict(reward_on=5.0, reward_off=0.0))


class Config:
    def __init__(
        self,
        name,
        objects,
        colors,
        reset,
        transitions,
        rewards,
        terminating,
        observation='partially_occluded',
        area=Area((-6, 0), (-3, 3)),
        actions=None,
    ):
        self.name = name
        self.objects = objects
        self.colors = colors
        self.reset = reset
        self.transitions = transitions
        self.rewards = rewards
        self.terminating = terminating
        self.observation = observation
        self.area = area
        self.actions = list(Action) if actions is None else actions

    def build(self):
        reset_function = reset_fs.factory(self.reset[0], **self.reset[1])
        observation_function = observation_fs.factory(
            self.observation, area=self.area
        )
        state = reset_function(rng=np.random.default_rng(0))
        self.state_shape = state.grid.shape
        self.observation_shape = Shape(self.area.height, self.area.width)
        return GridWorld(
            StateSpace(self.state_shape, self.objects, self.colors),
            ActionSpace(list(self.actions)),
            ObservationSpace(self.observation_shape, self.objects, self.colors),
            reset_function,
            chain(*self.transitions),
            observation_function,
            reward_sum(*self.rewards),
            term_any(*self.terminating),
        )


def shipped_like_configs():
    """mirrors of the shipped YAML configurations, plus awkward variants"""
    mem_colors = {Color.RED, Color.GREEN, Color.BLUE, Color.YELLOW}
    return [
        Config(
            'empty.4x4',
            [Wall, Floor, Exit],
            [Color.NONE],
            ('empty', dict(shape=Shape(4, 4))),
            ['move_agent', 'turn_agent'],
            [REACH, GETTING_CLOSER, LIVING],
            ['reach_exit'],
            actions=MOVE_TURN,
        ),
        Config(
            'empty.5x8.random',
            [Wall, Floor, Exit],
            [Color.NONE],
            (
                'empty',
                dict(shape=Shape(5, 8), random_agent=True, random_exit=True),
            ),
            ['move_agent', 'turn_agent'],
            [REACH, GETTING_CLOSER, LIVING],
            ['reach_exit'],
            observation='raytracing',
            area=Area((-2, 0), (-1, 1)),
            actions=MOVE_TURN,
        ),
        Config(
            'four_rooms.7x7',
            [Wall, Floor, Exit],
            [Color.NONE],
            ('rooms', dict(shape=Shape(7, 7), layout=(2, 2))),
            ['move_agent', 'turn_agent'],
            [REACH, GETTING_CLOSER, LIVING],
            ['reach_exit'],
            actions=MOVE_TURN,
        ),
        Config(
            'nine_rooms.10x13',
            [Wall, Floor, Exit],
            [Color.NONE],
            ('rooms', dict(shape=Shape(10, 13), layout=(3, 3))),
            ['move_agent', 'turn_agent'],
            [REACH, GETTING_CLOSER, LIVING],
            ['reach_exit'],
            observation='fully_transparent',
            actions=MOVE_TURN,
        ),
        Config(
            'dynamic_obstacles.5x5',
            [Wall, Floor, Exit, MovingObstacle],
            [Color.NONE],
            (
                'dynamic_obstacles',
                dict(shape=Shape(5, 5), num_obstacles=1, random_agent=False),
            ),
            ['move_agent', 'turn_agent', 'move_obstacles'],
            [
                REACH,
                ('bump_moving_obstacle', dict(reward=-1.0)),
                ('bump_into_wall', dict(reward=-1.0)),
                GETTING_CLOSER,
                LIVING,
            ],
            ['reach_exit', 'bump_moving_obstacle', 'bump_into_wall'],
            actions=MOVE_TURN,
        ),
        Config(
            'dynamic_obstacles.6x9.random',
            [Wall, Floor, Exit, MovingObstacle],
            [Color.NONE],
            (
                'dynamic_obstacles',
                dict(shape=Shape(6, 9), num_obstacles=5, random_agent=True),
            ),
            ['move_agent', 'turn_agent', 'move_obstacles'],
            [
                REACH,
                ('bump_moving_obstacle', dict(reward=-1.0)),
                ('bump_into_wall', dict(reward=-1.0)),
                LIVING,
            ],
            ['reach_exit', 'bump_moving_obstacle', 'bump_into_wall'],
            observation='stochastic_raytracing',
            area=Area((-4, 0), (-2, 2)),
            actions=MOVE_TURN,
        ),
        Config(
            'keydoor.7x7',
            [Wall, Floor, Exit, Door, Key],
            [Color.NONE, Color.YELLOW],
            ('keydoor', dict(shape=Shape(7, 7))),
            ['move_agent', 'turn_agent', 'actuate_door', 'pickndrop'],
            [
                REACH,
                (
                    'pickndrop',
                    dict(object_type=Key, reward_pick=1.0, reward_drop=-1.0),
                ),
                ('actuate_door', dict(reward_open=1.0, reward_close=-1.0)),
                GETTING_CLOSER,
                LIVING,
            ],
            ['reach_exit'],
        ),
        Config(
            'keydoor.5x9',
            [Wall, Floor, Exit, Door, Key],
            [Color.NONE, Color.YELLOW],
            ('keydoor', dict(shape=Shape(5, 9))),
            ['move_agent', 'turn_agent', 'actuate_door', 'pickndrop'],
            [
                REACH,
                (
                    'pickndrop',
                    dict(object_type=Key, reward_pick=1.0, reward_drop=-1.0),
                ),
                ('actuate_door', dict(reward_open=1.0, reward_close=-1.0)),
                LIVING,
            ],
            ['reach_exit'],
            observation='raytracing',
        ),
        Config(
            'crossing.5x5',
            [Wall, Floor, Exit],
            [Color.NONE],
            (
                'crossing',
                dict(shape=Shape(5, 5), num_rivers=1, object_type=Wall),
            ),
            ['move_agent', 'turn_agent'],
            [
                REACH,
                ('bump_into_wall', dict(reward=-1.0)),
                GETTING_CLOSER,
                LIVING,
            ],
            ['reach_exit', 'bump_into_wall'],
            actions=MOVE_TURN,
        ),
        Config(
            'crossing.7x9',
            [Wall, Floor, Exit],
            [Color.NONE],
            (
                'crossing',
                dict(shape=Shape(7, 9), num_rivers=3, object_type=Wall),
            ),
            ['move_agent', 'turn_agent'],
            [REACH, LIVING],
            ['reach_exit'],
            actions=MOVE_TURN,
        ),
        Config(
            'teleport.5x5',
            [Wall, Floor, Exit, Telepod],
            [Color.NONE, Color.RED],
            ('teleport', dict(shape=Shape(5, 5))),
            ['move_agent', 'turn_agent', 'teleport'],
            [REACH, GETTING_CLOSER, LIVING],
            ['reach_exit'],
            actions=MOVE_TURN,
        ),
        Config(
            'teleport.7x7',
            [Wall, Floor, Exit, Telepod],
            [Color.NONE, Color.RED],
            ('teleport', dict(shape=Shape(7, 7))),
            ['move_agent', 'turn_agent', 'teleport'],
            [REACH, GETTING_CLOSER, LIVING],
            ['reach_exit'],
            actions=MOVE_TURN,
        ),
        Config(
            'memory.5x5',
            [Wall, Floor, Exit, Beacon],
            ALL_COLORS,
            ('memory', dict(shape=Shape(5, 5), colors=mem_colors)),
            ['move_agent', 'turn_agent'],
            [
                ('reach_exit_memory', dict(reward_good=5.0, reward_bad=-5.0)),
                LIVING,
            ],
            ['reach_exit'],
            actions=MOVE_TURN,
        ),
        Config(
            'memory.6x9',
            [Wall, Floor, Exit, Beacon],
            ALL_COLORS,
            ('memory', dict(shape=Shape(6, 9), colors=mem_colors)),
            ['move_agent', 'turn_agent'],
            [
                ('reach_exit_memory', dict(reward_good=5.0, reward_bad=-5.0)),
                LIVING,
            ],
            ['reach_exit'],
            actions=MOVE_TURN,
        ),
        Config(
            'memory_four_rooms.7x7',
            [Wall, Floor, Exit, Beacon],
            ALL_COLORS,
            (
                'memory_rooms',
                dict(
                    shape=Shape(7, 7),
                    layout=(2, 2),
                    colors=mem_colors,
                    num_beacons=1,
                    num_exits=2,
                ),
            ),
            ['move_agent', 'turn_agent'],
            [
                ('reach_exit_memory', dict(reward_good=5.0, reward_bad=-5.0)),
                LIVING,
            ],
            ['reach_exit'],
            actions=MOVE_TURN,
        ),
    ]


# --------------------------------------------------------------------------
# the core check of one step
# --------------------------------------------------------------------------


def check_step(env, cfg, state, action, tag):
    before = enc_state(state)
    try:
        next_state, reward, terminal = env.functional_step(state, action)
    except Exception as error:  # pylint: disable=broad-except
        check(False, f'{tag}: step raised {error!r}')
    check(enc_state(state) == before, f'{tag}: input state was modified')
    check(next_state is not state, f'{tag}: next state aliases the input')
    check(
        ref_state_in_space(
            next_state, cfg.state_shape, cfg.objects, cfg.colors
        ),
        f'{tag}: next state not in the state space',
    )
    check(
        env.state_space.contains(next_state) is True,
        f'{tag}: StateSpace.contains rejects the next state',
    )
    check(
        isinstance(reward, float) and math.isfinite(reward),
        f'{tag}: reward {reward!r} is not a finite float',
    )
    check(
        isinstance(terminal, (bool, np.bool_)),
        f'{tag}: terminal {terminal!r} is not boolean',
    )
    return next_state, reward, terminal


def check_observation(env, cfg, state, tag):
    before = enc_state(state)
    try:
        observation = env.functional_observation(state)
    except Exception as error:  # pylint: disable=broad-except
        check(False, f'{tag}: observation raised {error!r}')
    check(enc_state(state) == before, f'{tag}: observation modified the state')
    check(
        ref_observation_in_space(
            observation, cfg.observation_shape, cfg.objects, cfg.colors
        ),
        f'{tag}: observation not in the observation space',
    )
    check(
        env.observation_space.contains(observation) is True,
        f'{tag}: ObservationSpace.contains rejects the observation',
    )
    check(
        enc_obj(observation.agent.grid_object)
        == enc_obj(state.agent.grid_object),
        f'{tag}: observed held item differs',
    )
    return observation


FOREIGN_ACTIONS = [None, 0, 7, -1, 'MOVE_FORWARD', 3.5, (Action.ACTUATE,), object]


def rng_state(env):
    # pylint: disable=protected-access
    return None if env._rng is None else repr(env._rng.bit_generator.state)


def check_rejections(env, cfg, tag):
    """foreign actions -> ValueError, and nothing at all has changed"""
    foreign = list(FOREIGN_ACTIONS) + [
        a for a in Action if a not in cfg.actions
    ]
    for action in foreign:
        state = env.state
        state_before = enc_state(state)
        # pylint: disable=protected-access
        observation_before = env._observation
        rng_before = rng_state(env)
        for call in (
            lambda: env.step(action),
            lambda: env.functional_step(env.state, action),
        ):
            try:
                call()
            except ValueError as error:
                check(
                    'action' in str(error),
                    f'{tag}: unexpected message {error}',
                )
            except Exception as error:  # pylint: disable=broad-except
                check(False, f'{tag}: {action!r} raised {error!r}')
            else:
                check(False, f'{tag}: foreign action {action!r} accepted')
        check(env.state is state, f'{tag}: state replaced after rejection')
        check(
            enc_state(env.state) == state_before,
            f'{tag}: state changed after rejection',
        )
        check(
            env._observation is observation_before,
            f'{tag}: memoized observation dropped after rejection',
        )
        check(rng_state(env) == rng_before, f'{tag}: rng advanced')


# --------------------------------------------------------------------------
# part 1: roll-outs in the shipped-like configurations (+ golden digest)
# --------------------------------------------------------------------------


def rollouts(debug):
    reset_gv_debug(debug)
    digest = hashlib.sha256()
    for cfg in shipped_like_configs():
        env = cfg.build()
        check(
            [env.action_space.int_to_action(i) for i in range(len(cfg.actions))]
            == cfg.actions,
            f'{cfg.name}: action space order',
        )
        for seed in (0, 1, 2):
            env.set_seed(seed)
            driver = np.random.default_rng(1000 + seed)
            env.reset()
            tag = f'{cfg.name}/debug={debug}/seed={seed}'
            check(
                ref_state_in_space(
                    env.state, cfg.state_shape, cfg.objects, cfg.colors
                ),
                f'{tag}: reset state not in space',
            )
            for t in range(40):
                observation = check_observation(env, cfg, env.state, tag)
                check(
                    env.observation is env.observation,
                    f'{tag}: observation not memoized',
                )
                if t % 13 == 0:
                    check_rejections(env, cfg, tag)
                action = cfg.actions[driver.integers(len(cfg.actions))]
                state = env.state
                # functional step on a copy of the env rng: must agree with
                # the stateful step that follows
                # pylint: disable=protected-access
                saved = fast_copy(env._rng)
                expected = check_step(env, cfg, state, action, tag)
                env._rng = saved
                reward, terminal = env.step(action)
                check(
                    enc_state(env.state) == enc_state(expected[0])
                    and reward == expected[1]
                    and bool(terminal) == bool(expected[2]),
                    f'{tag}: step and functional_step disagree',
                )
                digest.update(
                    repr(
                        (
                            cfg.name,
                            seed,
                            t,
                            action.name,
                            enc_state(env.state),
                            round(reward, 9),
                            bool(terminal),
                            enc_grid(observation.grid),
                            enc_agent(observation.agent),
                        )
                    ).encode()
                )
                if terminal:
                    env.reset()
    return digest.hexdigest()


# --------------------------------------------------------------------------
# part 2: hand-built awkward states x all actions x all orientations
# --------------------------------------------------------------------------

KITCHEN_OBJECTS = [
    Wall,
    Floor,
    Exit,
    Door,
    Key,
    MovingObstacle,
    Box,
    Telepod,
    Beacon,
]


def kitchen_grids():
    """non-square grids without a wall boundary, any mix of objects"""
    yield 'floor.1x1', Grid.from_shape((1, 1))
    yield 'floor.1x4', Grid.from_shape((1, 4))
    yield 'floor.3x1', Grid.from_shape((3, 1))
    yield 'walls.2x3', Grid.from_shape((2, 3), factory=Wall)

    grid = Grid.from_shape((3, 5))
    grid[0, 0] = Exit()
    grid[0, 1] = Key(Color.YELLOW)
    grid[0, 2] = Door(Door.Status.LOCKED, Color.YELLOW)
    grid[0, 3] = Door(Door.Status.CLOSED, Color.BLUE)
    grid[0, 4] = Door(Door.Status.OPEN, Color.NONE)
    grid[1, 0] = Telepod(Color.RED)  # unpaired
    grid[1, 2] = Box(Key(Color.GREEN))
    grid[1, 4] = MovingObstacle()
    grid[2, 0] = Box(Box(Floor()))
    grid[2, 1] = Telepod(Color.GREEN)
    grid[2, 3] = Telepod(Color.GREEN)
    grid[2, 4] = Beacon(Color.BLUE)
    yield 'mix.3x5', grid

    grid = Grid.from_shape((4, 2))
    grid[0, 0] = Telepod(Color.NONE)
    grid[3, 1] = Telepod(Color.NONE)
    grid[1, 1] = Key(Color.NONE)
    grid[2, 0] = MovingObstacle()
    grid[3, 0] = Wall()
    yield 'mix.4x2', grid


def kitchen_env(shape, observation, area):
    cfg = Config(
        'kitchen',
        KITCHEN_OBJECTS,
        ALL_COLORS,
        None,
        [
            'move_agent',
            'turn_agent',
            'actuate_door',
            'actuate_box',
            'pickndrop',
            'teleport',
            'move_obstacles',
        ],
        [
            LIVING,
            ('bump_moving_obstacle', dict(reward=-1.0)),
            ('bump_into_wall', dict(reward=-1.0)),
            ('actuate_door', dict(reward_open=1.0, reward_close=-1.0)),
            (
                'pickndrop',
                dict(object_type=Key, reward_pick=1.0, reward_drop=-1.0),
            ),
            ('overlap', dict(object_type=Telepod, reward_on=0.5)),
            REACH,
        ],
        ['reach_exit', 'bump_moving_obstacle', 'bump_into_wall'],
        observation=observation,
        area=area,
    )
    cfg.state_shape = shape
    cfg.observation_shape = Shape(area.height, area.width)
    env = GridWorld(
        StateSpace(shape, cfg.objects, cfg.colors),
        ActionSpace(list(Action)),
        ObservationSpace(cfg.observation_shape, cfg.objects, cfg.colors),
        lambda *, rng=None: None,
        chain(*cfg.transitions),
        observation_fs.factory(observation, area=area),
        reward_sum(*cfg.rewards),
        term_any(*cfg.terminating),
    )
    return cfg, env


def kitchen_sink(debug):
    reset_gv_debug(debug)
    digest = hashlib.sha256()
    held_items = [None, Key(Color.YELLOW), Key(Color.NONE), Key(Color.RED)]
    views = [
        ('partially_occluded', Area((-6, 0), (-3, 3))),
        ('fully_transparent', Area((-1, 0), (0, 0))),  # 2x1
        ('raytracing', Area((-2, 1), (-1, 1))),  # agent not on the last row
        ('stochastic_raytracing', Area((0, 0), (-2, 2))),  # 1x5
    ]
    for (name, grid), (k, (observation, area)) in itertools.product(
        kitchen_grids(), enumerate(views)
    ):
        cfg, env = kitchen_env(grid.shape, observation, area)
        env.set_seed(17)
        for position in grid.area.positions():
            if grid[position].blocks_movement and name != 'walls.2x3':
                continue
            for orientation in Orientation:
                held = held_items[
                    (position.y + position.x + orientation.value + k)
                    % len(held_items)
                ]
                for action in Action:
                    state = State(
                        fast_copy(grid),
                        Agent(position, orientation, fast_copy(held)),
                    )
                    key = (
                        f'{name}/{observation}/{position.y},{position.x}'
                        f'/{orientation.name}/{action.name}'
                    )
                    tag = f'{key}/debug={debug}'
                    check(
                        ref_state_in_space(
                            state, cfg.state_shape, cfg.objects, cfg.colors
                        ),
                        f'{tag}: scenario outside the state space',
                    )
                    next_state, reward, terminal = check_step(
                        env, cfg, state, action, tag
                    )
                    check_observation(env, cfg, next_state, tag)
                    digest.update(
                        repr(
                            (
                                key,
                                enc_state(next_state),
                                round(reward, 9),
                                bool(terminal),
                            )
                        ).encode()
                    )
                    for foreign in FOREIGN_ACTIONS:
                        before = enc_state(state)
                        # pylint: disable=protected-access
                        rng_before = rng_state(env)
                        try:
                            env.functional_step(state, foreign)
                        except ValueError:
                            pass
                        except Exception as error:  # noqa
                            check(False, f'{tag}: {foreign!r} -> {error!r}')
                        else:
                            check(False, f'{tag}: {foreign!r} accepted')
                        check(
                            enc_state(state) == before
                            and rng_state(env) == rng_before,
                            f'{tag}: rejection had a side effect',
                        )
    return digest.hexdigest()


# --------------------------------------------------------------------------
# part 3: the membership predicates accept exactly the conforming states
# --------------------------------------------------------------------------


def membership():
    shape = Shape(3, 4)
    objects = [Wall, Floor, Key, Door]
    colors = [Color.RED, Color.YELLOW]
    state_space = StateSpace(shape, objects, colors)
    observation_space = ObservationSpace(Shape(3, 5), objects, colors)

    def mk(grid=None, position=Position(1, 1), held=None):
        grid = Grid.from_shape((3, 4)) if grid is None else grid
        return State(grid, Agent(position, Orientation.B, held))

    cases = []
    cases.append(mk())
    cases.append(mk(held=Key(Color.RED)))
    cases.append(mk(held=Key(Color.NONE)))
    cases.append(mk(held=Key(Color.BLUE)))  # undeclared colour
    cases.append(mk(held=Exit()))  # undeclared type
    cases.append(mk(held=Hidden()))  # Hidden is never held
    cases.append(mk(grid=Grid.from_shape((4, 3))))  # transposed shape
    cases.append(mk(grid=Grid.from_shape((3, 5))))
    for position in [
        Position(0, 0),
        Position(2, 3),
        Position(-1, 0),
        Position(0, -1),
        Position(3, 0),
        Position(0, 4),
        Position(2, 4),
    ]:
        cases.append(mk(position=position))
    for obj in [
        Wall(),
        Key(Color.YELLOW),
        Key(Color.GREEN),
        Door(Door.Status.LOCKED, Color.RED),
        Door(Door.Status.OPEN, Color.BLUE),
        Exit(),
        Hidden(),
        NoneGridObject(),
        Telepod(Color.RED),
    ]:
        for yx in [(0, 0), (2, 3), (1, 2)]:
            grid = Grid.from_shape((3, 4))
            grid[yx] = obj
            cases.append(mk(grid=grid))

    accepted = 0
    for i, state in enumerate(cases):
        expected = ref_state_in_space(state, shape, objects, colors)
        accepted += expected
        check(
            state_space.contains(state) == expected,
            f'membership: state case {i} expected {expected}',
        )
    check(0 < accepted < len(cases), 'membership: degenerate state cases')

    from gym_gridverse.observation import Observation

    def mko(grid=None, position=Position(2, 2), held=None):
        grid = Grid.from_shape((3, 5)) if grid is None else grid
        return Observation(grid, Agent(position, Orientation.F, held))

    ocases = [
        mko(),
        mko(held=Key(Color.YELLOW)),
        mko(held=Key(Color.GREEN)),
        mko(held=Hidden()),
        mko(held=Exit()),
        mko(grid=Grid.from_shape((5, 3))),
        mko(grid=Grid.from_shape((3, 4))),
        mko(position=Position(3, 2)),
        mko(position=Position(2, 5)),
        mko(position=Position(-1, 2)),
        mko(position=Position(0, 0)),
    ]
    for obj in [
        Hidden(),
        Wall(),
        Key(Color.RED),
        Key(Color.BLUE),
        Exit(),
        NoneGridObject(),
        Door(Door.Status.CLOSED, Color.YELLOW),
    ]:
        for yx in [(0, 0), (2, 4)]:
            grid = Grid.from_shape((3, 5))
            grid[yx] = obj
            ocases.append(mko(grid=grid))
    accepted = 0
    for i, observation in enumerate(ocases):
        expected = ref_observation_in_space(
            observation, Shape(3, 5), objects, colors
        )
        accepted += expected
        check(
            observation_space.contains(observation) == expected,
            f'membership: observation case {i} expected {expected}',
        )
    check(0 < accepted < len(ocases), 'membership: degenerate obs cases')

    # the action space
    action_space = ActionSpace(MOVE_TURN)
    for action in Action:
        check(
            action_space.contains(action) == (action in MOVE_TURN),
            f'membership: action {action}',
        )
    check(action_space.num_actions == 6, 'membership: num_actions')


# --------------------------------------------------------------------------
# part 4 (specific to change A): what exactly happens on rejection
# --------------------------------------------------------------------------


def rejection_details():
    """Order of validation and absence of side effects.

    * valid state, foreign action: ValueError whatever the debug flag;
    * invalid state *and* foreign action: ValueError whatever the debug flag
      (pristine: the state is blamed in debug mode; patched: the action is);
    * invalid state, valid action, debug mode: ValueError;
    * an environment that was never reset reports RuntimeError from
      `step`, foreign action or not (the state is looked up first);
    * the transition / reward / termination / observation functions are not
      invoked at all for a rejected action.
    """
    calls = []

    def spy_transition(state, action, *, rng=None):
        calls.append('transition')

    def spy_reward(state, action, next_state, *, rng=None):
        calls.append('reward')
        return 0.0

    def spy_terminating(state, action, next_state, *, rng=None):
        calls.append('terminating')
        return False

    def spy_observation(state, *, rng=None):
        calls.append('observation')
        raise AssertionError('unreachable')

    def spy_reset(*, rng=None):
        calls.append('reset')
        return State(
            Grid.from_shape((2, 3)), Agent(Position(0, 0), Orientation.F)
        )

    for debug in (True, False):
        reset_gv_debug(debug)
        del calls[:]
        env = GridWorld(
            StateSpace(Shape(2, 3), [Floor], [Color.NONE]),
            ActionSpace([Action.TURN_LEFT, Action.MOVE_FORWARD]),
            ObservationSpace(Shape(3, 3), [Floor], [Color.NONE]),
            spy_reset,
            spy_transition,
            spy_observation,
            spy_reward,
            spy_terminating,
        )
        for action in (Action.ACTUATE, Action.TURN_LEFT, None):
            try:
                env.step(action)
            except RuntimeError:
                pass
            else:
                check(False, 'step before reset must raise RuntimeError')
        check(calls == [], f'spies called before reset: {calls}')

        env.set_seed(3)
        env.reset()
        check(calls == ['reset'], f'reset spy: {calls}')
        del calls[:]
        good = env.state
        bad = State(
            Grid.from_shape((3, 2)), Agent(Position(0, 0), Orientation.F)
        )
        for state, action, should_raise in [
            (good, Action.ACTUATE, True),
            (good, Action.PICK_N_DROP, True),
            (good, 1, True),
            (good, None, True),
            (bad, Action.ACTUATE, True),
            (bad, None, True),
            (bad, Action.TURN_LEFT, debug),
            (good, Action.TURN_LEFT, False),
            (good, Action.MOVE_FORWARD, False),
        ]:
            del calls[:]
            rng_before = rng_state(env)
            raised = None
            try:
                result = env.functional_step(state, action)
            except ValueError as error:
                raised = error
            check(
                (raised is not None) == should_raise,
                f'details: debug={debug} {action!r}: raised={raised!r}',
            )
            if should_raise:
                check(calls == [], f'details: spies ran on rejection: {calls}')
                check(rng_state(env) == rng_before, 'details: rng advanced')
                check(env.state is good, 'details: env state replaced')
            else:
                check(
                    calls == ['transition', 'reward', 'terminating'],
                    f'details: order of calls {calls}',
                )
                check(
                    result[1] == 0.0 and result[2] is False,
                    'details: result of legal step',
                )
            if raised is not None and state is good:
                # the message is about the action (pristine prints the
                # literal placeholder, the patched tree the action itself)
                check(
                    'action' in str(raised) and 'action-space' in str(raised),
                    f'details: message {raised}',
                )
    reset_gv_debug(True)


# computed on the pristine tree (numpy generator streams are version-stable)
GOLDEN_ROLLOUTS = (
    '122194fadecdb955d70fd864c75bdf9d5c0816a17eaef0adab31f301b67fb581'
)
GOLDEN_KITCHEN = (
    '12a996af21b06d537623895c4acaea32ac4c99d6044288a5e1baff7ce96eab4f'
)


def main():
    digests = {}
    for debug in (True, False):
        digests['rollouts', debug] = rollouts(debug)
        digests['kitchen', debug] = kitchen_sink(debug)
    check(
        digests['rollouts', True] == digests['rollouts', False],
        'debug flag changed the roll-outs',
    )
    check(
        digests['kitchen', True] == digests['kitchen', False],
        'debug flag changed the kitchen-sink results',
    )
    reset_gv_debug(True)
    membership()
    rejection_details()

    print('rollouts digest:', digests['rollouts', True])
    print('kitchen digest :', digests['kitchen', True])
    if GOLDEN_ROLLOUTS is not None:
        check(
            digests['rollouts', True] == GOLDEN_ROLLOUTS,
            'roll-outs differ from the golden digest',
        )
    if GOLDEN_KITCHEN is not None:
        check(
            digests['kitchen', True] == GOLDEN_KITCHEN,
            'kitchen-sink results differ from the golden digest',
        )
    print(f'OK ({CHECKS} checks)')


if __name__ == '__main__':
    main()
