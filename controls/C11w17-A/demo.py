"""C11 demo for change A (transition_functions.factory): exits 0 with and without the patch.

Run from the worktree root:  /venv/bin/python _seed/A/demo.py
"""
import os
import sys

sys.path.insert(0, os.getcwd())

import itertools
import sys

import numpy.random as rnd

from gym_gridverse.action import Action
from gym_gridverse.geometry import Orientation, Position
from gym_gridverse.grid import Grid
from gym_gridverse.agent import Agent
from gym_gridverse.grid_object import (
    Color,
    Exit,
    Floor,
    Key,
    MovingObstacle,
    Telepod,
    Wall,
)
from gym_gridverse.state import State

CHECKS = 0


def check(condition, *message):
    global CHECKS
    CHECKS += 1
    if not condition:
        print('FAILED:', *message)
        sys.exit(1)


# --------------------------------------------------------------------------
# scenarios
# --------------------------------------------------------------------------

_TELEPOD_COLORS = {
    'r': Color.RED,
    'g': Color.GREEN,
    'b': Color.BLUE,
    'y': Color.YELLOW,
    'n': Color.NONE,
}


def make_grid(rows):
    def make_object(c):
        if c == '.':
            return Floor()
        if c == '#':
            return Wall()
        if c == 'O':
            return MovingObstacle()
        if c == 'E':
            return Exit()
        if c == 'K':
            return Key(Color.RED)
        return Telepod(_TELEPOD_COLORS[c])

    return Grid([[make_object(c) for c in row] for row in rows])


MAPS = [
    # degenerate shapes
    ['O'],
    ['.'],
    ['r'],
    ['n'],
    ['O.O'],
    ['.O.'],
    ['.OO'],
    ['OO.'],
    ['OO.OO'],
    ['rOr'],
    ['O', '.', 'O'],
    ['.', 'O', 'O', '.'],
    ['n', '.', 'n', 'O', 'n'],
    # everything is an obstacle:  nobody can move
    ['OO', 'OO'],
    # obstacle in each corner, non-square
    ['O.O', '...', '...', 'O.O'],
    ['O..O', '....', 'O..O'],
    # obstacle walled in by non-floor objects of every kind
    ['#E#', 'KOr', '#n#'],
    # exactly one free neighbour, on each side
    ['#.#', '#O#', '###'],
    ['###', '#O.', '###'],
    ['###', '#O#', '#.#'],
    ['###', '.O#', '###'],
    # moving one obstacle frees / takes the cell of another one
    ['O.O.', '.O.O'],
    ['.OOO.'],
    # telepods:  pairs, triples, lonely ones, colour NONE, on borders/corners
    ['r..r'],
    ['r.g', '...', 'g.r'],
    ['rr', 'rr'],
    ['n.n', '.g.', 'n.r'],
    ['r.b.r', '.y.y.', 'r.b.n'],
    # both together
    ['rO.r', 'O.#.', 'n.On'],
    ['gO', 'Or', '.g', 'rO', 'n.'],
    ['O.r#', '.OO.', 'r.gn'],
]


def all_positions(grid):
    return [
        Position(y, x)
        for y in range(grid.shape.height)
        for x in range(grid.shape.width)
    ]


def snapshot(state):
    """identity-level description of a state"""
    return (
        tuple(
            tuple(id(obj) for obj in row) for row in state.grid.objects
        ),
        state.agent.position.yx,
        state.agent.orientation,
        id(state.agent.grid_object),
    )


def describe(state):
    """value-level description of a state"""
    return (
        tuple(
            tuple(
                (type(obj).__name__, obj.color.name, obj.state_index)
                for obj in row
            )
            for row in state.grid.objects
        ),
        state.agent.position.yx,
        state.agent.orientation.name,
        type(state.agent.grid_object).__name__,
    )


# --------------------------------------------------------------------------
# random outcomes:  a scripted generator which enumerates every resolution
# --------------------------------------------------------------------------


class ScriptedRng:
    """Stand-in for numpy's Generator:  `choice(n)` follows a script.

    Mimics `Generator.choice(0)`, which raises ValueError.  Records the
    number of alternatives of every choice, so that all scripts can be
    enumerated.
    """

    def __init__(self, script=()):
        self.script = list(script)
        self.sizes = []

    def choice(self, n):
        if n <= 0:
            raise ValueError(
                'a must be a positive integer unless no samples are taken'
            )
        k = len(self.sizes)
        self.sizes.append(n)
        i = self.script[k] if k < len(self.script) else 0
        assert 0 <= i < n
        return i


def all_scripts(run):
    """Calls run(rng) for every resolution of every random choice.

    Yields (script, sizes, result of run).
    """
    pending = [()]
    seen = set()
    while pending:
        script = pending.pop()
        rng = ScriptedRng(script)
        result = run(rng)
        sizes = tuple(rng.sizes)
        full = tuple(script) + (0,) * (len(sizes) - len(script))
        full = full[: len(sizes)]
        if full in seen:
            continue
        seen.add(full)
        yield full, sizes, result
        # branch on every choice made beyond the given prefix
        for k in range(len(script), len(sizes)):
            for i in range(1, sizes[k]):
                pending.append(full[:k] + (i,))


# --------------------------------------------------------------------------
# reference implementations (written independently from the library),
# asserting the property at every turn
# --------------------------------------------------------------------------


def ref_move_obstacles(state, rng):
    objects = state.grid.objects
    height, width = len(objects), len(objects[0])

    before = [row[:] for row in objects]
    obstacles = [
        (y, x)
        for y in range(height)
        for x in range(width)
        if type(objects[y][x]) is MovingObstacle
    ]
    moved = set()

    for y, x in obstacles:
        obstacle = objects[y][x]
        check(type(obstacle) is MovingObstacle, 'obstacle was displaced')
        check(id(obstacle) not in moved, 'obstacle moved twice')
        # up, right, down, left
        free = [
            (ny, nx)
            for ny, nx in [(y - 1, x), (y, x + 1), (y + 1, x), (y, x - 1)]
            if 0 <= ny < height
            and 0 <= nx < width
            and type(objects[ny][nx]) is Floor
        ]
        if not free:
            continue  # stays, and only then
        ny, nx = free[rng.choice(len(free))]
        objects[y][x], objects[ny][nx] = objects[ny][nx], objects[y][x]
        moved.add(id(obstacle))

    # nothing lost, nothing duplicated, everything else stays
    ids_before = sorted(id(obj) for row in before for obj in row)
    ids_after = sorted(id(obj) for row in objects for obj in row)
    check(ids_before == ids_after, 'objects lost or duplicated')
    for y in range(height):
        for x in range(width):
            if type(before[y][x]) not in (MovingObstacle, Floor):
                check(before[y][x] is objects[y][x], 'static object moved')


def ref_teleport(state, rng):
    objects = state.grid.objects
    ay, ax = state.agent.position.yx
    pod = objects[ay][ax]
    if type(pod) is not Telepod:
        return
    others = [
        (y, x)
        for y, row in enumerate(objects)
        for x, obj in enumerate(row)
        if (y, x) != (ay, ax)
        and type(obj) is Telepod
        and obj.color is pod.color
    ]
    if not others:
        return
    y, x = others[rng.choice(len(others))]
    state.agent.position = Position(y, x)


REFERENCES = {
    'move_obstacles': ref_move_obstacles,
    'teleport': ref_teleport,
}


def ref_chain(names):
    def run(state, rng):
        for name in names:
            REFERENCES[name](state, rng)

    return run


def twin_states(rows, position, orientation):
    """two states sharing the very same grid objects (compared by identity)"""
    grid = make_grid(rows)
    twin = Grid([row[:] for row in grid.objects])
    held = Key(Color.BLUE)
    return (
        State(grid, Agent(position, orientation, held)),
        State(twin, Agent(position, orientation, held)),
    )


def check_dynamics_exhaustively(label, function, names, *, actions, poses):
    """`function` (library) against the references `names`, for all outcomes

    Checks equality with the reference for every resolution of the random
    choices, that every alternative of every choice leads to a distinct
    destination, and the telepod part of the property on the agent.
    """
    reference = ref_chain(names)

    for rows in MAPS:
        grid = make_grid(rows)
        positions = all_positions(grid)
        for position, orientation in poses(positions):
            for action in actions:

                def run(rng):
                    state, twin = twin_states(rows, position, orientation)
                    check(
                        function(state, action, rng=rng) is None,
                        'transition functions return None',
                    )
                    twin_rng = ScriptedRng(rng.script)
                    reference(twin, twin_rng)
                    check(
                        rng.sizes == twin_rng.sizes,
                        label,
                        rows,
                        'random choices differ',
                        rng.sizes,
                        twin_rng.sizes,
                    )
                    check(
                        snapshot(state) == snapshot(twin),
                        label,
                        rows,
                        position,
                        action,
                        rng.script,
                        'differs from reference',
                    )
                    return state

                outcomes = {}
                for script, sizes, state in all_scripts(run):
                    check(script not in outcomes, 'script enumerated twice')
                    outcomes[script] = sizes, snapshot(state)

                    # agent:  displaced only by teleportation
                    if 'teleport' not in names:
                        check(
                            state.agent.position == position,
                            'agent displaced without teleport',
                        )
                    check(state.agent.orientation is orientation)

                # the enumeration is complete:  every alternative of every
                # random choice (each free neighbour, each partner telepod)
                # has been taken ...
                for script, (sizes, _) in outcomes.items():
                    for k, size in enumerate(sizes):
                        for i in range(size):
                            check(
                                any(
                                    other[: k + 1] == script[:k] + (i,)
                                    for other in outcomes
                                ),
                                label,
                                rows,
                                'alternative not enumerated',
                            )
                # ... and leads somewhere else
                snaps = [snap for _, snap in outcomes.values()]
                check(
                    len(set(snaps)) == len(snaps),
                    label,
                    rows,
                    position,
                    'alternatives collapse',
                )


def check_teleport_property(function):
    """direct statement of the telepod part of the property"""
    for rows in MAPS:
        grid = make_grid(rows)
        for position in all_positions(grid):
            here = grid[position]
            partners = {
                p.yx
                for p in all_positions(grid)
                if p != position
                and isinstance(here, Telepod)
                and isinstance(grid[p], Telepod)
                and grid[p].color == here.color
            }
            for orientation in Orientation:

                def run(rng):
                    state = State(
                        make_grid(rows), Agent(position, orientation)
                    )
                    function(state, Action.ACTUATE, rng=rng)
                    return state.agent.position.yx

                reached = {yx for _, _, yx in all_scripts(run)}
                if partners:
                    check(reached == partners, rows, position, reached)
                else:
                    check(reached == {position.yx}, rows, position, reached)


def check_obstacles_property(function):
    """direct statement of the obstacle part, for single obstacles' turns"""
    for rows in MAPS:
        grid = make_grid(rows)
        obstacles = [
            p for p in all_positions(grid) if isinstance(grid[p], MovingObstacle)
        ]
        if not obstacles:
            continue
        first = obstacles[0]
        free = {
            (first.y + dy, first.x + dx)
            for dy, dx in [(-1, 0), (0, 1), (1, 0), (0, -1)]
            if grid.area.contains(Position(first.y + dy, first.x + dx))
            and isinstance(grid[first.y + dy, first.x + dx], Floor)
        }

        def run(rng):
            state = State(
                make_grid(rows), Agent(Position(0, 0), Orientation.F)
            )
            obstacle = state.grid[first]
            function(state, Action.MOVE_LEFT, rng=rng)
            count = sum(
                isinstance(state.grid[p], MovingObstacle)
                for p in all_positions(state.grid)
            )
            check(count == len(obstacles), rows, 'obstacle count changed')
            (where,) = [
                p.yx
                for p in all_positions(state.grid)
                if state.grid[p] is obstacle
            ]
            return where

        reached = {yx for _, _, yx in all_scripts(run)}
        # NOTE a later obstacle never moves the first one (it only swaps with
        # floors), so the final place of the first obstacle is its destination
        check(
            reached == (free or {first.yx}),
            rows,
            'destinations of first obstacle',
            reached,
            free,
        )


def check_seeded(label, function, names, seeds, *, steps=6):
    """real numpy generators:  same results and same stream consumption"""
    reference = ref_chain(names)
    actions = list(Action)
    for rows in MAPS:
        grid = make_grid(rows)
        positions = all_positions(grid)
        for seed in seeds:
            position = positions[seed % len(positions)]
            orientation = list(Orientation)[seed % 4]
            state, twin = twin_states(rows, position, orientation)
            rng, twin_rng = rnd.default_rng(seed), rnd.default_rng(seed)
            for step in range(steps):
                action = actions[(seed + step) % len(actions)]
                function(state, action, rng=rng)
                reference(twin, twin_rng)
                check(
                    snapshot(state) == snapshot(twin),
                    label,
                    rows,
                    seed,
                    step,
                    'seeded run differs from reference',
                )
                check(
                    rng.bit_generator.state == twin_rng.bit_generator.state,
                    label,
                    rows,
                    seed,
                    'random stream consumed differently',
                )


def all_poses(positions):
    return itertools.product(
        positions,
        [Orientation.F, Orientation.B, Orientation.L, Orientation.R],
    )


def corner_poses(positions):
    """first and last position (corners), one heading each + all four once"""
    yield positions[0], Orientation.F
    yield positions[-1], Orientation.R
    yield positions[len(positions) // 2], Orientation.B
    yield positions[len(positions) // 2], Orientation.L


# ==========================================================================
# change A:  transition_functions.factory (and what it builds with chain)
# ==========================================================================

import functools

from gym_gridverse.envs import transition_functions as tf
from gym_gridverse.rng import make_rng, reset_gv_rng


def expect_value_error(message, f, *args, **kwargs):
    try:
        f(*args, **kwargs)
    except ValueError as error:
        check(str(error) == message, 'error message', str(error), message)
    else:
        check(False, 'ValueError expected:', message)


# -- what factory returns ---------------------------------------------------

for name in [
    'move_agent',
    'turn_agent',
    'pickndrop',
    'move_obstacles',
    'actuate_door',
    'actuate_box',
    'teleport',
]:
    for kwargs in [{}, {'foo': 1}, {'rng': 3, 'state': 4, 'action': 5}]:
        f = tf.factory(name, **kwargs)
        check(type(f) is functools.partial, name)
        check(f.func is tf.transition_function_registry[name], name)
        check(f.func is getattr(tf, name), name)
        check(f.args == () and f.keywords == {}, name, f.keywords)

parts = [tf.factory('move_obstacles'), tf.factory('teleport')]
f = tf.factory('chain', transition_functions=parts, rng=1, bar=2)
check(type(f) is functools.partial and f.func is tf.chain and f.args == ())
check(list(f.keywords) == ['transition_functions'])
check(f.keywords['transition_functions'] is parts)

expect_value_error(
    'missing keyword argument `transition_functions`', tf.factory, 'chain'
)
expect_value_error(
    'missing keyword argument `transition_functions`',
    tf.factory,
    'chain',
    transition_function=parts,
    rng=None,
)
expect_value_error('invalid transition function name nope', tf.factory, 'nope')
expect_value_error('invalid transition function name ', tf.factory, '')
expect_value_error(
    'invalid transition function name factory', tf.factory, 'factory'
)

# several required and optional parameters:  order of the checks, selection
_calls = []


def _c11_demo_many(state, action, *, b, a, c=3, d=4, rng=None):
    _calls.append(('many', state, action, b, a, c, d, rng))


def _c11_demo_positional(state, action, extra, other=7, rng=None):
    _calls.append(('positional', state, action, extra, other, rng))


for function in [_c11_demo_many, _c11_demo_positional]:
    if function.__name__ not in tf.transition_function_registry:
        tf.transition_function_registry.register(function)

expect_value_error('missing keyword argument `b`', tf.factory, '_c11_demo_many')
expect_value_error(
    'missing keyword argument `b`', tf.factory, '_c11_demo_many', a=1, c=1, d=1
)
expect_value_error(
    'missing keyword argument `a`', tf.factory, '_c11_demo_many', b=1, c=1, d=1
)
f = tf.factory('_c11_demo_many', d=0, a=1, z=9, b=2, rng=5, state=6)
check(f.func is _c11_demo_many)
check(list(f.keywords.items()) == [('d', 0), ('a', 1), ('b', 2)], f.keywords)
f = tf.factory('_c11_demo_many', a=None, b=None)
check(list(f.keywords.items()) == [('a', None), ('b', None)], f.keywords)
f('S', 'A', rng='R')
check(_calls.pop() == ('many', 'S', 'A', None, None, 3, 4, 'R'))
check(not _calls)

expect_value_error(
    'missing keyword argument `extra`', tf.factory, '_c11_demo_positional'
)
expect_value_error(
    'missing keyword argument `extra`',
    tf.factory,
    '_c11_demo_positional',
    other=1,
)
f = tf.factory('_c11_demo_positional', other=1, extra=2)
check(list(f.keywords.items()) == [('other', 1), ('extra', 2)], f.keywords)
f('S', 'A')
check(_calls.pop() == ('positional', 'S', 'A', 2, 1, None))

# factory does not keep anything between calls:  repeated calls, same result
for _ in range(3):
    g = tf.factory('chain', transition_functions=parts)
    check(g.func is tf.chain and g.keywords == {'transition_functions': parts})
    check(g is not f)

# -- chain runs every part exactly once, in order, with the given arguments --


def recorder(log, tag):
    def part(state, action, *, rng=None):
        log.append((tag, state, action, rng))

    return part


for n in [0, 1, 2, 5]:
    for container in [list, tuple]:
        log = []
        chained = tf.factory(
            'chain',
            transition_functions=container(recorder(log, i) for i in range(n)),
        )
        for rng in [None, make_rng(3), ScriptedRng()]:
            del log[:]
            state = State(make_grid(['.']), Agent(Position(0, 0), Orientation.F))
            check(chained(state, Action.ACTUATE, rng=rng) is None)
            check(len(log) == n)
            for i, (tag, state_, action_, rng_) in enumerate(log):
                check(tag == i and state_ is state and rng_ is rng)
                check(action_ is Action.ACTUATE)

# nested chains flatten in order
log = []
nested = tf.factory(
    'chain',
    transition_functions=[
        recorder(log, 'a'),
        tf.factory(
            'chain',
            transition_functions=[
                recorder(log, 'b'),
                tf.factory('chain', transition_functions=[]),
                recorder(log, 'c'),
            ],
        ),
        recorder(log, 'd'),
    ],
)
rng = make_rng(0)
nested(None, Action.TURN_LEFT, rng=rng)
check([entry[0] for entry in log] == ['a', 'b', 'c', 'd'])
check(all(entry[3] is rng for entry in log))

# -- the property, on what factory builds ------------------------------------

move_obstacles = tf.factory('move_obstacles')
teleport = tf.factory('teleport', unused='ignored')
both = tf.factory('chain', transition_functions=[move_obstacles, teleport])
both_reversed = tf.factory(
    'chain',
    transition_functions=(
        tf.factory('chain', transition_functions=[tf.factory('teleport')]),
        tf.factory('chain', transition_functions=()),
        tf.factory('move_obstacles'),
    ),
)

check_obstacles_property(move_obstacles)
check_obstacles_property(both)
check_teleport_property(teleport)
check_teleport_property(both_reversed)

check_dynamics_exhaustively(
    'move_obstacles',
    move_obstacles,
    ['move_obstacles'],
    actions=list(Action),
    poses=corner_poses,
)
check_dynamics_exhaustively(
    'teleport',
    teleport,
    ['teleport'],
    actions=[Action.MOVE_FORWARD, Action.TURN_RIGHT, Action.PICK_N_DROP],
    poses=all_poses,
)
check_dynamics_exhaustively(
    'chain(move_obstacles, teleport)',
    both,
    ['move_obstacles', 'teleport'],
    actions=[Action.MOVE_BACKWARD, Action.ACTUATE],
    poses=lambda positions: [(p, Orientation.L) for p in positions],
)
check_dynamics_exhaustively(
    'chain(chain(teleport), chain(), move_obstacles)',
    both_reversed,
    ['teleport', 'move_obstacles'],
    actions=[Action.MOVE_LEFT],
    poses=lambda positions: [(p, Orientation.B) for p in positions],
)

seeds = range(12)
check_seeded('move_obstacles', move_obstacles, ['move_obstacles'], seeds)
check_seeded('teleport', teleport, ['teleport'], seeds)
check_seeded('both', both, ['move_obstacles', 'teleport'], seeds)
check_seeded('both_reversed', both_reversed, ['teleport', 'move_obstacles'], seeds)

# rng=None falls back on the library generator (re-seeding reproduces)
for seed in [0, 1, 2, 0]:
    for rows in MAPS:
        state, twin = twin_states(rows, Position(0, 0), Orientation.R)
        reset_gv_rng(seed)
        both(state, Action.TURN_LEFT)
        both(state, Action.TURN_LEFT, rng=None)
        twin_rng = make_rng(seed)
        ref_chain(['move_obstacles', 'teleport'])(twin, twin_rng)
        ref_chain(['move_obstacles', 'teleport'])(twin, twin_rng)
        check(snapshot(state) == snapshot(twin), 'library rng', rows, seed)

print(f'OK ({CHECKS} checks)')
