"""Demo for change A (named representation factories driven by a table).

Runs from the worktree root:  /venv/bin/python _seed/A/demo.py

Exits 0 on the pristine tree and with the change applied.  It checks

* the wiring done by `make_state_representation` and
  `make_observation_representation` (which classes, which keys, in which order,
  one grid-object representation shared by `grid` and `item`, a fresh one per
  call, invalid names),
* property C16 on the representations those factories return, against a
  reference implementation of the three encodings embedded here, over many
  spaces (type subsets x colour subsets x shapes, non-square, 1-wide
  observations, colour NONE only), with agents in corners / on borders, all
  four headings, exhaustively all objects of each space for the per-cell
  encoding and all pairs of a pool of member states / observations,
* the same through `OuterEnv` and (if importable) the gym adapter.
"""
import itertools
import os
import random
import sys
import warnings

import numpy as np

warnings.simplefilter('ignore')
sys.path.insert(0, os.getcwd())  # the worktree root

from gym_gridverse.agent import Agent  # noqa: E402
from gym_gridverse.geometry import Orientation, Position, Shape  # noqa: E402
from gym_gridverse.grid import Grid  # noqa: E402
from gym_gridverse.grid_object import (  # noqa: E402
    Beacon,
    Box,
    Color,
    Door,
    Exit,
    Floor,
    Hidden,
    Key,
    MovingObstacle,
    NoneGridObject,
    Telepod,
    Wall,
)
from gym_gridverse.observation import Observation  # noqa: E402
from gym_gridverse.representations import (  # noqa: E402
    observation_representations as o_rep,
)
from gym_gridverse.representations import (  # noqa: E402
    state_representations as s_rep,
)
from gym_gridverse.representations.spaces import SpaceType  # noqa: E402
from gym_gridverse.spaces import ObservationSpace, StateSpace  # noqa: E402
from gym_gridverse.state import State  # noqa: E402

NAMES = ['default', 'no-overlap', 'compact']

# hard-coded expectations: the registration order of the library types
TYPE_INDEX = {
    NoneGridObject: 0,
    Hidden: 1,
    Floor: 2,
    Wall: 3,
    Exit: 4,
    Door: 5,
    Key: 6,
    MovingObstacle: 7,
    Box: 8,
    Telepod: 9,
    Beacon: 10,
}
NUM_STATES = {t: 1 for t in TYPE_INDEX}
NUM_STATES[Door] = 3

n_checks = 0


def check(condition, message):
    global n_checks
    n_checks += 1
    if not condition:
        print(f'FAIL: {message}')
        sys.exit(1)


def instances(object_type, colors):
    """all the objects of a type with colours among `colors`"""
    colors = sorted(set(colors) | {Color.NONE}, key=lambda c: c.value)
    if object_type in (NoneGridObject, Hidden, Floor, Wall, MovingObstacle):
        return [object_type()]
    if object_type is Exit:
        return [Exit(color) for color in colors]
    if object_type is Door:
        return [
            Door(status, color) for status in Door.Status for color in colors
        ]
    if object_type in (Key, Telepod, Beacon):
        return [object_type(color) for color in colors]
    if object_type is Box:
        return [Box(Floor())]
    raise AssertionError(object_type)


# reference implementation of the three encodings ---------------------------


class Reference:
    def __init__(self, name, object_types, colors, extras):
        self.name = name
        self.types = sorted(
            set(object_types) | set(extras), key=TYPE_INDEX.__getitem__
        )
        self.colors = sorted(set(colors) | {Color.NONE}, key=lambda c: c.value)
        self.max_type = max(TYPE_INDEX[t] for t in self.types)
        self.max_states = max(NUM_STATES[t] for t in self.types)
        self.max_color = max(c.value for c in self.colors)

        # compact maps
        counter = itertools.count()
        self.compact_type = {t: next(counter) for t in self.types}
        self.compact_status = {
            (t, j): next(counter)
            for t in self.types
            for j in range(NUM_STATES[t])
        }
        self.compact_color = {c: next(counter) for c in self.colors}
        self.compact_size = next(counter)

    def encode(self, obj):
        t, j, c = type(obj), obj.state_index, obj.color
        if self.name == 'default':
            return [TYPE_INDEX[t], j, c.value]
        if self.name == 'no-overlap':
            return [
                TYPE_INDEX[t],
                self.max_type + 1 + j,
                self.max_type + self.max_states + 2 + c.value,
            ]
        if self.name == 'compact':
            return [
                self.compact_type[t],
                self.compact_status[t, j],
                self.compact_color[c],
            ]
        raise AssertionError(self.name)

    def upper_bound(self):
        if self.name == 'default':
            return [self.max_type, self.max_states, self.max_color]
        if self.name == 'no-overlap':
            return [
                self.max_type,
                self.max_type + self.max_states + 1,
                self.max_type + self.max_states + self.max_color + 2,
            ]
        return [
            len(self.types) - 1,
            len(self.types) + sum(NUM_STATES[t] for t in self.types) - 1,
            self.compact_size - 1,
        ]


# wiring --------------------------------------------------------------------

STATE_CLASSES = {
    'default': s_rep.DefaultGridObjectStateRepresentation,
    'no-overlap': s_rep.NoOverlapGridObjectStateRepresentation,
    'compact': s_rep.CompactGridObjectStateRepresentation,
}
OBSERVATION_CLASSES = {
    'default': o_rep.DefaultGridObjectObservationRepresentation,
    'no-overlap': o_rep.NoOverlapGridObjectObservationRepresentation,
    'compact': o_rep.CompactGridObjectObservationRepresentation,
}


class StrSubclass(str):
    pass


def check_wiring(make, space, classes, expected_keys, field_classes, tag):
    for name in NAMES:
        for spelled in (name, StrSubclass(name), np.str_(name)):
            rep = make(spelled, space)
            check(
                list(rep.representations) == expected_keys,
                f'{tag} {name}: keys {list(rep.representations)}',
            )
            for key, cls in field_classes.items():
                check(
                    type(rep.representations[key]) is cls,
                    f'{tag} {name}: class of {key}',
                )
            grid_rep = rep.representations['grid']
            item_rep = rep.representations['item']
            check(
                type(grid_rep.grid_object_representation) is classes[name],
                f'{tag} {name}: grid-object representation class',
            )
            check(
                grid_rep.grid_object_representation
                is item_rep.grid_object_representation,
                f'{tag} {name}: grid and item share the grid-object rep.',
            )
            for field in rep.representations.values():
                holder = getattr(field, 'state_space', None)
                if holder is None:
                    holder = getattr(field, 'observation_space')
                check(holder is space, f'{tag} {name}: same space object')
            check(list(rep.space) == expected_keys, f'{tag} {name}: space keys')

            # a second call is independent of the first
            rep2 = make(spelled, space)
            check(rep2 is not rep, f'{tag} {name}: fresh object')
            check(
                rep2.representations['grid'].grid_object_representation
                is not grid_rep.grid_object_representation,
                f'{tag} {name}: fresh grid-object representation',
            )

    for bad in [
        '',
        'Default',
        'DEFAULT',
        'compact ',
        ' compact',
        'no_overlap',
        'nooverlap',
        'default\n',
        None,
        0,
        1.5,
        b'default',
        ('default',),
        ['default'],
        {'default'},
        {'default': 1},
    ]:
        try:
            make(bad, space)
        except ValueError as error:
            check(
                str(error) == f'invalid name {bad}',
                f'{tag}: message for {bad!r}: {error}',
            )
        else:
            check(False, f'{tag}: {bad!r} should be rejected with ValueError')


# property C16 ---------------------------------------------------------------


def same(a, b):
    return list(a) == list(b) and all(
        a[k].shape == b[k].shape and np.array_equal(a[k], b[k]) for k in a
    )


def check_cell_encoding(rep, reference, objects, tag):
    """exhaustively all objects of the space, and the space bounds"""
    grid_object_rep = rep.representations['grid'].grid_object_representation
    encodings = {}
    for obj in objects:
        encoding = grid_object_rep.convert(obj)
        check(encoding.shape == (3,), f'{tag}: shape of encoding of {obj}')
        check(
            encoding.tolist() == reference.encode(obj),
            f'{tag}: encoding of {obj}: {encoding.tolist()} '
            f'vs {reference.encode(obj)}',
        )
        encodings[obj] = tuple(encoding.tolist())

    # lossless: unequal objects have different encodings (and vice-versa)
    for a, b in itertools.combinations(objects, 2):
        check(
            (a == b) == (encodings[a] == encodings[b]),
            f'{tag}: {a} vs {b} and their encodings',
        )

    space = grid_object_rep.space
    check(space.space_type is SpaceType.CATEGORICAL, f'{tag}: categorical')
    check(space.lower_bound.tolist() == [0, 0, 0], f'{tag}: lower bound')
    check(
        space.upper_bound.tolist() == reference.upper_bound(),
        f'{tag}: upper bound {space.upper_bound.tolist()} '
        f'vs {reference.upper_bound()}',
    )
    for obj, encoding in encodings.items():
        check(space.contains(np.array(encoding)), f'{tag}: {obj} within bounds')

    channels = [set(e[i] for e in encodings.values()) for i in range(3)]
    if reference.name in ('no-overlap', 'compact'):
        for i, j in [(0, 1), (0, 2), (1, 2)]:
            check(
                max(channels[i]) < min(channels[j]),
                f'{tag}: channels {i} and {j} use separate ranges',
            )
        # also the ranges the space declares are separate
        upper = space.upper_bound.tolist()
        check(
            max(channels[0]) <= upper[0] < min(channels[1])
            and max(channels[1]) <= upper[1] < min(channels[2])
            and max(channels[2]) <= upper[2],
            f'{tag}: declared ranges separate the channels',
        )
    return channels


def check_compact_no_gaps(rep, reference, tag):
    """the compact maps use consecutive values from zero"""
    grid_object_rep = rep.representations['grid'].grid_object_representation
    used = sorted(
        v
        for m in (
            grid_object_rep._grid_object_type_map,
            grid_object_rep._grid_object_status_map,
            grid_object_rep._grid_object_color_map,
        )
        for v in m.flatten().tolist()
        if v >= 0
    )
    check(used == list(range(reference.compact_size)), f'{tag}: no gaps {used}')


def check_members(rep, reference, members, with_agent, tag):
    """grid is positional, marker exact, item encoded, equal iff equal"""
    converted = []
    for x in members:
        c = rep.convert(x)
        c_again = rep.convert(x)
        check(same(c, c_again), f'{tag}: repeated conversion')
        height, width = x.grid.shape.height, x.grid.shape.width
        expected_grid = [
            [reference.encode(x.grid[y, xx]) for xx in range(width)]
            for y in range(height)
        ]
        check(c['grid'].shape == (height, width, 3), f'{tag}: grid shape')
        check(c['grid'].tolist() == expected_grid, f'{tag}: grid entries')
        expected_marker = [
            [int((y, xx) == x.agent.position.yx) for xx in range(width)]
            for y in range(height)
        ]
        check(
            c['agent_id_grid'].tolist() == expected_marker,
            f'{tag}: agent marker at {x.agent.position}',
        )
        check(
            c['item'].tolist() == reference.encode(x.agent.grid_object),
            f'{tag}: item',
        )
        if with_agent:
            expected_agent = [
                (2 * x.agent.position.y - height + 1) / (height - 1),
                (2 * x.agent.position.x - width + 1) / (width - 1),
                0.0,
                0.0,
                0.0,
                0.0,
            ]
            expected_agent[2 + x.agent.orientation.value] = 1.0
            check(c['agent'].tolist() == expected_agent, f'{tag}: agent')
        for key, space in rep.space.items():
            check(space.contains(c[key]), f'{tag}: {key} within its space')
        converted.append(c)

    for (x1, c1), (x2, c2) in itertools.combinations(
        zip(members, converted), 2
    ):
        equal = x1 == x2
        check(equal == same(c1, c2), f'{tag}: equal iff equal ({x1} / {x2})')
        if equal:
            check(hash(x1) == hash(x2), f'{tag}: equal ones hash alike')


def member_grids(rng, shape, objects, n):
    grids = []
    for fill in objects[:3]:
        grids.append(
            Grid(
                [
                    [fill for _ in range(shape.width)]
                    for _ in range(shape.height)
                ]
            )
        )
    while len(grids) < n:
        grids.append(
            Grid(
                [
                    [rng.choice(objects) for _ in range(shape.width)]
                    for _ in range(shape.height)
                ]
            )
        )
    # single-cell variations of one grid (every cell, awkward ones included)
    base = grids[-1]
    for y in range(shape.height):
        for x in range(shape.width):
            rows = [
                [base[yy, xx] for xx in range(shape.width)]
                for yy in range(shape.height)
            ]
            other = next((o for o in objects if o != rows[y][x]), None)
            if other is not None:  # (single-object spaces have no variation)
                rows[y][x] = other
                grids.append(Grid(rows))
    return grids


def border_positions(shape):
    ys = sorted({0, shape.height // 2, shape.height - 1})
    xs = sorted({0, shape.width // 2, shape.width - 1})
    return [Position(y, x) for y in ys for x in xs]


def copy_grid(grid):
    return Grid(
        [
            [grid[y, x] for x in range(grid.shape.width)]
            for y in range(grid.shape.height)
        ]
    )


STATE_TYPE_SUBSETS = [
    [Floor],
    [Floor, Wall],
    [Wall, Floor, Exit],
    [Floor, Wall, Door, Key],
    [Key, Door],
    [Floor, Wall, Exit, Door, Key, MovingObstacle, Telepod, Beacon],
    [Beacon, Floor],
    [MovingObstacle, Telepod, Floor, Floor],  # repeated entry
]
OBSERVATION_TYPE_SUBSETS = STATE_TYPE_SUBSETS + [
    [Floor, Wall, Box],
    [Hidden, Floor],
    [NoneGridObject, Floor, Door],
    list(TYPE_INDEX),
]
COLOR_SUBSETS = [
    [],
    [Color.NONE],
    [Color.RED],
    [Color.YELLOW],
    [Color.GREEN, Color.BLUE],
    [Color.YELLOW, Color.RED, Color.NONE],
    list(Color),
]
STATE_SHAPES = [Shape(2, 2), Shape(2, 5), Shape(4, 3), Shape(3, 6)]
OBSERVATION_SHAPES = [Shape(1, 1), Shape(1, 3), Shape(4, 1), Shape(2, 5), Shape(5, 3)]


def run_state_spaces():
    rng = random.Random(16)
    field_classes = {
        'grid': s_rep.GridStateRepresentation,
        'agent_id_grid': s_rep.AgentIDGridStateRepresentation,
        'agent': s_rep.AgentStateRepresentation,
        'item': s_rep.ItemStateRepresentation,
    }
    first = True
    for object_types, colors, shape in itertools.product(
        STATE_TYPE_SUBSETS, COLOR_SUBSETS, STATE_SHAPES
    ):
        # thin the product out, but keep every value of every factor
        if not first and rng.random() > 0.2:
            continue

        space = StateSpace(shape, object_types, colors)
        if first:
            check_wiring(
                s_rep.make_state_representation,
                space,
                STATE_CLASSES,
                ['grid', 'agent_id_grid', 'agent', 'item'],
                field_classes,
                'state',
            )
            first = False

        grid_objects = [
            obj for t in dict.fromkeys(object_types) for obj in instances(t, colors)
        ]
        item_objects = grid_objects + [NoneGridObject()]

        grids = member_grids(rng, shape, grid_objects, 4)
        members = []
        for grid in grids:
            members.append(
                State(
                    grid,
                    Agent(
                        rng.choice(border_positions(shape)),
                        rng.choice(list(Orientation)),
                        rng.choice(item_objects),
                    ),
                )
            )
        # every border position x heading, every item, with one grid
        for position in border_positions(shape):
            for orientation in Orientation:
                members.append(
                    State(grids[0], Agent(position, orientation, None))
                )
        for item in item_objects:
            members.append(
                State(grids[1], Agent(Position(0, 0), Orientation.F, item))
            )
        # equal-but-distinct copies
        for member in list(members[:6]):
            members.append(
                State(
                    copy_grid(member.grid),
                    Agent(
                        Position(*member.agent.position.yx),
                        member.agent.orientation,
                        member.agent.grid_object,
                    ),
                )
            )
        for member in members:
            check(space.contains(member), f'state member of its space {member}')

        for name in NAMES:
            tag = (
                f'state/{name}/{[t.__name__ for t in object_types]}/'
                f'{[c.name for c in colors]}/{shape.height}x{shape.width}'
            )
            rep = s_rep.make_state_representation(name, space)
            reference = Reference(name, object_types, colors, [NoneGridObject])
            check_cell_encoding(rep, reference, item_objects, tag)
            if name == 'compact':
                check_compact_no_gaps(rep, reference, tag)
            check_members(rep, reference, members, True, tag)

    # a space which cannot be represented is still refused, whatever the name
    space = StateSpace(Shape(3, 3), [Floor, Box], [Color.RED])
    for name in NAMES:
        try:
            s_rep.make_state_representation(name, space)
        except ValueError as error:
            check('cannot be represented' in str(error), 'Box: message')
        else:
            check(False, 'Box cannot be represented in state')
    try:
        s_rep.make_state_representation('nope', space)
    except ValueError as error:
        check(str(error) == 'invalid name nope', 'name is checked first')


def run_observation_spaces():
    rng = random.Random(61)
    field_classes = {
        'grid': o_rep.GridObservationRepresentation,
        'agent_id_grid': o_rep.AgentIDGridObservationRepresentation,
        'item': o_rep.ItemObservationRepresentation,
    }
    first = True
    for object_types, colors, shape in itertools.product(
        OBSERVATION_TYPE_SUBSETS, COLOR_SUBSETS, OBSERVATION_SHAPES
    ):
        if not first and rng.random() > 0.15:
            continue

        space = ObservationSpace(shape, object_types, colors)
        if first:
            check_wiring(
                o_rep.make_observation_representation,
                space,
                OBSERVATION_CLASSES,
                ['grid', 'agent_id_grid', 'item'],
                field_classes,
                'observation',
            )
            first = False

        own_objects = [
            obj for t in dict.fromkeys(object_types) for obj in instances(t, colors)
        ]
        grid_objects = own_objects + ([] if Hidden in object_types else [Hidden()])
        item_objects = own_objects + (
            [] if NoneGridObject in object_types else [NoneGridObject()]
        )
        all_objects = list(dict.fromkeys(grid_objects + item_objects))

        grids = member_grids(rng, shape, grid_objects, 4)
        members = []
        for grid in grids:
            members.append(
                Observation(
                    grid,
                    Agent(
                        space.agent_position,
                        Orientation.F,
                        rng.choice(item_objects),
                    ),
                )
            )
        for position in border_positions(shape):
            members.append(
                Observation(grids[0], Agent(position, Orientation.F, None))
            )
        for item in item_objects:
            members.append(
                Observation(
                    grids[1], Agent(space.agent_position, Orientation.F, item)
                )
            )
        for member in list(members[:6]):
            members.append(
                Observation(
                    copy_grid(member.grid),
                    Agent(
                        Position(*member.agent.position.yx),
                        member.agent.orientation,
                        member.agent.grid_object,
                    ),
                )
            )
        for member in members:
            check(space.contains(member), f'observation member {member}')

        for name in NAMES:
            tag = (
                f'observation/{name}/{[t.__name__ for t in object_types]}/'
                f'{[c.name for c in colors]}/{shape.height}x{shape.width}'
            )
            rep = o_rep.make_observation_representation(name, space)
            reference = Reference(
                name, object_types, colors, [Hidden, NoneGridObject]
            )
            check_cell_encoding(rep, reference, all_objects, tag)
            if name == 'compact':
                check_compact_no_gaps(rep, reference, tag)
            check_members(rep, reference, members, False, tag)


# through the outer environment and the gym adapter --------------------------


def make_env(shape):
    from gym_gridverse.action import Action
    from gym_gridverse.envs import (
        observation_functions,
        reset_functions,
        reward_functions,
        terminating_functions,
        transition_functions,
    )
    from gym_gridverse.envs.gridworld import GridWorld
    from gym_gridverse.spaces import ActionSpace

    object_types = [Floor, Wall, Exit, Door, Key]
    colors = [Color.NONE, Color.YELLOW]
    observation_space = ObservationSpace(Shape(4, 3), object_types, colors)
    return GridWorld(
        StateSpace(shape, object_types, colors),
        ActionSpace(list(Action)),
        observation_space,
        reset_functions.factory('keydoor', shape=shape),
        transition_functions.factory(
            'chain',
            transition_functions=[
                transition_functions.factory('move_agent'),
                transition_functions.factory('turn_agent'),
                transition_functions.factory('pickndrop'),
                transition_functions.factory('actuate_door'),
            ],
        ),
        observation_functions.factory(
            'partially_occluded', area=observation_space.area
        ),
        reward_functions.factory('living_reward', reward=-1.0),
        terminating_functions.factory('reach_exit'),
    )


def run_outer_env():
    from gym_gridverse.action import Action
    from gym_gridverse.outer_env import OuterEnv

    actions = list(Action)
    for seed, shape in [(3, Shape(5, 8)), (4, Shape(7, 5))]:
        env = make_env(shape)
        env.set_seed(seed)
        outers = {
            name: OuterEnv(
                env,
                state_representation=s_rep.make_state_representation(
                    name, env.state_space
                ),
                observation_representation=(
                    o_rep.make_observation_representation(
                        name, env.observation_space
                    )
                ),
            )
            for name in NAMES
        }
        s_refs = {
            name: Reference(
                name,
                env.state_space.object_types,
                env.state_space.colors,
                [NoneGridObject],
            )
            for name in NAMES
        }
        o_refs = {
            name: Reference(
                name,
                env.observation_space.object_types,
                env.observation_space.colors,
                [Hidden, NoneGridObject],
            )
            for name in NAMES
        }
        rng = random.Random(seed)
        env.reset()
        for t in range(60):
            state, observation = env.state, env.observation
            for name, outer in outers.items():
                s, o = outer.state, outer.observation
                check(
                    s['grid'].tolist()
                    == [
                        [
                            s_refs[name].encode(state.grid[y, x])
                            for x in range(shape.width)
                        ]
                        for y in range(shape.height)
                    ],
                    f'outer {name}: state grid at step {t}',
                )
                check(
                    o['grid'].tolist()
                    == [
                        [
                            o_refs[name].encode(observation.grid[y, x])
                            for x in range(3)
                        ]
                        for y in range(4)
                    ],
                    f'outer {name}: observation grid at step {t}',
                )
                check(
                    s['item'].tolist()
                    == s_refs[name].encode(state.agent.grid_object)
                    and o['item'].tolist()
                    == o_refs[name].encode(observation.agent.grid_object),
                    f'outer {name}: items at step {t}',
                )
                check(
                    np.argwhere(s['agent_id_grid']).tolist()
                    == [list(state.agent.position.yx)]
                    and np.argwhere(o['agent_id_grid']).tolist() == [[3, 1]],
                    f'outer {name}: markers at step {t}',
                )
            _, done = env.step(rng.choice(actions))
            if done:
                env.reset()


def run_gym_adapter():
    try:
        from gym_gridverse.gym import GymEnvironment
        from gym_gridverse.outer_env import OuterEnv
    except Exception as error:  # pragma: no cover (missing dependencies)
        print(f'(gym adapter not importable, skipped: {error!r})')
        return

    env = make_env(Shape(6, 7))
    gym_env = GymEnvironment(OuterEnv(env))
    check(
        gym_env.state_space is None and gym_env.observation_space is None,
        'gym: no spaces without representations',
    )
    env.set_seed(11)  # (GymEnvironment.seed needs an older gym)
    for name in NAMES:
        gym_env.set_state_representation(name)
        gym_env.set_observation_representation(name)
        s_ref = Reference(
            name,
            env.state_space.object_types,
            env.state_space.colors,
            [NoneGridObject],
        )
        o_ref = Reference(
            name,
            env.observation_space.object_types,
            env.observation_space.colors,
            [Hidden, NoneGridObject],
        )
        check(
            list(gym_env.state_space.spaces)
            == ['agent', 'agent_id_grid', 'grid', 'item']
            or list(gym_env.state_space.spaces)
            == ['grid', 'agent_id_grid', 'agent', 'item'],
            f'gym {name}: state space keys',
        )
        check(
            gym_env.state_space['item'].high.tolist() == s_ref.upper_bound()
            and gym_env.observation_space['item'].high.tolist()
            == o_ref.upper_bound(),
            f'gym {name}: item bounds',
        )
        check(
            gym_env.state_space['grid'].high.shape == (6, 7, 3)
            and gym_env.observation_space['grid'].high.shape == (4, 3, 3)
            and (
                gym_env.observation_space['grid'].high
                == np.array(o_ref.upper_bound())
            ).all(),
            f'gym {name}: grid bounds',
        )
        observation = gym_env.reset()
        for t in range(10):
            inner = env.observation
            check(
                observation['grid'].tolist()
                == [
                    [o_ref.encode(inner.grid[y, x]) for x in range(3)]
                    for y in range(4)
                ],
                f'gym {name}: observation grid at step {t}',
            )
            check(
                gym_env.state['item'].tolist()
                == s_ref.encode(env.state.agent.grid_object),
                f'gym {name}: state item at step {t}',
            )
            observation, _, done, _ = gym_env.step(t % 8)
            if done:
                observation = gym_env.reset()

    for setter in (
        gym_env.set_state_representation,
        gym_env.set_observation_representation,
    ):
        try:
            setter('other')
        except ValueError as error:
            check(str(error) == 'invalid name other', 'gym: invalid name')
        else:
            check(False, 'gym: invalid name must be rejected')


def main():
    for object_type, index in TYPE_INDEX.items():
        check(object_type.type_index() == index, f'type index of {object_type}')
        check(object_type.num_states() == NUM_STATES[object_type], 'num states')

    run_state_spaces()
    run_observation_spaces()
    run_outer_env()
    run_gym_adapter()
    print(f'OK ({n_checks} checks)')


if __name__ == '__main__':
    main()
