"""Demo / check program for commit B (State.copy / Observation.copy).

Run as:  cd /tmp/wt7-C03 && /venv/bin/python -W ignore _seed/B/demo.py

Exercises `transition_with_copy` and `GridWorld.functional_step` (the code
switched to the new `State.copy`) over many states x all actions x all
built-in transition functions and a composition of all of them, and checks
against an independent reference (in-place transition on an independent
pickle round-trip made by this program, with an identically seeded rng):

* the returned next state is structurally identical to the reference;
* the input state is not modified (byte-identical pickle, same identities);
* input and output share no mutable component (object graphs are disjoint,
  immutable leaves excepted), and deep changes of one do not show in the other;
* sharing *within* a state (object in two cells, held object also on the
  grid, box content also on the grid) is reproduced within the copy;
* copies equal and hash like their originals;
* random draws are the same, in number and order;
* reward / terminal of functional_step are those of the components;
* state-like inputs which are not States (observations, subclasses, custom
  classes) are handled as ever;
* the new copy methods (when present) have exactly those guarantees.
"""
import enum
import os
import pickle
import sys

sys.path.insert(0, os.getcwd())

import numpy as np  # noqa: E402
import numpy.random as rnd  # noqa: E402

from gym_gridverse.action import Action  # noqa: E402
from gym_gridverse.agent import Agent  # noqa: E402
from gym_gridverse.debugging import reset_gv_debug  # noqa: E402
from gym_gridverse.envs import observation_functions as ofs  # noqa: E402
from gym_gridverse.envs import reset_functions as rfs  # noqa: E402
from gym_gridverse.envs import reward_functions as wfs  # noqa: E402
from gym_gridverse.envs import terminating_functions as tfs  # noqa: E402
from gym_gridverse.envs import transition_functions as xfs  # noqa: E402
from gym_gridverse.envs.gridworld import GridWorld  # noqa: E402
from gym_gridverse.geometry import (  # noqa: E402
    Area,
    Orientation,
    Position,
    Shape,
    Transform,
)
from gym_gridverse.grid import Grid  # noqa: E402
from gym_gridverse.grid_object import (  # noqa: E402
    Beacon,
    Box,
    Color,
    Door,
    Exit,
    Floor,
    GridObject,
    Key,
    MovingObstacle,
    NoneGridObject,
    Telepod,
    Wall,
)
from gym_gridverse.observation import Observation  # noqa: E402
from gym_gridverse.spaces import (  # noqa: E402
    ActionSpace,
    ObservationSpace,
    StateSpace,
)
from gym_gridverse.state import State  # noqa: E402

COLORS = [Color.RED, Color.GREEN, Color.BLUE, Color.YELLOW]
OBJECT_TYPES = [
    Floor,
    Wall,
    Door,
    Key,
    MovingObstacle,
    Exit,
    Telepod,
    Beacon,
    Box,
]

# ---------------------------------------------------------------------------
# object graph utilities
# ---------------------------------------------------------------------------

IMMUTABLE = (
    int,
    float,
    str,
    bool,
    type(None),
    enum.Enum,
    type,
    np.generic,
    # frozen data-classes of integers
    Position,
    Shape,
    Area,
)


def mutable_ids(root):
    """all the mutable objects reachable from root, by id"""
    seen, found, stack = set(), {}, [root]
    while stack:
        obj = stack.pop()
        if id(obj) in seen:
            continue
        seen.add(id(obj))
        if isinstance(obj, IMMUTABLE):
            continue
        if isinstance(obj, (tuple, frozenset)):
            stack.extend(obj)
            continue
        found[id(obj)] = obj
        if isinstance(obj, (list, set)):
            stack.extend(obj)
        elif isinstance(obj, dict):
            stack.extend(obj.values())
        elif hasattr(obj, '__dict__'):
            stack.extend(vars(obj).values())
    return found


def assert_disjoint(a, b, note=''):
    shared = set(mutable_ids(a)) & set(mutable_ids(b))
    assert not shared, (note, [mutable_ids(a)[i] for i in shared])


def snapshot(obj):
    """structural fingerprint (looks into boxes, unlike ==, and records the
    sharing structure, because pickle memoizes by identity)"""
    return pickle.dumps(obj)


def cells(state):
    return [obj for row in state.grid.objects for obj in row]


def sharing_pattern(state):
    """which of the objects referenced by the state are the same object"""
    objs = cells(state) + [state.agent.grid_object]
    more = []
    for obj in objs:
        while isinstance(obj, Box):
            obj = obj.content
            more.append(obj)
    objs += more
    first = {}
    return [first.setdefault(id(obj), i) for i, obj in enumerate(objs)]


def identity_map(state):
    return (
        id(state.grid),
        id(state.grid.objects),
        [id(row) for row in state.grid.objects],
        [id(obj) for obj in cells(state)],
        id(state.agent),
        id(state.agent.transform),
        id(state.agent.grid_object),
    )


def scribble(state):
    """changes every mutable component of a state, deeply"""
    for obj in cells(state) + [state.agent.grid_object]:
        while True:
            obj.color = Color.YELLOW if obj.color is not Color.YELLOW else Color.RED
            if isinstance(obj, Door):
                obj.state = (
                    Door.Status.LOCKED
                    if obj.state is not Door.Status.LOCKED
                    else Door.Status.OPEN
                )
            if not isinstance(obj, Box):
                break
            obj = obj.content
    for box in [o for o in cells(state) if isinstance(o, Box)]:
        box.content = Box(Key(Color.GREEN))
    h, w = state.grid.shape.height, state.grid.shape.width
    for y in range(h):
        for x in range(w):
            if (y + x) % 2:
                state.grid[y, x] = Telepod(Color.BLUE)
    state.grid.objects[0][:] = [Wall() for _ in range(w)]
    state.grid.objects.reverse()
    state.agent.position = Position(h - 1, w - 1)
    state.agent.orientation = state.agent.orientation * Orientation.L
    state.agent.grid_object = Key(Color.GREEN)
    state.agent.transform = Transform(Position(0, 0), Orientation.B)


# ---------------------------------------------------------------------------
# states
# ---------------------------------------------------------------------------


def random_object(rng, depth=0):
    k = rng.integers(0, 16)
    color = COLORS[rng.integers(0, len(COLORS))]
    if k <= 5:
        return Floor()
    if k <= 7:
        return Wall()
    if k == 8:
        return Door(list(Door.Status)[rng.integers(0, 3)], color)
    if k == 9:
        return Key(color)
    if k == 10:
        return MovingObstacle()
    if k == 11:
        return Exit(color)
    if k == 12:
        return Telepod(color)
    if k == 13:
        return Beacon(color)
    if depth < 2:
        return Box(random_object(rng, depth + 1))
    return Box(Key(color))


def random_state(rng, height, width, variant):
    objects = [
        [random_object(rng) for _ in range(width)] for _ in range(height)
    ]
    y, x = int(rng.integers(0, height)), int(rng.integers(0, width))
    if variant % 4 == 0:  # corners
        y, x = [(0, 0), (0, width - 1), (height - 1, 0), (height - 1, width - 1)][
            (variant // 4) % 4
        ]
    orientation = list(Orientation)[: 4][rng.integers(0, 4)]
    held = [
        None,
        Key(COLORS[rng.integers(0, 4)]),
        Box(Key(Color.RED)),
        Box(Box(Door(Door.Status.LOCKED, Color.BLUE))),
    ][variant % 4 if variant % 3 else 0]
    state = State(Grid(objects), Agent(Position(y, x), orientation, held))

    # sharing within the state
    if variant % 5 == 1 and height * width >= 2:
        shared = Door(Door.Status.CLOSED, Color.GREEN)
        state.grid[0, 0] = shared
        state.grid[height - 1, width - 1] = shared
    if variant % 5 == 2:
        key = Key(Color.YELLOW)
        state.agent.grid_object = key
        state.grid[height - 1, 0] = key
    if variant % 5 == 3:
        key = Key(Color.RED)
        state.grid[0, width - 1] = Box(key)
        state.grid[height - 1, 0] = key
    if variant % 5 == 4 and width >= 2:
        # a pair of telepods of the agent's cell color, and obstacles
        state.grid[y, x] = Telepod(Color.RED)
        state.grid[y, (x + 1) % width] = Telepod(Color.RED)
        state.grid[(y + 1) % height, x] = MovingObstacle()
    return state


SHAPES = [
    (1, 1),
    (1, 2),
    (2, 1),
    (1, 5),
    (5, 1),
    (2, 2),
    (2, 3),
    (3, 2),
    (3, 3),
    (3, 6),
    (6, 3),
    (5, 5),
    (4, 7),
]


def shipped_states():
    """initial states of the built-in reset functions (shipped compositions)"""
    states = []
    for seed in range(3):
        for reset in [
            rfs.factory('empty', shape=Shape(5, 7), random_agent=True, random_exit=True),
            rfs.factory('rooms', shape=Shape(9, 11), layout=(2, 2)),
            rfs.factory('dynamic_obstacles', shape=Shape(7, 6), num_obstacles=4, random_agent=True),
            rfs.factory('keydoor', shape=Shape(6, 8)),
            rfs.factory('crossing', shape=Shape(7, 9), num_rivers=2, object_type=Wall),
            rfs.factory('teleport', shape=Shape(6, 7)),
            rfs.factory('memory', shape=Shape(6, 7), colors={Color.RED, Color.BLUE}),
        ]:
            states.append(reset(rng=rnd.default_rng(seed)))
    return states


# ---------------------------------------------------------------------------
# components
# ---------------------------------------------------------------------------

TRANSITIONS = {
    name: xfs.factory(name)
    for name in [
        'move_agent',
        'turn_agent',
        'pickndrop',
        'move_obstacles',
        'actuate_door',
        'actuate_box',
        'teleport',
    ]
}
TRANSITIONS['chain'] = xfs.factory(
    'chain',
    transition_functions=[
        TRANSITIONS[name]
        for name in [
            'move_agent',
            'turn_agent',
            'pickndrop',
            'actuate_door',
            'actuate_box',
            'teleport',
            'move_obstacles',
        ]
    ],
)

REWARD = wfs.factory(
    'reduce_sum',
    reward_functions=[
        wfs.factory('living_reward', reward=-0.25),
        wfs.factory('reach_exit'),
        wfs.factory('bump_moving_obstacle'),
        wfs.factory('bump_into_wall', reward=-3.0),
        wfs.factory('actuate_door', reward_open=7.0, reward_close=-7.0),
        wfs.factory('pickndrop', object_type=Key, reward_pick=11.0, reward_drop=-13.0),
        wfs.factory('overlap', object_type=Telepod, reward_on=17.0),
    ],
)
TERMINATION = tfs.factory(
    'reduce_any',
    terminating_functions=[
        tfs.factory('reach_exit'),
        tfs.factory('bump_moving_obstacle'),
        tfs.factory('bump_into_wall'),
    ],
)


def make_env(shape, transition_function):
    return GridWorld(
        StateSpace(shape, OBJECT_TYPES, COLORS),
        ActionSpace(list(Action)),
        ObservationSpace(Shape(3, 3), OBJECT_TYPES, COLORS),
        reset_function=rfs.factory('empty', shape=Shape(4, 4)),
        transition_function=transition_function,
        observation_function=ofs.factory(
            'fully_transparent', area=Area((-2, 0), (-1, 1))
        ),
        reward_function=REWARD,
        termination_function=TERMINATION,
    )


# ---------------------------------------------------------------------------
# checks
# ---------------------------------------------------------------------------

counters = {'steps': 0, 'copies': 0}


def check_copy(original, copied, note=''):
    assert copied is not original
    assert type(copied) is type(original)
    assert copied == original and hash(copied) == hash(original), note
    assert snapshot(copied) == snapshot(original), note
    assert sharing_pattern(copied) == sharing_pattern(original), note
    assert_disjoint(original, copied, note)
    counters['copies'] += 1


def check_step(state, action, name, seed):
    transition_function = TRANSITIONS[name]
    before, ids = snapshot(state), identity_map(state)
    state_hash = hash(state)

    # reference: in-place transition on our own independent replica
    reference = pickle.loads(before)
    rng_e = rnd.default_rng(seed)
    transition_function(reference, action, rng=rng_e)

    # 1. transition_with_copy
    rng_a = rnd.default_rng(seed)
    next_state = xfs.transition_with_copy(
        transition_function, state, action, rng=rng_a
    )
    note = (name, action, seed)
    assert type(next_state) is State
    assert next_state is not state
    assert snapshot(next_state) == snapshot(reference), note
    assert next_state == reference and hash(next_state) == hash(reference)
    assert sharing_pattern(next_state) == sharing_pattern(reference), note
    assert rng_a.bit_generator.state == rng_e.bit_generator.state, note
    assert snapshot(state) == before and identity_map(state) == ids, note
    assert hash(state) == state_hash
    assert_disjoint(state, next_state, note)

    # 2. functional_step of (two) environments, repeated
    env1 = make_env(state.grid.shape, transition_function)
    env2 = make_env(state.grid.shape, transition_function)
    expected_reward = REWARD(state, action, reference)
    expected_terminal = TERMINATION(state, action, reference)
    results = []
    for env in (env1, env2, env1):
        env.set_seed(seed)
        next_state_env, reward, terminal = env.functional_step(state, action)
        assert snapshot(next_state_env) == snapshot(reference), note
        assert reward == expected_reward and terminal == expected_terminal
        assert_disjoint(state, next_state_env, note)
        for other in results:
            assert_disjoint(other, next_state_env, note)
        results.append(next_state_env)
        # same draws as the reference:  the generators continue identically
        assert (
            env._rng.bit_generator.state == rng_e.bit_generator.state
        ), note
    assert snapshot(state) == before and identity_map(state) == ids, note

    # 3. deep changes of the output do not show in the input, and vice versa
    keep = pickle.loads(snapshot(next_state))
    scribble(results[0])
    scribble(next_state)
    assert snapshot(state) == before, note
    assert snapshot(results[1]) == snapshot(reference), note
    if seed % 4 == 0:
        replica = pickle.loads(before)
        next_state = xfs.transition_with_copy(
            transition_function, replica, action, rng=rnd.default_rng(seed)
        )
        scribble(replica)
        assert snapshot(next_state) == snapshot(keep), note

    counters['steps'] += 1


def test_steps():
    states = []
    for i, (height, width) in enumerate(SHAPES):
        for variant in range(10):
            rng = rnd.default_rng(100 * i + variant)
            states.append(random_state(rng, height, width, variant))
    states += shipped_states()

    for i, state in enumerate(states):
        check_copy(state, pickle.loads(pickle.dumps(state)))
        for action in Action:
            for name in TRANSITIONS:
                # stochastic components with several seeds
                seeds = (
                    (i, i + 1, i + 2)
                    if name in ('move_obstacles', 'teleport', 'chain')
                    else (i,)
                )
                for seed in seeds:
                    check_step(state, action, name, seed)


def test_copy_methods():
    """the new convenience methods, when available"""
    if not hasattr(State, 'copy'):
        print('(State.copy not available on this tree)')
        return

    rng = rnd.default_rng(9)
    for i, (height, width) in enumerate(SHAPES):
        for variant in range(10):
            state = random_state(rng, height, width, variant)
            before, ids = snapshot(state), identity_map(state)
            copied = state.copy()
            check_copy(state, copied, (height, width, variant))
            assert snapshot(state) == before and identity_map(state) == ids
            assert_disjoint(copied, state.copy())
            scribble(copied)
            assert snapshot(state) == before
            copied = state.copy()
            scribble(state)
            assert snapshot(copied) == before

            state = pickle.loads(before)
            observation = ofs.fully_transparent(
                state, area=Area((-2, 1), (-1, 2))
            )
            copied = observation.copy()
            assert type(copied) is Observation
            check_copy(observation, copied)
            assert_disjoint(copied, state)
            scribble(copied)
            assert snapshot(state) == before

    # fields, equality, hash, repr and pickling of the data-classes are as ever
    import dataclasses

    for cls in (State, Observation):
        assert [f.name for f in dataclasses.fields(cls)] == ['grid', 'agent']
    state = random_state(rnd.default_rng(1), 3, 4, 7)
    assert repr(state) == f'State(grid={state.grid!r}, agent={state.agent!r})'
    try:
        state.copy = None
    except dataclasses.FrozenInstanceError:
        pass
    else:
        raise AssertionError('State should be frozen')


class StateSubclass(State):
    """a user-defined state type, with a `copy` of its own"""

    def copy(self):  # pylint: disable=arguments-differ
        raise AssertionError('never used to be called')


class StateLike:
    """quacks like a state"""

    def __init__(self, grid, agent):
        self.grid = grid
        self.agent = agent
        self.copy = 'not a method'

    def __eq__(self, other):
        return (self.grid, self.agent) == (other.grid, other.agent)


def test_state_likes():
    """`transition_with_copy` never checked its input to be exactly a State"""
    rng = rnd.default_rng(4)
    for variant in range(10):
        state = random_state(rng, 4, 5, variant)
        for make in (
            lambda s: StateSubclass(s.grid, s.agent),
            lambda s: StateLike(s.grid, s.agent),
            lambda s: Observation(s.grid, s.agent),
        ):
            for action in Action:
                like = make(pickle.loads(pickle.dumps(state)))
                before = snapshot(like)
                reference = pickle.loads(before)
                TRANSITIONS['chain'](
                    reference, action, rng=rnd.default_rng(variant)
                )
                result = xfs.transition_with_copy(
                    TRANSITIONS['chain'],
                    like,
                    action,
                    rng=rnd.default_rng(variant),
                )
                assert type(result) is type(like)
                assert snapshot(result) == snapshot(reference)
                assert snapshot(like) == before
                assert_disjoint(like, result)

    # things which cannot be copied are still rejected
    class Local(State):
        pass

    state = random_state(rng, 3, 3, 1)
    for bad in (Local(state.grid, state.agent), lambda: None):
        try:
            xfs.transition_with_copy(
                TRANSITIONS['turn_agent'], bad, Action.TURN_LEFT
            )
        except (pickle.PicklingError, AttributeError):
            pass
        else:
            raise AssertionError('unpicklable input was accepted')


def test_errors_do_not_touch_state():
    """invalid actions are rejected before (and without) copying"""
    state = random_state(rnd.default_rng(3), 3, 4, 2)
    before = snapshot(state)
    env = GridWorld(
        StateSpace(state.grid.shape, OBJECT_TYPES, COLORS),
        ActionSpace([Action.MOVE_FORWARD, Action.TURN_LEFT]),
        ObservationSpace(Shape(3, 3), OBJECT_TYPES, COLORS),
        reset_function=rfs.factory('empty', shape=Shape(4, 4)),
        transition_function=TRANSITIONS['chain'],
        observation_function=ofs.factory(
            'fully_transparent', area=Area((-2, 0), (-1, 1))
        ),
        reward_function=REWARD,
        termination_function=TERMINATION,
    )
    for action in (Action.ACTUATE, Action.PICK_N_DROP, Action.MOVE_LEFT):
        try:
            env.functional_step(state, action)
        except ValueError:
            pass
        else:
            raise AssertionError('action outside of the action space')
    assert snapshot(state) == before


def main():
    for debug in (False, True):
        reset_gv_debug(debug)
        counters['steps'] = counters['copies'] = 0
        test_steps()
        test_copy_methods()
        test_state_likes()
        test_errors_do_not_touch_state()
        print(
            f"OK (debug={debug}): {counters['steps']} steps, "
            f"{counters['copies']} copies checked"
        )


if __name__ == '__main__':
    main()
