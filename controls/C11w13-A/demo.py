"""Demo / regression check for property C11 (stochastic dynamics obey their rules).

Run from the worktree root:  /venv/bin/python _seed/<X>/demo.py

The script exits 0 on the pristine tree and with the change applied.  It

* embeds a reference implementation of `move_obstacles` and `teleport` that
  works on plain lists of rows (no `Grid`, `Area`, `get_manhattan_boundary` or
  `gym_gridverse.rng` helper involved);
* enumerates *every* resolution of the random choices with a scripted
  generator and compares library and reference outcome by object identity;
* checks the property directly on every outcome (obstacles conserved, moved at
  most one step onto a cell that was floor at their turn, stay only if they
  had no free neighbour, every free neighbour reachable; teleport reaches
  exactly the other telepods of the colour and never moves the agent
  otherwise);
* replays real `numpy` generators (explicit rng, library-level rng, re-seeding,
  repeated calls, several environments in one process) and compares against
  the reference, including the amount of randomness consumed;
* compares a few runs with hard-coded expectations.
"""
import itertools as itt
import os
import sys
import warnings
from functools import partial

# run from the worktree root:  the package of the worktree is the one tested
sys.path.insert(0, os.getcwd())
warnings.filterwarnings('ignore')

import numpy.random as rnd

from gym_gridverse.action import Action
from gym_gridverse.agent import Agent
from gym_gridverse.envs import reset_functions, transition_functions
from gym_gridverse.envs.gridworld import GridWorld
from gym_gridverse.envs.observation_functions import fully_transparent
from gym_gridverse.envs.reward_functions import living_reward
from gym_gridverse.envs.terminating_functions import reach_exit
from gym_gridverse.geometry import Orientation, Position, Shape
from gym_gridverse.grid import Grid
from gym_gridverse.grid_object import (
    Color,
    Exit,
    Floor,
    Key,
    MovingObstacle,
    NoneGridObject,
    Telepod,
    Wall,
)
from gym_gridverse.rng import reset_gv_rng
from gym_gridverse.spaces import ActionSpace, ObservationSpace, StateSpace
from gym_gridverse.state import State

move_obstacles = transition_functions.move_obstacles
teleport = transition_functions.teleport

n_checks = 0


def check(condition, *message):
    global n_checks
    n_checks += 1
    if not condition:
        print('FAILED:', *message)
        sys.exit(1)


# ---------------------------------------------------------------------------
# layouts

_TELEPOD_COLORS = {
    'r': Color.RED,
    'g': Color.GREEN,
    'b': Color.BLUE,
    'y': Color.YELLOW,
    'n': Color.NONE,
}


def make_object(char):
    if char == '.':
        return Floor()
    if char == '#':
        return Wall()
    if char == 'O':
        return MovingObstacle()
    if char == 'E':
        return Exit()
    if char == 'K':
        return Key(Color.RED)
    return Telepod(_TELEPOD_COLORS[char])


def object_char(obj):
    if isinstance(obj, Floor):
        return '.'
    if isinstance(obj, Wall):
        return '#'
    if isinstance(obj, MovingObstacle):
        return 'O'
    if isinstance(obj, Exit):
        return 'E'
    if isinstance(obj, Key):
        return 'K'
    assert isinstance(obj, Telepod)
    return {v: k for k, v in _TELEPOD_COLORS.items()}[obj.color]


def make_state(layout, agent_yx=(0, 0), orientation=Orientation.F, held=None):
    rows = [[make_object(char) for char in line] for line in layout]
    agent = Agent(Position(*agent_yx), orientation, held)
    return State(Grid(rows), agent)


def snapshot(state):
    """rows of object references (identity matters)"""
    return [list(row) for row in state.grid.objects]


def render(rows):
    return [''.join(object_char(obj) for obj in row) for row in rows]


def same_objects(rows_a, rows_b):
    return len(rows_a) == len(rows_b) and all(
        len(row_a) == len(row_b)
        and all(a is b for a, b in zip(row_a, row_b))
        for row_a, row_b in zip(rows_a, rows_b)
    )


# ---------------------------------------------------------------------------
# reference implementation (plain lists; `rng` only needs `.choice(int)`)

_NEIGHBOURS = [(-1, 0), (0, 1), (1, 0), (0, -1)]  # up, right, down, left


def reference_move_obstacles(rows, rng, log=None):
    """in-place on `rows`; `log` receives (origin, free neighbours, destination)"""
    height, width = len(rows), len(rows[0])
    origins = [
        (y, x)
        for y in range(height)
        for x in range(width)
        if isinstance(rows[y][x], MovingObstacle)
    ]
    for y, x in origins:
        free = [
            (y + dy, x + dx)
            for dy, dx in _NEIGHBOURS
            if 0 <= y + dy < height
            and 0 <= x + dx < width
            and isinstance(rows[y + dy][x + dx], Floor)
        ]
        destination = None
        if free:
            destination = free[rng.choice(len(free))]
            ny, nx = destination
            rows[y][x], rows[ny][nx] = rows[ny][nx], rows[y][x]
        if log is not None:
            log.append(((y, x), free, destination))


def reference_teleport_targets(rows, agent_yx):
    y, x = agent_yx
    pod = rows[y][x]
    if not isinstance(pod, Telepod):
        return []
    return [
        (py, px)
        for py in range(len(rows))
        for px in range(len(rows[0]))
        if (py, px) != (y, x)
        and isinstance(rows[py][px], Telepod)
        and rows[py][px].color == pod.color
    ]


def reference_teleport(rows, agent_yx, rng):
    targets = reference_teleport_targets(rows, agent_yx)
    if not targets:
        return agent_yx
    return targets[rng.choice(len(targets))]


# ---------------------------------------------------------------------------
# scripted generator:  enumerates every resolution of the random choices


class ScriptedRng:
    """answers `choice(n)` from a script; unscripted draws answer 0"""

    def __init__(self, script):
        self.script = list(script)
        self.draws = []  # list of (n, answer)

    def choice(self, n):
        # same contract as numpy: no choice among no alternatives
        if n <= 0:
            raise ValueError('a must be a positive integer')
        k = len(self.draws)
        answer = self.script[k] if k < len(self.script) else 0
        assert 0 <= answer < n
        self.draws.append((n, answer))
        return answer


def all_outcomes(run):
    """enumeration of all resolutions of the random choices of `run(rng)`

    Yields (draws, result) for every complete resolution.  A run whose script
    was too short is discarded and re-run with every possible continuation of
    the first unscripted draw.
    """
    stack = [[]]
    while stack:
        script = stack.pop()
        rng = ScriptedRng(script)
        result = run(rng)
        draws = rng.draws
        check(len(draws) >= len(script), 'run is not deterministic given draws')
        check(
            [answer for _, answer in draws[: len(script)]] == script,
            'script not followed',
        )
        if len(draws) > len(script):
            n, _ = draws[len(script)]
            stack.extend(script + [answer] for answer in range(n))
        else:
            yield draws, result


# ---------------------------------------------------------------------------
# move_obstacles:  exhaustive over random outcomes

OBSTACLE_LAYOUTS = [
    ['O'],  # 1x1
    ['.'],
    ['O.'],
    ['.O'],
    ['O', '.'],
    ['.', 'O'],
    ['OO'],
    ['O.O'],
    ['.O.'],
    ['O..O.'],  # 1xN
    ['O', '.', '.', 'O'],  # Nx1
    ['O.', '..'],
    ['OO', 'OO'],
    ['OO', 'O.'],
    ['.O.', 'O.O', '.O.'],  # four obstacles compete for the centre
    ['...', '.O.', '...'],  # four free neighbours
    ['#.#', '.O.', '#.#'],
    ['###', '#O#', '###'],  # boxed in
    ['#E#', 'KOr', '#n#'],  # only non-floor neighbours
    ['O...', '....', '...O'],  # corners, non-square
    ['..O..', '.....'],
    ['O#O', '.#.', 'O.O'],
    ['OOO.', '....'],  # chains:  later obstacles see earlier moves
    ['.OOO'],
    ['O.O.O'],
    ['r.O', 'O.r', '.E.'],
    ['#####', '#O.O#', '#.O.#', '#####'],
    ['.O', 'O.', '.O', 'O.'],  # tall
]


def positions_by_id(rows, object_type):
    return {
        id(obj): (y, x)
        for y, row in enumerate(rows)
        for x, obj in enumerate(row)
        if isinstance(obj, object_type)
    }


def check_obstacle_outcome(before, after, log, label):
    """the property, stated directly on one outcome"""
    height, width = len(before), len(before[0])

    # nothing lost, nothing duplicated, shape kept
    check(len(after) == height, label, 'height changed')
    check(all(len(row) == width for row in after), label, 'width changed')
    ids_before = sorted(id(obj) for row in before for obj in row)
    ids_after = sorted(id(obj) for row in after for obj in row)
    check(ids_before == ids_after, label, 'objects lost or duplicated')
    check(len(set(ids_after)) == height * width, label, 'aliased cells')

    # everything which is neither obstacle nor floor stays where it was
    for y, x in itt.product(range(height), range(width)):
        if not isinstance(before[y][x], (MovingObstacle, Floor)):
            check(after[y][x] is before[y][x], label, 'static object moved')

    origin = positions_by_id(before, MovingObstacle)
    final = positions_by_id(after, MovingObstacle)
    check(origin.keys() == final.keys(), label, 'obstacle set changed')
    check(len(log) == len(origin), label, 'one turn per obstacle')

    # replay of the turns: at its turn each obstacle goes to a neighbouring
    # cell which is floor at that moment, or stays iff there is none
    rows = [list(row) for row in before]
    for (y, x), free, destination in log:
        obstacle = rows[y][x]
        check(isinstance(obstacle, MovingObstacle), label, 'turn of non-obstacle')
        check(origin[id(obstacle)] == (y, x), label, 'obstacle moved twice')
        neighbours_free = [
            (ny, nx)
            for ny, nx in [(y - 1, x), (y + 1, x), (y, x - 1), (y, x + 1)]
            if 0 <= ny < height
            and 0 <= nx < width
            and isinstance(rows[ny][nx], Floor)
        ]
        check(sorted(free) == sorted(neighbours_free), label, 'free set')
        if neighbours_free:
            check(destination in neighbours_free, label, 'bad destination')
            ny, nx = destination
            rows[y][x], rows[ny][nx] = rows[ny][nx], rows[y][x]
            check(final[id(obstacle)] == destination, label, 'final position')
        else:
            check(destination is None, label, 'moved without free neighbour')
            check(final[id(obstacle)] == (y, x), label, 'should have stayed')
    check(same_objects(rows, after), label, 'replay differs')


def exhaustive_move_obstacles(layout, agent_yx, action):
    label = f'move_obstacles {layout} agent={agent_yx} {action}'
    state = make_state(layout, agent_yx, Orientation.R, Key(Color.BLUE))
    before = snapshot(state)
    held = state.agent.grid_object

    def run_library(rng):
        state.grid.objects[:] = [list(row) for row in before]
        result = move_obstacles(state, action, rng=rng)
        check(result is None, label, 'transition functions return None')
        return snapshot(state)

    library = {
        tuple(a for _, a in draws): (draws, rows)
        for draws, rows in all_outcomes(run_library)
    }

    def run_reference(rng):
        rows = [list(row) for row in before]
        log = []
        reference_move_obstacles(rows, rng, log)
        return rows, log

    reference = {
        tuple(a for _, a in draws): (draws, result)
        for draws, result in all_outcomes(run_reference)
    }

    # same tree of random choices (same number of alternatives at every turn:
    # every free neighbour is a possible destination, nothing else is)
    check(library.keys() == reference.keys(), label, 'choice trees differ')
    for script, (draws, rows) in library.items():
        reference_draws, (reference_rows, log) = reference[script]
        check(draws == reference_draws, label, script, 'draws differ')
        check(same_objects(rows, reference_rows), label, script, render(rows))
        check_obstacle_outcome(before, rows, log, f'{label} {script}')

    # first turn: destinations over all outcomes == free neighbours
    first_logs = [log[0] for _, (_, log) in reference.values() if log]
    if first_logs:
        (oy, ox), free, _ = first_logs[0]
        obstacle = before[oy][ox]
        reached = set()
        for _, rows in library.values():
            reached.add(positions_by_id(rows, MovingObstacle)[id(obstacle)])
        check(reached == (set(free) or {(oy, ox)}), label, 'reachable set')

    # the agent is not touched, the action is ignored
    check(state.agent.position == Position(*agent_yx), label, 'agent moved')
    check(state.agent.orientation is Orientation.R, label, 'agent turned')
    check(state.agent.grid_object is held, label, 'held object changed')
    return {script: render(rows) for script, (_, rows) in library.items()}


def test_move_obstacles_exhaustive():
    for layout in OBSTACLE_LAYOUTS:
        height, width = len(layout), len(layout[0])
        outcomes = [
            exhaustive_move_obstacles(layout, agent_yx, action)
            for agent_yx in {(0, 0), (height - 1, width - 1), (height // 2, 0)}
            for action in Action
        ]
        check(
            all(outcome == outcomes[0] for outcome in outcomes),
            layout,
            'outcome depends on agent or action',
        )


def test_move_obstacles_expected():
    """hard-coded outcomes (all resolutions of the random choices)"""
    for layout, expected in EXPECTED_OUTCOMES:
        outcomes = exhaustive_move_obstacles(layout, (0, 0), Action.ACTUATE)
        check(outcomes == expected, layout, outcomes)


# script of answers -> final layout;  obstacles take their turns in row-major
# order, alternatives are numbered up, right, down, left (free ones only)
EXPECTED_OUTCOMES = [
    (['###', '#O#', '###'], {(): ['###', '#O#', '###']}),
    (['O.'], {(0,): ['.O']}),
    (['O', '.', 'O'], {(0,): ['.', 'O', 'O']}),
    (['.OOO'], {(0, 0, 0): ['OOO.']}),
    (
        ['OOO.', '....'],
        {
            (0, 0, 0): ['...O', 'OO..'],
            (0, 0, 1): ['....', 'OOO.'],
            (0, 0, 2): ['.O..', 'OO..'],
            (0, 1, 0): ['O..O', 'O...'],
            (0, 1, 1): ['O...', 'O.O.'],
            (0, 1, 2): ['OO..', 'O...'],
        },
    ),
    (
        ['.O.', 'O.O', '.O.'],
        {
            (0, 0, 0, 0): ['O.O', '.O.', '..O'],
            (0, 0, 0, 1): ['O.O', '...', 'O.O'],
            (0, 0, 1, 0): ['O.O', '.O.', '..O'],
            (0, 0, 1, 1): ['O.O', '.O.', 'O..'],
            (0, 1, 0, 0): ['..O', '.O.', 'O.O'],
            (0, 2, 0, 0): ['..O', '.O.', 'O.O'],
            (0, 2, 1, 0): ['..O', '.O.', 'O.O'],
            (1, 0, 0, 0): ['O.O', '.O.', '..O'],
            (1, 0, 0, 1): ['O.O', '.O.', 'O..'],
            (1, 0, 1, 0): ['O..', '.O.', 'O.O'],
            (1, 1, 0, 0): ['..O', '.O.', 'O.O'],
            (1, 1, 1): ['...', '.O.', 'OOO'],
            (2, 0, 0, 0): ['O.O', '.O.', '..O'],
            (2, 0, 0, 1): ['O.O', '.O.', 'O..'],
            (2, 0, 1, 0): ['O..', '.O.', 'O.O'],
            (2, 1, 0, 0): ['O.O', '.O.', 'O..'],
            (2, 1, 0, 1): ['O.O', '...', 'O.O'],
            (2, 1, 1, 0): ['O..', '.O.', 'O.O'],
            (2, 1, 2, 0): ['O..', '.O.', 'O.O'],
        },
    ),
]


# ---------------------------------------------------------------------------
# move_obstacles:  real generators


def random_layout(rng, height, width, chars):
    return [
        ''.join(chars[rng.integers(len(chars))] for _ in range(width))
        for _ in range(height)
    ]


def generator_state(rng):
    return repr(rng.bit_generator.state)


def test_move_obstacles_real_rng():
    layout_rng = rnd.default_rng(20211)
    shapes = [(1, 1), (1, 6), (6, 1), (2, 2), (3, 5), (5, 3), (4, 7), (7, 7)]
    for (height, width), chars in itt.product(
        shapes, ['O.', 'O..', 'O...#', 'O..#rE', 'O#']
    ):
        for _ in range(4):
            layout = random_layout(layout_rng, height, width, chars)
            seed = int(layout_rng.integers(1000))
            label = f'real rng {layout} seed={seed}'

            state = make_state(layout, (height - 1, 0))
            rows = snapshot(state)
            rng, reference_rng = rnd.default_rng(seed), rnd.default_rng(seed)

            # repeated calls with the same generator
            for step in range(6):
                action = list(Action)[step % len(Action)]
                before = snapshot(state)
                move_obstacles(state, action, rng=rng)
                log = []
                reference_move_obstacles(rows, reference_rng, log)
                check(same_objects(snapshot(state), rows), label, step)
                check_obstacle_outcome(before, snapshot(state), log, label)
                # same amount of randomness consumed
                check(
                    generator_state(rng) == generator_state(reference_rng),
                    label,
                    'generator state',
                )

            # library-level generator (rng=None), re-seeded
            for _ in range(2):
                state = make_state(layout, (0, width - 1))
                rows = snapshot(state)
                reset_gv_rng(seed)
                reference_rng = rnd.default_rng(seed)
                for step in range(3):
                    move_obstacles(state, Action.MOVE_FORWARD)
                    reference_move_obstacles(rows, reference_rng)
                    check(same_objects(snapshot(state), rows), label, 'gv rng')


def test_move_obstacles_expected_real_rng():
    """hard-coded expectations with numpy generators"""
    layout = ['O...', '.#O.', '...O']
    expected = {
        0: [
            ['....', 'O#.O', '..O.'],
            ['...O', '.#O.', 'O...'],
            ['..O.', 'O#.O', '....'],
        ],
        1: [
            ['.O..', '.#.O', '..O.'],
            ['O...', '.#O.', '...O'],
            ['.O..', '.#.O', '..O.'],
        ],
        7: [
            ['....', 'O#.O', '..O.'],
            ['....', '.#O.', 'OO..'],
            ['....', 'O#..', 'O.O.'],
        ],
    }
    for seed, renders in expected.items():
        state = make_state(layout, (1, 0))
        rng = rnd.default_rng(seed)
        for step, expected_render in enumerate(renders):
            move_obstacles(state, Action.PICK_N_DROP, rng=rng)
            check(
                render(snapshot(state)) == expected_render,
                f'seed={seed} step={step}',
                render(snapshot(state)),
            )


# ---------------------------------------------------------------------------
# teleport

TELEPOD_LAYOUTS = [
    ['r'],  # 1x1, lone telepod
    ['.'],
    ['rr'],
    ['r', 'r'],
    ['r.r.r'],
    ['rg', 'gr'],
    ['rgb', 'bgr', 'n.n'],
    ['r..', '...', '..g'],  # no partner at all
    ['n..n', '.r..', 'n..r'],  # colour NONE telepods are a colour as well
    ['rrr', 'rrr'],
    ['r#O', 'EKr', '.y.'],
    ['r.....r'],
    ['g', '.', 'g', 'r', 'g'],
    ['yyyy', 'y..y', 'yyyy'],
]


def test_teleport_exhaustive():
    for layout in TELEPOD_LAYOUTS:
        height, width = len(layout), len(layout[0])
        for (y, x), orientation, action in itt.product(
            itt.product(range(height), range(width)), Orientation, Action
        ):
            label = f'teleport {layout} agent={(y, x)} {orientation} {action}'
            held = Key(Color.GREEN) if (y + x) % 2 else None
            state = make_state(layout, (y, x), orientation, held)
            before = snapshot(state)
            held = state.agent.grid_object

            # what the property says, computed independently
            pod = before[y][x]
            partners = {
                (py, px)
                for py, px in itt.product(range(height), range(width))
                if (py, px) != (y, x)
                and isinstance(before[py][px], Telepod)
                and isinstance(pod, Telepod)
                and before[py][px].color is pod.color
            }

            def run_library(rng):
                state.agent.position = Position(y, x)
                result = teleport(state, action, rng=rng)
                check(result is None, label, 'returns None')
                check(isinstance(state.agent.position, Position), label)
                return state.agent.position.yx

            library = {
                tuple(a for _, a in draws): (draws, position)
                for draws, position in all_outcomes(run_library)
            }
            reference = {
                tuple(a for _, a in draws): (draws, position)
                for draws, position in all_outcomes(
                    partial(reference_teleport, before, (y, x))
                )
            }
            check(library == reference, label, library, reference)

            reached = {position for _, position in library.values()}
            if partners:
                check(reached == partners, label, reached, partners)
                check(len(library) == len(partners), label, 'one draw')
            else:
                # never displaced otherwise, and no randomness consumed
                check(library == {(): ([], (y, x))}, label, library)

            # nothing else changes
            check(same_objects(snapshot(state), before), label, 'grid changed')
            check(state.agent.orientation is orientation, label, 'orientation')
            check(state.agent.grid_object is held, label, 'held object')


def test_teleport_real_rng():
    for layout in TELEPOD_LAYOUTS:
        height, width = len(layout), len(layout[0])
        for (y, x), seed in itt.product(
            itt.product(range(height), range(width)), range(12)
        ):
            label = f'teleport real rng {layout} agent={(y, x)} seed={seed}'
            state = make_state(layout, (y, x), Orientation.B)
            rows = snapshot(state)
            rng, reference_rng = rnd.default_rng(seed), rnd.default_rng(seed)
            position = (y, x)
            # repeated calls: the agent bounces between telepods
            for step in range(4):
                teleport(state, list(Action)[step], rng=rng)
                position = reference_teleport(rows, position, reference_rng)
                check(state.agent.position.yx == position, label, step)
                check(
                    generator_state(rng) == generator_state(reference_rng),
                    label,
                    'generator state',
                )
            check(same_objects(snapshot(state), rows), label, 'grid changed')

            # library-level generator
            state = make_state(layout, (y, x), Orientation.B)
            reset_gv_rng(seed)
            teleport(state, Action.ACTUATE)
            expected = reference_teleport(rows, (y, x), rnd.default_rng(seed))
            check(state.agent.position.yx == expected, label, 'gv rng')


def test_teleport_expected():
    """hard-coded expectations with numpy generators"""
    layout = ['rgb', 'bgr', 'n.n']
    expected = {
        # (agent, seed) -> position after teleport
        ((0, 0), 0): (1, 2),
        ((0, 0), 3): (1, 2),
        ((0, 1), 0): (1, 1),
        ((0, 2), 3): (1, 0),
        ((1, 2), 0): (0, 0),
        ((2, 0), 3): (2, 2),  # colour NONE pairs as well
        ((2, 1), 0): (2, 1),  # floor
    }
    for (agent_yx, seed), position in expected.items():
        state = make_state(layout, agent_yx)
        teleport(state, Action.MOVE_FORWARD, rng=rnd.default_rng(seed))
        check(state.agent.position == Position(*position), agent_yx, seed)

    # three partners: all of them reached over seeds, with the index -> position
    # map of the row-major scan
    layout = ['r.r', '.r.', 'r..']
    reached = {}
    for seed in range(40):
        state = make_state(layout, (1, 1))
        teleport(state, Action.MOVE_FORWARD, rng=rnd.default_rng(seed))
        i = int(rnd.default_rng(seed).choice(3))
        reached.setdefault(i, set()).add(state.agent.position.yx)
    check(reached == {0: {(0, 0)}, 1: {(0, 2)}, 2: {(2, 0)}}, reached)


# ---------------------------------------------------------------------------
# whole environments:  chained dynamics, several environments, re-seeding


def make_env(shape, reset_function, object_types):
    transition_function = partial(
        transition_functions.chain,
        transition_functions=[
            transition_functions.move_agent,
            transition_functions.turn_agent,
            transition_functions.move_obstacles,
            transition_functions.teleport,
        ],
    )
    colors = list(Color)
    return GridWorld(
        StateSpace(shape, object_types, colors),
        ActionSpace(list(Action)),
        ObservationSpace(Shape(3, 3), object_types, colors),
        reset_function,
        transition_function,
        partial(fully_transparent, area=ObservationSpace(Shape(3, 3), object_types, colors).area),
        living_reward,
        reach_exit,
    )


def reference_env_step(rows, agent_yx, rng):
    """obstacles, then teleport (the agent dynamics are replayed from the library)"""
    reference_move_obstacles(rows, rng)
    return reference_teleport(rows, agent_yx, rng)


def test_environments():
    object_types = [Floor, Wall, Exit, MovingObstacle, Telepod]

    def reset_function(shape, num_obstacles, *, rng=None):
        state = reset_functions.dynamic_obstacles(
            shape, num_obstacles, random_agent=True, rng=rng
        )
        # two pairs of telepods on the first vacant floor cells
        vacant = [
            position
            for position in state.grid.area.positions()
            if isinstance(state.grid[position], Floor)
            and position != state.agent.position
        ]
        for position, color in zip(
            vacant, [Color.RED, Color.NONE, Color.RED, Color.NONE, Color.BLUE]
        ):
            state.grid[position] = Telepod(color)
        return state

    action_rng = rnd.default_rng(5)
    for shape, num_obstacles in [
        (Shape(5, 8), 4),
        (Shape(8, 5), 6),
        (Shape(6, 6), 9),
    ]:
        envs = [
            make_env(
                shape,
                partial(reset_function, shape, num_obstacles),
                object_types,
            )
            for _ in range(3)
        ]
        for seed in [0, 3, 3]:  # re-seeding included
            actions = [
                list(Action)[action_rng.integers(len(Action))] for _ in range(25)
            ]
            trajectories = []
            for env in envs:
                env.set_seed(seed)
                env.reset()
                trajectory = []
                for action in actions:
                    state = env.state
                    num_obstacles_before = sum(
                        isinstance(state.grid[p], MovingObstacle)
                        for p in state.grid.area.positions()
                    )
                    env.step(action)
                    next_state = env.state
                    check(
                        sum(
                            isinstance(next_state.grid[p], MovingObstacle)
                            for p in next_state.grid.area.positions()
                        )
                        == num_obstacles_before
                        == num_obstacles,
                        'obstacles conserved in env',
                    )
                    check(
                        [
                            (p.yx, next_state.grid[p].color)
                            for p in next_state.grid.area.positions()
                            if isinstance(next_state.grid[p], (Telepod, Wall, Exit))
                        ]
                        == [
                            (p.yx, state.grid[p].color)
                            for p in state.grid.area.positions()
                            if isinstance(state.grid[p], (Telepod, Wall, Exit))
                        ],
                        'static objects in env',
                    )
                    trajectory.append(
                        (
                            render(snapshot(next_state)),
                            next_state.agent.position.yx,
                            next_state.agent.orientation,
                        )
                    )
                trajectories.append(trajectory)
            check(
                all(trajectory == trajectories[0] for trajectory in trajectories),
                shape,
                seed,
                'environments with the same seed disagree',
            )

            # replay of the first environment against the reference: the
            # generator of the environment is mirrored by a fresh one
            env = envs[0]
            env.set_seed(seed)
            env.reset()
            mirror = rnd.default_rng(seed)
            env._reset_function(rng=mirror)  # consume what reset consumed
            for action in actions:
                state = env.state
                moved = State(
                    Grid(snapshot(state)),
                    Agent(state.agent.position, state.agent.orientation),
                )
                transition_functions.move_agent(moved, action)
                transition_functions.turn_agent(moved, action)
                rows = snapshot(moved)
                position = reference_env_step(
                    rows, moved.agent.position.yx, mirror
                )
                env.step(action)
                check(
                    render(snapshot(env.state)) == render(rows),
                    shape,
                    seed,
                    'env grid vs reference',
                )
                check(
                    env.state.agent.position.yx == position,
                    shape,
                    seed,
                    'env agent vs reference',
                )
                check(
                    env.state.agent.orientation is moved.agent.orientation,
                    'env orientation',
                )


def main():
    test_move_obstacles_exhaustive()
    test_move_obstacles_expected()
    test_move_obstacles_real_rng()
    test_move_obstacles_expected_real_rng()
    test_teleport_exhaustive()
    test_teleport_real_rng()
    test_teleport_expected()
    test_environments()
    print(f'OK ({n_checks} checks)')


if __name__ == '__main__':
    main()
