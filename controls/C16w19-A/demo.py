"""C16 demo (change A): faithful numeric representations, grid spaces by tiling.

Exits 0 on the pristine tree and with `Space.tile` applied.  Everything is
compared with a reference implementation embedded below (pure python + numpy,
it does not use any helper of `gym_gridverse.representations`).
"""
import itertools
import os
import random
import sys

import numpy as np

sys.path.insert(0, os.getcwd())  # run from the worktree root

from gym_gridverse.agent import Agent
from gym_gridverse.geometry import Orientation, Position, Shape
from gym_gridverse.grid import Grid
from gym_gridverse.grid_object import (
    Beacon,
    Color,
    Door,
    Exit,
    Floor,
    Hidden,
    Key,
    MovingObstacle,
    NoneGridObject,
    Telepod,
    Wall,
)
from gym_gridverse.observation import Observation
from gym_gridverse.representations.observation_representations import (
    make_observation_representation,
)
from gym_gridverse.representations.spaces import Space, SpaceType
from gym_gridverse.representations.state_representations import (
    make_state_representation,
)
from gym_gridverse.spaces import ObservationSpace, StateSpace
from gym_gridverse.state import State

NAMES = ['default', 'no-overlap', 'compact']
CHECKS = 0


def check(condition, *message):
    global CHECKS
    CHECKS += 1
    if not condition:
        print('FAIL', *message)
        sys.exit(1)


# ---------------------------------------------------------------- reference


def objects_of(object_type, colors):
    """all the objects of a type, with colours among `colors`"""
    colors = sorted(colors, key=lambda c: c.value)
    if object_type in (NoneGridObject, Hidden, Floor, Wall, MovingObstacle):
        return [object_type()]
    if object_type is Door:
        return [Door(s, c) for s in Door.Status for c in colors]
    return [object_type(c) for c in colors]  # Exit, Key, Telepod, Beacon


class Reference:
    """reference encodings of one space: all in terms of python ints"""

    def __init__(self, name, types, colors):
        self.name = name
        self.types = sorted(types, key=lambda t: t.type_index())
        self.colors = sorted(colors, key=lambda c: c.value)
        self.max_type = max(t.type_index() for t in self.types)
        self.max_status = max(t.num_states() for t in self.types)
        self.max_color = max(c.value for c in self.colors)

        # compact numbering: types, then (type, status) pairs, then colours
        counter = itertools.count()
        self.compact_type = {t.type_index(): next(counter) for t in self.types}
        self.compact_status = {
            (t.type_index(), j): next(counter)
            for t in self.types
            for j in range(t.num_states())
        }
        self.compact_color = {c.value: next(counter) for c in self.colors}
        self.compact_total = next(counter)

    def encode(self, obj):
        i, j, k = obj.type_index(), obj.state_index, obj.color.value
        if self.name == 'default':
            return (i, j, k)
        if self.name == 'no-overlap':
            return (
                i,
                self.max_type + 1 + j,
                self.max_type + self.max_status + 2 + k,
            )
        return (
            self.compact_type[i],
            self.compact_status[i, j],
            self.compact_color[k],
        )

    def upper(self):
        if self.name == 'default':
            return (self.max_type, self.max_status, self.max_color)
        if self.name == 'no-overlap':
            return (
                self.max_type,
                self.max_type + self.max_status + 1,
                self.max_type + self.max_status + self.max_color + 2,
            )
        return (
            max(self.compact_type.values()),
            max(self.compact_status.values()),
            max(self.compact_color.values()),
        )

    def grid(self, grid):
        out = np.empty((grid.shape.height, grid.shape.width, 3), int)
        for y in range(grid.shape.height):
            for x in range(grid.shape.width):
                out[y, x] = self.encode(grid[y, x])
        return out


def reference_marker(shape, position):
    out = np.zeros((shape.height, shape.width), int)
    out[position.y, position.x] = 1
    return out


def reference_agent(shape, agent):
    out = np.zeros(6)
    out[0] = (2 * agent.position.y - shape.height + 1) / (shape.height - 1)
    out[1] = (2 * agent.position.x - shape.width + 1) / (shape.width - 1)
    out[2 + agent.orientation.value] = 1
    return out


# ------------------------------------------------------------------- checks


def check_space(space, space_type, lower, upper, what):
    check(isinstance(space, Space), what, 'not a Space')
    check(space.space_type is space_type, what, 'space type', space.space_type)
    lower, upper = np.asarray(lower), np.asarray(upper)
    check(space.shape == lower.shape, what, 'shape', space.shape, lower.shape)
    check(space.lower_bound.shape == lower.shape, what, 'lower shape')
    check(space.upper_bound.shape == upper.shape, what, 'upper shape')
    check(space.lower_bound.dtype == lower.dtype, what, 'lower dtype')
    check(space.upper_bound.dtype == upper.dtype, what, 'upper dtype')
    check(np.array_equal(space.lower_bound, lower), what, 'lower bound')
    check(np.array_equal(space.upper_bound, upper), what, 'upper bound')


def check_dict_space(spaces, reference, shape, keys, what):
    check(list(spaces.keys()) == keys, what, 'keys', list(spaces.keys()))
    h, w = shape.height, shape.width
    upper = np.array(reference.upper())
    check_space(
        spaces['item'],
        SpaceType.CATEGORICAL,
        np.zeros(3, int),
        upper,
        (what, 'item'),
    )
    # the grid space is the item space at every cell
    grid_upper = np.empty((h, w, 3), int)
    grid_upper[...] = upper
    check_space(
        spaces['grid'],
        SpaceType.CATEGORICAL,
        np.zeros((h, w, 3), int),
        grid_upper,
        (what, 'grid'),
    )
    for y in range(h):
        for x in range(w):
            check(
                tuple(spaces['grid'].upper_bound[y, x]) == reference.upper(),
                what,
                'cell bound',
                (y, x),
            )
    check_space(
        spaces['agent_id_grid'],
        SpaceType.DISCRETE,
        np.zeros((h, w), int),
        np.ones((h, w), int),
        (what, 'agent_id_grid'),
    )
    if 'agent' in keys:
        check_space(
            spaces['agent'],
            SpaceType.CONTINUOUS,
            np.array([-1.0, -1.0, 0.0, 0.0, 0.0, 0.0]),
            np.ones(6),
            (what, 'agent'),
        )


def check_objects(representation, reference, objects, what):
    """per-object encoding of the `item` (and `grid`) entries, exhaustively"""
    codes = {}
    for obj in objects:
        code = representation.representations['item'].grid_object_representation.convert(obj)
        check(code.shape == (3,), what, 'code shape', obj)
        check(np.issubdtype(code.dtype, np.integer), what, 'code dtype', obj)
        check(tuple(code) == reference.encode(obj), what, 'code', obj, code)
        check(
            np.all(0 <= code) and np.all(code <= np.array(reference.upper())),
            what,
            'code out of bounds',
            obj,
        )
        codes[obj] = tuple(int(v) for v in code)

    # lossless: different objects, different codes
    for (o1, c1), (o2, c2) in itertools.combinations(codes.items(), 2):
        check((c1 == c2) == (o1 == o2), what, 'lossless', o1, o2)

    channels = [set(c[n] for c in codes.values()) for n in range(3)]
    if reference.name in ('no-overlap', 'compact'):
        for a, b in itertools.combinations(channels, 2):
            check(not (a & b), what, 'channels overlap', a & b)
        check(
            max(channels[0]) < min(channels[1])
            and max(channels[1]) < min(channels[2]),
            what,
            'channel ranges are not ordered',
        )
        # also in terms of the advertised bounds
        upper = reference.upper()
        check(upper[0] < min(channels[1]), what, 'bound overlaps next channel')
        check(upper[1] < min(channels[2]), what, 'bound overlaps next channel')
    if reference.name == 'compact':
        used = channels[0] | channels[1] | channels[2]
        # NOTE: a colour of the space is only *used* when some type of the
        # space can be coloured; its value is reserved (consecutively) anyway
        colors_used = set(obj.color.value for obj in objects)
        unused = set(
            reference.compact_color[c.value]
            for c in reference.colors
            if c.value not in colors_used
        )
        check(
            used | unused == set(range(reference.compact_total)),
            what,
            'compact values are not consecutive from zero',
            sorted(used),
        )
        check(not (used & unused), what, 'unused compact value is used')
        check(
            reference.upper()[2] == reference.compact_total - 1,
            what,
            'compact bound',
        )


def convert_equal(r1, r2):
    return r1.keys() == r2.keys() and all(
        r1[k].shape == r2[k].shape and np.array_equal(r1[k], r2[k]) for k in r1
    )


def check_members(representation, reference, members, is_state, what):
    converted = []
    for member in members:
        rep = representation.convert(member)
        shape = member.grid.shape
        check(
            np.array_equal(rep['grid'], reference.grid(member.grid)),
            what,
            'grid',
            member,
        )
        check(rep['grid'].dtype == np.dtype(int), what, 'grid dtype')
        check(
            np.array_equal(
                rep['agent_id_grid'],
                reference_marker(shape, member.agent.position),
            ),
            what,
            'agent marker',
            member,
        )
        check(rep['agent_id_grid'].sum() == 1, what, 'exactly one marker')
        check(
            tuple(rep['item']) == reference.encode(member.agent.grid_object),
            what,
            'item',
            member,
        )
        if is_state:
            check(
                np.array_equal(
                    rep['agent'], reference_agent(shape, member.agent)
                ),
                what,
                'agent',
                member,
            )
        for key, space in representation.space.items():
            check(space.contains(rep[key]), what, 'not in space', key, member)
        # repeated calls
        check(convert_equal(rep, representation.convert(member)), what, 'repeat')
        converted.append(rep)

    for (m1, r1), (m2, r2) in itertools.combinations(
        zip(members, converted), 2
    ):
        same = convert_equal(r1, r2)
        check(same == (m1 == m2), what, 'equal iff equal', m1, m2)
        if same:
            check(hash(m1) == hash(m2), what, 'hash', m1, m2)
            check(
                all(r1[k].tobytes() == r2[k].tobytes() for k in r1),
                what,
                'representation hash',
            )


# ---------------------------------------------------------------- scenarios


def make_members(rng, cls, shape, grid_objects, item_objects, positions, orientations):
    def random_grid():
        return Grid(
            [
                [rng.choice(grid_objects) for _ in range(shape.width)]
                for _ in range(shape.height)
            ]
        )

    def clone_grid(grid):
        # NOTE: objects are shared on purpose, cells are not
        return Grid(
            [
                [grid[y, x] for x in range(shape.width)]
                for y in range(shape.height)
            ]
        )

    members = []
    base = random_grid()
    # every position x every orientation on the same grid
    for position in positions:
        for orientation in orientations:
            members.append(
                cls(clone_grid(base), Agent(position, orientation, None))
            )
    # equal twin of the first, and one-cell variations at every cell
    members.append(
        cls(clone_grid(base), Agent(positions[0], orientations[0], None))
    )
    for y in range(shape.height):
        for x in range(shape.width):
            grid = clone_grid(base)
            grid[y, x] = rng.choice(
                [o for o in grid_objects if o != base[y, x]] or grid_objects
            )
            members.append(cls(grid, Agent(positions[0], orientations[0], None)))
    # every held item
    for item in item_objects:
        members.append(
            cls(clone_grid(base), Agent(positions[-1], orientations[-1], item))
        )
    # uniform grids (one object everywhere) and some random ones
    for obj in grid_objects[:6]:
        grid = Grid(
            [[obj for _ in range(shape.width)] for _ in range(shape.height)]
        )
        members.append(cls(grid, Agent(positions[0], orientations[0], None)))
    for _ in range(4):
        members.append(
            cls(
                random_grid(),
                Agent(
                    rng.choice(positions),
                    rng.choice(orientations),
                    rng.choice(item_objects),
                ),
            )
        )
    return members


def border_positions(shape):
    h, w = shape.height, shape.width
    candidates = [
        (0, 0),
        (0, w - 1),
        (h - 1, 0),
        (h - 1, w - 1),
        (0, w // 2),
        (h - 1, w // 2),
        (h // 2, 0),
        (h // 2, w - 1),
        (h // 2, w // 2),
    ]
    return [Position(y, x) for y, x in dict.fromkeys(candidates)]


TYPE_SUBSETS = [
    [Floor],
    [Floor, Wall],
    [Wall, Floor, Exit],
    [Floor, Door],
    [Door, Key, Floor, Wall],
    [Key],
    [Beacon, Telepod],
    [Floor, Wall, Exit, Door, Key, MovingObstacle, Telepod, Beacon],
    [Beacon, MovingObstacle, Floor],
]
COLOR_SUBSETS = [
    [],
    [Color.NONE],
    [Color.RED],
    [Color.YELLOW],
    [Color.GREEN, Color.BLUE],
    list(Color),
]
STATE_SHAPES = [(2, 2), (2, 3), (3, 2), (2, 5), (4, 3), (3, 6)]
OBSERVATION_SHAPES = [(2, 3), (3, 3), (4, 3), (2, 5), (3, 7), (6, 5)]


def run_spaces():
    rng = random.Random(16)
    scenario = 0
    for types, colors in itertools.product(TYPE_SUBSETS, COLOR_SUBSETS):
        space_colors = set(colors) | {Color.NONE}
        for is_state in (True, False):
            shapes = STATE_SHAPES if is_state else OBSERVATION_SHAPES
            # every shape for the space bounds, a rotating pair for members
            scenario += 1
            member_shapes = {
                shapes[scenario % len(shapes)],
                shapes[(scenario // 2 + 3) % len(shapes)],
            }
            for h, w in shapes:
                shape = Shape(h, w)
                if is_state:
                    space = StateSpace(shape, types, colors)
                    all_types = set(types) | {NoneGridObject}
                    grid_types, cls = list(types), State
                    make = make_state_representation
                    keys = ['grid', 'agent_id_grid', 'agent', 'item']
                    orientations = list(Orientation)
                else:
                    space = ObservationSpace(shape, types, colors)
                    all_types = set(types) | {NoneGridObject, Hidden}
                    grid_types, cls = list(types) + [Hidden], Observation
                    make = make_observation_representation
                    keys = ['grid', 'agent_id_grid', 'item']
                    orientations = [Orientation.F]

                for name in NAMES:
                    what = (name, cls.__name__, [t.__name__ for t in types],
                            [c.name for c in colors], (h, w))
                    reference = Reference(name, all_types, space_colors)
                    representation = make(name, space)
                    check_dict_space(
                        representation.space, reference, shape, keys, what
                    )
                    # several representations of one space in one process
                    check(
                        representation.space == make(name, space).space,
                        what,
                        'space not reproducible',
                    )

                    if (h, w) not in member_shapes:
                        continue

                    all_objects = [
                        o for t in all_types for o in objects_of(t, space_colors)
                    ]
                    check_objects(representation, reference, all_objects, what)

                    grid_objects = [
                        o for t in grid_types for o in objects_of(t, space_colors)
                    ]
                    item_objects = [
                        o
                        for t in list(types) + [NoneGridObject]
                        for o in objects_of(t, space_colors)
                    ]
                    members = make_members(
                        rng,
                        cls,
                        shape,
                        grid_objects,
                        item_objects,
                        border_positions(shape),
                        orientations,
                    )
                    for member in members:
                        check(space.contains(member), what, 'not a member')
                    check_members(
                        representation, reference, members, is_state, what
                    )


def run_thin_grids():
    """1 x N and N x 1 grids: no normalised agent position, the rest holds"""
    for h, w in [(1, 1), (1, 4), (5, 1), (1, 7)]:
        shape = Shape(h, w)
        types, colors = [Floor, Door, Key], [Color.RED, Color.BLUE]
        space_colors = set(colors) | {Color.NONE}
        spaces = [(StateSpace(shape, types, colors), make_state_representation,
                   {NoneGridObject}, State)]
        if w % 2:
            spaces.append((ObservationSpace(shape, types, colors),
                           make_observation_representation,
                           {NoneGridObject, Hidden}, Observation))
        for space, make, extra, cls in spaces:
            for name in NAMES:
                what = ('thin', name, cls.__name__, (h, w))
                reference = Reference(name, set(types) | extra, space_colors)
                representation = make(name, space)
                grid_space = representation.representations['grid'].space
                upper = np.empty((h, w, 3), int)
                upper[...] = reference.upper()
                check_space(grid_space, SpaceType.CATEGORICAL,
                            np.zeros((h, w, 3), int), upper, what)
                objects = [o for t in types for o in objects_of(t, space_colors)]
                for shift in range(len(objects)):
                    cells = iter(itertools.cycle(objects[shift:] + objects[:shift]))
                    grid = Grid([[next(cells) for _ in range(w)] for _ in range(h)])
                    for position in border_positions(shape):
                        member = cls(grid, Agent(position, Orientation.F))
                        rep_grid = representation.representations['grid'].convert(member)
                        check(np.array_equal(rep_grid, reference.grid(grid)), what, 'grid')
                        check(grid_space.contains(rep_grid), what, 'contains')
                        marker = representation.representations['agent_id_grid'].convert(member)
                        check(np.array_equal(marker, reference_marker(shape, position)),
                              what, 'marker')


def run_space_class():
    """the Space class itself (and Space.tile when it exists)"""
    base = Space.make_categorical_space(np.array([3, 9, 14]))
    mixed = Space.make_discrete_space(np.array([-2, 0, 5]), np.array([-1, 0, 7]))
    cont = Space.make_continuous_space(np.array([-1.0, 0.5]), np.array([1.0, 0.5]))
    wide = Space.make_discrete_space(np.array([[0, 1], [2, 3]]), np.array([[4, 5], [6, 7]]))
    check(base.shape == (3,), 'shape')
    check(base == Space.make_categorical_space(np.array([3, 9, 14])), 'eq')
    check(base != Space.make_categorical_space(np.array([3, 9, 15])), 'ne')
    check(base != Space.make_discrete_space(np.zeros(3, int), np.array([3, 9, 14])), 'type')
    check(base.contains(np.array([3, 0, 14])), 'contains')
    check(not base.contains(np.array([4, 0, 14])), 'above')
    check(not base.contains(np.array([0, -1, 0])), 'below')
    check(not base.contains(np.array([0.0, 0.0, 0.0])), 'dtype')
    check(not base.contains(np.array([[0, 0, 0]])), 'shape')

    if not hasattr(Space, 'tile'):
        return

    for space in (base, mixed, cont, wide):
        for reps in [(2, 3, 1), (1, 1, 1), (4, 1, 1), (1, 5, 1), (0, 3, 1),
                     (2, 0, 1), (2,), (1,), (3, 2), [2, 3, 1], ()]:
            lower0, upper0 = space.lower_bound.copy(), space.upper_bound.copy()
            tiled = space.tile(reps)
            what = ('tile', space.space_type, reps)
            check_space(tiled, space.space_type,
                        np.tile(lower0, tuple(reps)), np.tile(upper0, tuple(reps)), what)
            # the tiled space is new, the original is untouched
            check(tiled is not space, what, 'same object')
            check(np.array_equal(space.lower_bound, lower0), what, 'mutated')
            check(np.array_equal(space.upper_bound, upper0), what, 'mutated')
            if tiled.lower_bound.size:
                check(not np.shares_memory(tiled.upper_bound, space.upper_bound), what, 'alias')
                check(not np.shares_memory(tiled.lower_bound, space.lower_bound), what, 'alias')
            check(tiled == space.tile(reps), what, 'repeat')

    grid = base.tile((4, 5, 1))
    check(grid.shape == (4, 5, 3), 'grid shape')
    for y, x in itertools.product(range(4), range(5)):
        check(tuple(grid.upper_bound[y, x]) == (3, 9, 14), 'cell', (y, x))
        check(tuple(grid.lower_bound[y, x]) == (0, 0, 0), 'cell', (y, x))
    inside = np.zeros((4, 5, 3), int)
    inside[3, 4] = (3, 9, 14)
    check(grid.contains(inside), 'inside')
    inside[0, 4, 0] = 4
    check(not grid.contains(inside), 'outside')


def run_errors():
    """unrepresentable / invalid requests still fail the same way"""
    from gym_gridverse.grid_object import Box

    for make, space in [
        (make_state_representation, StateSpace(Shape(3, 3), [Floor], [])),
        (make_observation_representation, ObservationSpace(Shape(3, 3), [Floor], [])),
    ]:
        try:
            make('no-such-name', space)
        except ValueError:
            check(True)
        else:
            check(False, 'invalid name accepted')
    try:
        make_state_representation('default', StateSpace(Shape(3, 3), [Floor, Box], []))
    except ValueError:
        check(True)
    else:
        check(False, 'box state space accepted')


if __name__ == '__main__':
    run_space_class()
    run_errors()
    run_thin_grids()
    run_spaces()
    print(f'OK ({CHECKS} checks, Space.tile present: {hasattr(Space, "tile")})')
