"""Demo for change B (reward / terminating `factory`): exits 0 pristine and with the patch.

1. `reward_functions.factory` and `terminating_functions.factory` against (a) a hard-coded
   table of the required / optional keyword parameters of every built-in function, and (b) a
   reference implementation of the factory embedded here: same function object, same bound
   keywords in the same order, nothing bound positionally, same errors (type, message, cause),
   for complete / minimal / over-complete / incomplete / permuted keyword arguments, custom
   functions with awkward signatures and `module:name` names;
2. the functions the factories return mean what they say: every built-in reward / termination
   against an independent specification on an exhaustive family of (state, action, next state)
   triples (non-square grid with and without boundary walls, all cells, all four headings, all
   actions, arbitrary next states), with default and with extreme parameters;
3. compositions made through the factories: sum / any / all of the parts, each part called
   once, in order, with the given arguments and rng (short-circuit of any / all included), empty
   lists, nested compositions, exit reward paid iff exit termination fires.
"""
import functools
import inspect
import itertools as itt
import math
import os
import sys
import types
import warnings

sys.path.insert(0, os.getcwd())  # run from the worktree root

from gym_gridverse.action import Action
from gym_gridverse.agent import Agent
from gym_gridverse.envs import reward_functions as reward_fs
from gym_gridverse.envs import terminating_functions as terminating_fs
from gym_gridverse.geometry import Orientation, Position
from gym_gridverse.grid import Grid
from gym_gridverse.grid_object import (
    Beacon,
    Color,
    Door,
    Exit,
    Floor,
    Key,
    MovingObstacle,
    Wall,
)
from gym_gridverse.rng import make_rng
from gym_gridverse.state import State

n_checks = 0


def check(condition, message):
    global n_checks
    n_checks += 1
    if not condition:
        print('FAIL:', message)
        sys.exit(1)


# --------------------------------------------------------------------------------------
# part 1: the factories
# --------------------------------------------------------------------------------------

# name -> (required keys, optional keys), in signature order
REWARD_KEYS = {
    'reduce': (['reward_functions', 'reduction'], []),
    'reduce_sum': (['reward_functions'], []),
    'overlap': (['object_type'], ['reward_on', 'reward_off']),
    'living_reward': ([], ['reward']),
    'reach_exit': ([], ['reward_on', 'reward_off']),
    'bump_moving_obstacle': ([], ['reward']),
    'proportional_to_distance': (
        ['object_type'],
        ['distance_function', 'reward_per_unit_distance'],
    ),
    'getting_closer': (
        ['object_type'],
        ['distance_function', 'reward_closer', 'reward_further'],
    ),
    'getting_closer_shortest_path': (['object_type'], ['reward_closer', 'reward_further']),
    'bump_into_wall': ([], ['reward']),
    'actuate_door': ([], ['reward_open', 'reward_close']),
    'pickndrop': (['object_type'], ['reward_pick', 'reward_drop']),
    'reach_exit_memory': ([], ['reward_good', 'reward_bad']),
}
TERMINATING_KEYS = {
    'reduce': (['terminating_functions', 'reduction'], []),
    'reduce_any': (['terminating_functions'], []),
    'reduce_all': (['terminating_functions'], []),
    'overlap': (['object_type'], []),
    'reach_exit': ([], []),
    'bump_moving_obstacle': ([], []),
    'bump_into_wall': ([], []),
}

MODULES = [
    (reward_fs, reward_fs.reward_function_registry, REWARD_KEYS, 'reward'),
    (terminating_fs, terminating_fs.terminating_function_registry, TERMINATING_KEYS, 'terminating'),
]


def ref_keys(function):
    """required / optional keys, straight from the signature: everything except the three
    leading parameters and `rng`"""
    parameters = list(inspect.signature(function).parameters.values())
    leading = parameters[:3]
    rest = [p for p in parameters if p not in leading and p.name != 'rng']
    required = [p.name for p in rest if p.default is inspect.Parameter.empty]
    optional = [p.name for p in rest if p.default is not inspect.Parameter.empty]
    return required, optional


def ref_factory(registry, kind, name, kwargs):
    """reference factory; returns ('ok', function, bound keywords) or ('error', message)"""
    if ':' in name:
        name = name.split(':')[1]
    if name not in registry:
        return ('error', f'invalid {kind} function name {name}')
    function = registry[name]
    required, optional = ref_keys(function)
    for key in required:
        if key not in kwargs:
            return ('error', f'missing keyword argument `{key}`')
    allowed = required + optional
    return ('ok', function, [(k, v) for k, v in kwargs.items() if k in allowed])


def run_factory(module, name, kwargs):
    try:
        f = module.factory(name, **kwargs)
    except ValueError as error:
        check(type(error) is ValueError, 'exactly ValueError')
        return ('error', error.args[0]), error
    check(type(f) is functools.partial, 'factory returns a functools.partial')
    check(f.args == (), 'nothing bound positionally')
    return ('ok', f.func, list(f.keywords.items())), None


def same_outcome(a, b):
    if a[0] != b[0]:
        return False
    if a[0] == 'error':
        return a[1] == b[1]
    if a[1] is not b[1] or len(a[2]) != len(b[2]):
        return False
    return all(ka == kb and va is vb for (ka, va), (kb, vb) in zip(a[2], b[2]))


def kwargs_variants(required, optional):
    """keyword dictionaries to try, values are fresh sentinels"""
    extras = ['rng_', 'unknown', 'Reward', 'state_']
    every = required + optional
    variants = []
    for r in range(len(every) + 1):
        for subset in itt.combinations(every, r):
            variants.append(list(subset))
            variants.append(list(subset) + extras[:2])
            variants.append(extras[2:] + list(reversed(subset)))
    # interleaved / permuted orders of the complete set
    for permutation in itt.islice(itt.permutations(every + extras[:1]), 30):
        variants.append(list(permutation))
    return [{key: object() for key in keys} for keys in variants]


def part_factories():
    for module, registry, table, kind in MODULES:
        check(set(table) <= set(registry), f'{kind}: built-in names registered')
        check(
            sorted(n for n in registry if ':' not in n and not n.startswith('demo_')) == sorted(table),
            f'{kind}: no unexpected built-in {sorted(registry)}',
        )
        for name, (required, optional) in table.items():
            function = registry[name]
            check(function is getattr(module, name), f'{kind}.{name}: registry holds the module function')
            check(ref_keys(function) == (required, optional), f'{kind}.{name}: key table')
            nonprotocol = [p.name for p in registry.get_nonprotocol_parameters(inspect.signature(function))]
            check(sorted(nonprotocol) == sorted(required + optional), f'{kind}.{name}: non-protocol')
            if hasattr(registry, 'get_nonprotocol_keys'):  # only with the patch
                keys = registry.get_nonprotocol_keys(inspect.signature(function))
                check(tuple(keys) == (required, optional), f'{kind}.{name}: get_nonprotocol_keys')
                check(type(keys[0]) is list and type(keys[1]) is list, 'lists')
                again = registry.get_nonprotocol_keys(inspect.signature(function))
                check(again == keys and again[0] is not keys[0], 'fresh lists on every call')

            for kwargs in kwargs_variants(required, optional):
                expected = ref_factory(registry, kind, name, kwargs)
                before = dict(kwargs)
                outcome, error = run_factory(module, name, kwargs)
                check(
                    same_outcome(outcome, expected),
                    f'{kind}.factory({name!r}, {list(kwargs)}): {outcome} != {expected}',
                )
                check(kwargs == before and list(kwargs) == list(before), 'kwargs untouched')
                missing = [k for k in required if k not in kwargs]
                if missing:
                    check(
                        outcome == ('error', f'missing keyword argument `{missing[0]}`'),
                        f'{kind}.{name}: first missing key reported',
                    )
                else:
                    check(outcome[0] == 'ok', f'{kind}.{name}: accepted')
                    check(
                        [k for k, _ in outcome[2]] == [k for k in kwargs if k in required + optional],
                        f'{kind}.{name}: bound keys, caller order, unknown keys dropped',
                    )

            # repeated calls give independent partials over the same function
            kwargs = {key: object() for key in required}
            f1, f2 = module.factory(name, **kwargs), module.factory(name, **kwargs)
            check(f1 is not f2 and f1.func is f2.func and f1.keywords == f2.keywords, 'repeatable')
            check(f1.keywords is not kwargs, 'keywords are a copy')

        # unknown names
        for bad in ['', 'Reach_exit', 'reach_exit ', 'chain', 'no_such_function']:
            outcome, error = run_factory(module, bad, {'reward': 1.0})
            check(outcome == ('error', f'invalid {kind} function name {bad}'), f'{kind}: {bad!r}')
            check(type(error.__cause__) is KeyError, f'{kind}: {bad!r} chained to the KeyError')

    # rng is a protocol parameter: never bound by the factory
    f = reward_fs.factory('living_reward', reward=2.0, rng=make_rng(0))
    check(f.keywords == {'reward': 2.0}, 'rng not bound (reward)')
    f = terminating_fs.factory('reach_exit', rng=make_rng(0), state=None, action=None)
    check(f.keywords == {}, 'rng / state / action not bound (terminating)')


def part_custom():
    """custom functions with awkward signatures, registered for the time of the demo"""

    def demo_r1(s, a, n, extra_a, extra_b=2.0, *, must, may=4.0, rng=None):
        return (extra_a, extra_b, must, may, rng)

    def demo_r2(s, a, n, *, rng=None, late_required, late_optional=None, **rest):
        return (late_required, late_optional, rest, rng)

    def demo_t1(s, a, n, flag=True, *, rng=None, limit):
        return bool(flag and limit)

    module = types.ModuleType('demo_custom_functions')
    sys.modules['demo_custom_functions'] = module

    cases = [
        (reward_fs, reward_fs.reward_function_registry, 'reward', demo_r1,
         (['extra_a', 'must'], ['extra_b', 'may'])),
        # a `**rest` parameter has no default: it counts as a required key named `rest`
        (reward_fs, reward_fs.reward_function_registry, 'reward', demo_r2,
         (['late_required', 'rest'], ['late_optional'])),
        (terminating_fs, terminating_fs.terminating_function_registry, 'terminating', demo_t1,
         (['limit'], ['flag'])),
    ]
    with warnings.catch_warnings():
        warnings.simplefilter('ignore')
        for module_, registry, kind, function, (required, optional) in cases:
            name = function.__name__
            registry.register(function)
            try:
                check(ref_keys(function) == (required, optional), f'{name}: key table')
                for prefix in ['', 'demo_custom_functions:']:
                    for kwargs in kwargs_variants(required, optional):
                        expected = ref_factory(registry, kind, prefix + name, kwargs)
                        outcome, _ = run_factory(module_, prefix + name, kwargs)
                        check(same_outcome(outcome, expected), f'{prefix}{name} {list(kwargs)}')
                if hasattr(registry, 'get_nonprotocol_keys'):
                    keys = registry.get_nonprotocol_keys(inspect.signature(function))
                    check(tuple(keys) == (required, optional), f'{name}: get_nonprotocol_keys')
            finally:
                del registry[name]

    # the partials really work
    reward_fs.reward_function_registry.register(demo_r1)
    try:
        f = reward_fs.factory('demo_r1', must='m', extra_a='a', junk=0)
        rng = make_rng(1)
        check(f(1, 2, 3, rng=rng) == ('a', 2.0, 'm', 4.0, rng), 'custom partial, defaults kept')
        f = reward_fs.factory('demo_r1', may='y', must='m', extra_b='b', extra_a='a')
        check(f(1, 2, 3) == ('a', 'b', 'm', 'y', None), 'custom partial, everything bound')
    finally:
        del reward_fs.reward_function_registry['demo_r1']
        del sys.modules['demo_custom_functions']


# --------------------------------------------------------------------------------------
# part 2: the functions mean what they say
# --------------------------------------------------------------------------------------

HEADING_DELTA = {
    Orientation.F: (-1, 0),
    Orientation.R: (0, 1),
    Orientation.B: (1, 0),
    Orientation.L: (0, -1),
}
CLOCKWISE = [Orientation.F, Orientation.R, Orientation.B, Orientation.L]
MOVE_TURNS = {
    Action.MOVE_FORWARD: 0,
    Action.MOVE_RIGHT: 1,
    Action.MOVE_BACKWARD: 2,
    Action.MOVE_LEFT: 3,
}


def spec_target(state, action):
    y, x = state.agent.position.y, state.agent.position.x
    if action not in MOVE_TURNS:
        return (y, x)
    heading = CLOCKWISE[(CLOCKWISE.index(state.agent.orientation) + MOVE_TURNS[action]) % 4]
    dy, dx = HEADING_DELTA[heading]
    return (y + dy, x + dx)


def inside(state, yx):
    return 0 <= yx[0] < state.grid.shape.height and 0 <= yx[1] < state.grid.shape.width


def spec_on(next_state, object_type):
    return isinstance(next_state.grid[next_state.agent.position], object_type)


def spec_bump_wall(state, action):
    target = spec_target(state, action)
    return inside(state, target) and isinstance(state.grid[target[0], target[1]], Wall)


def find_one(state, object_type):
    (found,) = [
        (y, x)
        for y in range(state.grid.shape.height)
        for x in range(state.grid.shape.width)
        if isinstance(state.grid[y, x], object_type)
    ]
    return found


def spec_distance(state, object_type, kind):
    y, x = find_one(state, object_type)
    dy, dx = abs(state.agent.position.y - y), abs(state.agent.position.x - x)
    return {'manhattan': dy + dx, 'euclidean': math.sqrt(dy * dy + dx * dx), 'max': max(dy, dx)}[kind]


def spec_sign(prev, nxt, closer, further):
    return closer if nxt < prev else further if nxt > prev else 0.0


def spec_door(state, action, next_state, reward_open, reward_close):
    if action is not Action.ACTUATE:
        return 0.0
    dy, dx = HEADING_DELTA[state.agent.orientation]
    front = (state.agent.position.y + dy, state.agent.position.x + dx)
    if not inside(state, front):
        return 0.0
    door, next_door = state.grid[front[0], front[1]], next_state.grid[front[0], front[1]]
    if not isinstance(door, Door) or not isinstance(next_door, Door):
        return 0.0
    was_open = door.state is Door.Status.OPEN
    is_open = next_door.state is Door.Status.OPEN
    return reward_open if (not was_open and is_open) else reward_close if (was_open and not is_open) else 0.0


def spec_pickndrop(state, next_state, object_type, reward_pick, reward_drop):
    had = isinstance(state.agent.grid_object, object_type)
    has = isinstance(next_state.agent.grid_object, object_type)
    return reward_pick if (not had and has) else reward_drop if (had and not has) else 0.0


def spec_memory(next_state, good, bad):
    here = next_state.grid[next_state.agent.position]
    if not isinstance(here, Exit):
        return 0.0
    beacon = find_one(next_state, Beacon)
    return good if here.color is next_state.grid[beacon[0], beacon[1]].color else bad


def make_grid(walled):
    """3 x 5 (not square); with or without boundary walls; one exit, one obstacle, one door"""
    if walled:
        grid = Grid.from_shape((5, 7))
        for y in range(5):
            for x in range(7):
                if y in (0, 4) or x in (0, 6):
                    grid[y, x] = Wall()
        grid[1, 5] = Exit()
        grid[3, 1] = MovingObstacle()
        grid[2, 3] = Wall()
        grid[3, 4] = Door(Door.Status.CLOSED, Color.YELLOW)
    else:
        grid = Grid.from_shape((3, 5))
        grid[0, 4] = Exit()
        grid[2, 0] = MovingObstacle()
        grid[1, 2] = Wall()
        grid[2, 3] = Door(Door.Status.OPEN, Color.NONE)
    return grid


def states(walled, held=None):
    template = make_grid(walled)
    for y in range(template.shape.height):
        for x in range(template.shape.width):
            for orientation in Orientation:
                yield State(make_grid(walled), Agent(Position(y, x), orientation, held))


def same_float(a, b):
    return type(a) is type(b) and a == b


def part_semantics():
    dist = {
        'manhattan': Position.manhattan_distance,
        'euclidean': Position.euclidean_distance,
    }
    parameter_sets = [
        dict(on=1.0, off=0.0, neg=-1.0, closer=1.0, further=-1.0, defaults=True),
        dict(on=5.0, off=0.0, neg=-1.0, closer=0.2, further=-0.2, defaults=False),
        dict(on=-1e300, off=1e-300, neg=0.0, closer=-0.0, further=float('inf'), defaults=False),
        dict(on=0, off=7, neg=3, closer=2, further=2, defaults=False),  # ints, on < off
    ]
    rng = make_rng(7)

    for walled, ps in itt.product([True, False], parameter_sets):
        if ps['defaults']:
            r_exit = reward_fs.factory('reach_exit')
            r_obstacle = reward_fs.factory('bump_moving_obstacle')
            r_wall = reward_fs.factory('bump_into_wall')
            r_over = reward_fs.factory('overlap', object_type=Door)
            r_closer = {k: reward_fs.factory('getting_closer', object_type=Exit, distance_function=f) for k, f in dist.items()}
            r_closer['manhattan'] = reward_fs.factory('getting_closer', object_type=Exit)
            r_path = reward_fs.factory('getting_closer_shortest_path', object_type=Exit)
            r_prop = reward_fs.factory('proportional_to_distance', object_type=Exit)
            r_living = reward_fs.factory('living_reward')
            on, off, neg, closer, further, living, unit = 1.0, 0.0, -1.0, 1.0, -1.0, -1.0, -1.0
        else:
            on, off, neg, closer, further = ps['on'], ps['off'], ps['neg'], ps['closer'], ps['further']
            living, unit = ps['off'], ps['neg']
            r_exit = reward_fs.factory('reach_exit', reward_on=on, reward_off=off)
            r_obstacle = reward_fs.factory('bump_moving_obstacle', reward=neg)
            r_wall = reward_fs.factory('bump_into_wall', reward=neg)
            r_over = reward_fs.factory('overlap', object_type=Door, reward_off=off, reward_on=on)
            r_closer = {
                k: reward_fs.factory(
                    'getting_closer', reward_further=further, object_type=Exit, distance_function=f, reward_closer=closer
                )
                for k, f in dist.items()
            }
            r_path = reward_fs.factory(
                'getting_closer_shortest_path', object_type=Exit, reward_closer=closer, reward_further=further
            )
            r_prop = reward_fs.factory('proportional_to_distance', object_type=Exit, reward_per_unit_distance=unit)
            r_living = reward_fs.factory('living_reward', reward=living)

        t_exit = terminating_fs.factory('reach_exit')
        t_obstacle = terminating_fs.factory('bump_moving_obstacle')
        t_wall = terminating_fs.factory('bump_into_wall')
        t_over = terminating_fs.factory('overlap', object_type=Door)
        t_any = terminating_fs.factory('reduce_any', terminating_functions=[t_exit, t_obstacle, t_wall])
        t_all = terminating_fs.factory('reduce_all', terminating_functions=[t_exit, t_wall])
        parts = [r_exit, r_obstacle, r_wall, r_closer['manhattan'], r_living]
        r_sum = reward_fs.factory('reduce_sum', reward_functions=parts)

        all_states = list(states(walled))
        for state in all_states:
            # next states: arbitrary ones (3 random picks among all states), and the state itself
            picks = [all_states[i] for i in rng.integers(len(all_states), size=3)] + [state]
            for next_state, action in itt.product(picks, Action):
                triple = (state, action, next_state)
                for kw in [{}, {'rng': rng}]:
                    on_exit = spec_on(next_state, Exit)
                    check(t_exit(*triple, **kw) is on_exit, 'reach_exit terminates iff next cell is an exit')
                    check(same_float(r_exit(*triple, **kw), on if on_exit else off), 'reach_exit reward')
                    check((r_exit(*triple, **kw) == on) == t_exit(*triple, **kw) or on == off, 'exit: reward iff termination')

                    on_obstacle = spec_on(next_state, MovingObstacle)
                    check(t_obstacle(*triple, **kw) is on_obstacle, 'bump_moving_obstacle termination')
                    check(same_float(r_obstacle(*triple, **kw), neg if on_obstacle else 0.0), 'bump_moving_obstacle reward')

                    bumps = spec_bump_wall(state, action)
                    check(t_wall(*triple, **kw) is bumps, 'bump_into_wall termination')
                    check(same_float(r_wall(*triple, **kw), neg if bumps else 0.0), 'bump_into_wall reward')

                    on_door = spec_on(next_state, Door)
                    check(t_over(*triple, **kw) is on_door, 'overlap termination')
                    check(same_float(r_over(*triple, **kw), on if on_door else off), 'overlap reward')

                    for k in r_closer:
                        prev, nxt = spec_distance(state, Exit, k), spec_distance(next_state, Exit, k)
                        check(
                            same_float(r_closer[k](*triple, **kw), spec_sign(prev, nxt, closer, further)),
                            f'getting_closer ({k}) has the sign of the change in distance',
                        )
                    check(
                        same_float(r_prop(*triple, **kw), unit * spec_distance(next_state, Exit, 'manhattan')),
                        'proportional_to_distance',
                    )
                    check(same_float(r_living(*triple, **kw), living), 'living_reward')

                    expected_any = on_exit or on_obstacle or bumps
                    check(t_any(*triple, **kw) is expected_any, 'reduce_any is the any of its parts')
                    check(t_all(*triple, **kw) is (on_exit and bumps), 'reduce_all is the all of its parts')
                    total = sum(part(*triple, **kw) for part in parts)
                    check(same_float(r_sum(*triple, **kw), total) or total != total, 'reduce_sum is the sum of its parts')
                    check(not on_exit or t_any(*triple, **kw), 'exit terminates the composite')

                # determinism: same answer when asked again
                check(r_path(*triple) == r_path(*triple), 'shortest path reward repeatable')
                check(r_path(state, action, state) == 0.0, 'shortest path: no change, no reward')

    # doors and keys: every (status, next status) pair in front of the agent, all headings
    for ps in parameter_sets[:2]:
        if ps['defaults']:
            r_door = reward_fs.factory('actuate_door')
            r_pick = reward_fs.factory('pickndrop', object_type=Key)
            opened, closed, pick, drop = 1.0, -1.0, 1.0, -1.0
        else:
            opened, closed, pick, drop = 0.5, -0.25, 3.0, -4.0
            r_door = reward_fs.factory('actuate_door', reward_close=closed, reward_open=opened)
            r_pick = reward_fs.factory('pickndrop', reward_drop=drop, object_type=Key, reward_pick=pick)
        front_objects = [Door(s, Color.YELLOW) for s in Door.Status] + [Floor(), Wall()]
        for orientation, position in itt.product(Orientation, [Position(1, 1), Position(0, 0), Position(2, 3)]):
            for before, after, action in itt.product(front_objects, front_objects, Action):
                def build(obj):
                    grid = Grid.from_shape((3, 4))
                    state = State(grid, Agent(position, orientation))
                    front = state.agent.front()
                    if grid.area.contains(front):
                        grid[front] = type(obj)(obj.state, obj.color) if isinstance(obj, Door) else type(obj)()
                    return state

                state, next_state = build(before), build(after)
                check(
                    same_float(
                        r_door(state, action, next_state),
                        spec_door(state, action, next_state, opened, closed),
                    ),
                    'actuate_door reward fires exactly on open / close',
                )
        held_objects = [None, Key(Color.YELLOW), Key(Color.NONE), MovingObstacle()]
        for held, next_held, action in itt.product(held_objects, held_objects, Action):
            state = State(Grid.from_shape((2, 3)), Agent(Position(0, 0), Orientation.L, held))
            next_state = State(Grid.from_shape((2, 3)), Agent(Position(1, 2), Orientation.F, next_held))
            check(
                same_float(
                    r_pick(state, action, next_state),
                    spec_pickndrop(state, next_state, Key, pick, drop),
                ),
                'pickndrop reward fires exactly on pick / drop',
            )

    # memory: exits of every colour (NONE included) against every beacon colour
    r_memory_default = reward_fs.factory('reach_exit_memory')
    r_memory = reward_fs.factory('reach_exit_memory', reward_bad=-5.0, reward_good=5.0)
    t_exit = terminating_fs.factory('reach_exit')
    for beacon_color, left_color, right_color in itt.product(Color, Color, Color):
        grid = Grid.from_shape((2, 3))
        grid[0, 1] = Beacon(beacon_color)
        grid[1, 0] = Exit(left_color)
        grid[1, 2] = Exit(right_color)
        for y, x, orientation in itt.product(range(2), range(3), Orientation):
            state = State(grid, Agent(Position(0, 0), Orientation.F))
            next_state = State(grid, Agent(Position(y, x), orientation))
            for action in Action:
                triple = (state, action, next_state)
                check(same_float(r_memory(*triple), spec_memory(next_state, 5.0, -5.0)), 'memory reward')
                check(same_float(r_memory_default(*triple), spec_memory(next_state, 1.0, -1.0)), 'memory reward (defaults)')
                check((r_memory(*triple) != 0.0) is t_exit(*triple), 'memory: paid iff exit termination fires')


# --------------------------------------------------------------------------------------
# part 3: compositions made through the factories
# --------------------------------------------------------------------------------------


def part_compositions():
    state = State(make_grid(True), Agent(Position(1, 1), Orientation.R))
    next_state = State(make_grid(True), Agent(Position(1, 5), Orientation.R))
    action = Action.MOVE_FORWARD

    def spy(log, label, value):
        def f(*args, **kwargs):
            log.append((label, args, kwargs))
            return value

        return f

    for rng in [None, make_rng(3)]:
        # rewards: every part once, in order, same arguments, same rng
        for values in [[], [1.5], [1.5, -2, 0.25], [0.1] * 10, [True, 2]]:
            log = []
            parts = [spy(log, i, v) for i, v in enumerate(values)]
            f = reward_fs.factory('reduce_sum', reward_functions=parts)
            check(f.keywords['reward_functions'] is parts, 'the list itself is bound')
            result = f(state, action, next_state, rng=rng) if rng is not None else f(state, action, next_state)
            check(same_float(result, sum(values)), f'reduce_sum {values}')
            check([e[0] for e in log] == list(range(len(values))), 'each part once, in order')
            for _, args, kwargs in log:
                check(len(args) == 3 and args[0] is state and args[1] is action and args[2] is next_state, 'args')
                check(list(kwargs) == ['rng'] and kwargs['rng'] is rng, 'rng forwarded')
            # a second evaluation runs everything again
            f(state, action, next_state, rng=rng)
            check(len(log) == 2 * len(values), 'no caching between calls')

            log.clear()
            g = reward_fs.factory('reduce', reward_functions=parts, reduction=lambda xs: list(xs))
            check(g(state, action, next_state, rng=rng) == values, 'reduce hands the values to the reduction')

        # terminations: any / all with their short-circuit
        for values in itt.chain.from_iterable(itt.product([False, True], repeat=n) for n in range(5)):
            values = list(values)
            for name, builtin in [('reduce_any', any), ('reduce_all', all)]:
                log = []
                parts = [spy(log, i, v) for i, v in enumerate(values)]
                f = terminating_fs.factory(name, terminating_functions=parts)
                result = f(state, action, next_state, rng=rng)
                check(result is builtin(values), f'{name} {values}')
                stop = next(
                    (i for i, v in enumerate(values) if v is (name == 'reduce_any')),
                    len(values) - 1,
                )
                check([e[0] for e in log] == list(range(stop + 1)), f'{name} {values}: parts run, in order')
                for _, args, kwargs in log:
                    check(args[0] is state and args[1] is action and args[2] is next_state and len(args) == 3, 'args')
                    check(list(kwargs) == ['rng'] and kwargs['rng'] is rng, 'rng forwarded')

    # nested compositions of real parts, built only through the factories
    inner_sum = reward_fs.factory(
        'reduce_sum',
        reward_functions=[
            reward_fs.factory('reach_exit', reward_on=5.0),
            reward_fs.factory('living_reward', reward=-0.05),
        ],
    )
    outer_sum = reward_fs.factory(
        'reduce_sum',
        reward_functions=[inner_sum, reward_fs.factory('bump_into_wall', reward=-1.0), inner_sum],
    )
    inner_any = terminating_fs.factory(
        'reduce_any',
        terminating_functions=[terminating_fs.factory('reach_exit'), terminating_fs.factory('bump_into_wall')],
    )
    outer_all = terminating_fs.factory(
        'reduce_all',
        terminating_functions=[inner_any, terminating_fs.factory('reach_exit')],
    )
    for walled in [True, False]:
        all_states = list(states(walled))
        for state, next_state in itt.product(all_states[::3], all_states[::5]):
            for action in Action:
                on_exit = spec_on(next_state, Exit)
                bumps = spec_bump_wall(state, action)
                inner = (5.0 if on_exit else 0.0) + -0.05
                check(same_float(inner_sum(state, action, next_state), 0 + inner), 'inner sum')
                expected = 0 + inner + (-1.0 if bumps else 0.0) + inner
                check(same_float(outer_sum(state, action, next_state), expected), 'nested sum')
                check(inner_any(state, action, next_state) is (on_exit or bumps), 'inner any')
                check(outer_all(state, action, next_state) is on_exit, 'nested all')
                paid = inner_sum(state, action, next_state) > 0
                check(paid is terminating_fs.factory('reach_exit')(state, action, next_state), 'paid iff terminated')


part_factories()
part_custom()
part_semantics()
part_compositions()
print(f'OK ({n_checks} checks)')
