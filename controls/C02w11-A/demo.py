"""Demo for change A (get_manhattan_boundary expressed through quarter turns).

Run from the worktree root:  /venv/bin/python _seed/A/demo.py

Exits 0 both on the pristine tree and with the patch applied.  Checks

1. `get_manhattan_boundary` against an embedded copy of the historical
   implementation (same cells, same clockwise order, fresh list per call);
2. `move_obstacles` against an embedded reference transition built on that
   copy (same next state *and* same generator state afterwards), on awkward
   grids: wall-less grids with obstacles in corners and on borders, non-square
   grids, fully packed grids where no draw must happen;
3. property C02 on whole environments: same seed => same trajectory, with the
   debug flag on or off, interleaved with other live environments, after
   re-seeding, with the library-level / numpy / stdlib generators perturbed in
   between and never touched by the seeded environments;
4. the same digests in fresh interpreters with different PYTHONHASHSEED values,
   and equal to the digests hard-coded below.
"""
import hashlib
import os
import random
import subprocess
import sys
import warnings
from functools import partial

warnings.filterwarnings('ignore')
sys.path.insert(0, os.getcwd())

import numpy as np  # noqa: E402

from gym_gridverse.action import Action  # noqa: E402
from gym_gridverse.agent import Agent  # noqa: E402
from gym_gridverse.debugging import reset_gv_debug  # noqa: E402
from gym_gridverse.envs import observation_functions as observation_fs
from gym_gridverse.envs import reset_functions as reset_fs  # noqa: E402
from gym_gridverse.envs import reward_functions as reward_fs  # noqa: E402
from gym_gridverse.envs import terminating_functions as terminating_fs
from gym_gridverse.envs import transition_functions as transition_fs
from gym_gridverse.envs.gridworld import GridWorld  # noqa: E402
from gym_gridverse.geometry import (  # noqa: E402
    Area,
    Orientation,
    Position,
    Shape,
    get_manhattan_boundary,
)
from gym_gridverse.grid import Grid  # noqa: E402
from gym_gridverse.grid_object import (  # noqa: E402
    Beacon,
    Color,
    Door,
    Exit,
    Floor,
    Key,
    MovingObstacle,
    Telepod,
    Wall,
)
from gym_gridverse.rng import get_gv_rng, make_rng, reset_gv_rng  # noqa: E402
from gym_gridverse.spaces import (  # noqa: E402
    ActionSpace,
    ObservationSpace,
    StateSpace,
)
from gym_gridverse.state import State  # noqa: E402

# digest of all trajectories of `property_digest()`, computed on the pristine
# tree (numpy 2.x, PCG64)
EXPECTED_DIGEST = '0e5c222947d72ea166796329648edfcbd3220bdd53b7f3f4f29ae8ef7a802e0a'

ALL_COLORS = [Color.NONE, Color.RED, Color.GREEN, Color.BLUE, Color.YELLOW]
OBJECTS = [Wall, Floor, Exit, MovingObstacle, Telepod, Door, Key, Beacon]


# --------------------------------------------------------------------------
# reference implementations (verbatim historical behaviour)
# --------------------------------------------------------------------------


def ref_manhattan_boundary(position, distance):
    if distance <= 0:
        raise ValueError(f'distance ({distance}) must be positive')

    boundary = []
    boundary.extend(
        Position(position.y - distance + i, position.x + i)
        for i in range(distance)
    )
    boundary.extend(
        Position(position.y + i, position.x + distance - i)
        for i in range(distance)
    )
    boundary.extend(
        Position(position.y + distance - i, position.x - i)
        for i in range(distance)
    )
    boundary.extend(
        Position(position.y - i, position.x - distance + i)
        for i in range(distance)
    )
    return boundary


def ref_move_obstacles(state, rng):
    positions = [
        Position(y, x)
        for y in range(state.grid.shape.height)
        for x in range(state.grid.shape.width)
        if isinstance(state.grid[y, x], MovingObstacle)
    ]
    for position in positions:
        next_positions = [
            p
            for p in ref_manhattan_boundary(position, 1)
            if 0 <= p.y < state.grid.shape.height
            and 0 <= p.x < state.grid.shape.width
            and isinstance(state.grid[p], Floor)
        ]
        if next_positions:
            i = rng.choice(len(next_positions))
            q = next_positions[i]
            state.grid[position], state.grid[q] = (
                state.grid[q],
                state.grid[position],
            )


# --------------------------------------------------------------------------
# fingerprints (independent of hashing and of object identity)
# --------------------------------------------------------------------------


def fp_object(obj):
    return (type(obj).__name__, int(obj.state_index), obj.color.name)


def fp_grid(grid):
    return tuple(
        tuple(fp_object(grid[y, x]) for x in range(grid.shape.width))
        for y in range(grid.shape.height)
    )


def fp_agent(agent):
    return (
        int(agent.position.y),
        int(agent.position.x),
        agent.orientation.name,
        fp_object(agent.grid_object),
    )


def fp_state(state):
    return (fp_grid(state.grid), fp_agent(state.agent))


def rng_state(rng):
    return repr(rng.bit_generator.state)


# --------------------------------------------------------------------------
# 1. unit equivalence of get_manhattan_boundary
# --------------------------------------------------------------------------


def check_boundary():
    count = 0
    for y in range(-4, 9):
        for x in range(-4, 9):
            for distance in range(1, 8):
                position = Position(y, x)
                got = get_manhattan_boundary(position, distance)
                want = ref_manhattan_boundary(position, distance)
                assert type(got) is list, type(got)
                assert got == want, (position, distance, got, want)
                assert all(type(p) is Position for p in got)
                assert all(type(p.y) is int and type(p.x) is int for p in got)
                assert len(got) == 4 * distance == len(set(got))
                assert all(
                    Position.manhattan_distance(p, position) == distance
                    for p in got
                )
                # fresh list at every call:  callers may mutate the result
                got.clear()
                assert get_manhattan_boundary(position, distance) == want
                count += 1

    # the order the obstacles rely on: up, right, down, left
    assert get_manhattan_boundary(Position(3, 5), 1) == [
        Position(2, 5),
        Position(3, 6),
        Position(4, 5),
        Position(3, 4),
    ]
    assert get_manhattan_boundary(Position(0, 0), 2) == [
        Position(-2, 0),
        Position(-1, 1),
        Position(0, 2),
        Position(1, 1),
        Position(2, 0),
        Position(1, -1),
        Position(0, -2),
        Position(-1, -1),
    ]

    # numpy integers (grids sampled through numpy produce them)
    for distance in (1, 2, 3):
        position = Position(np.int64(2), np.int64(-1))
        assert get_manhattan_boundary(
            position, distance
        ) == ref_manhattan_boundary(position, distance)

    for distance in (0, -1, -7):
        for f in (get_manhattan_boundary, ref_manhattan_boundary):
            try:
                f(Position(1, 1), distance)
            except ValueError as error:
                assert str(error) == f'distance ({distance}) must be positive'
            else:
                assert False, 'ValueError expected'

    return count


# --------------------------------------------------------------------------
# 2. move_obstacles against the reference transition
# --------------------------------------------------------------------------


def random_obstacle_state(shape, density, walls, gen):
    grid = Grid.from_shape(shape)
    height, width = shape
    for y in range(height):
        for x in range(width):
            border = y in (0, height - 1) or x in (0, width - 1)
            if walls and border:
                grid[y, x] = Wall()
            elif gen.random() < density:
                grid[y, x] = MovingObstacle()
            elif gen.random() < 0.1:
                grid[y, x] = Exit()
    # corners and borders always host obstacles in wall-less grids
    if not walls:
        for y, x in [(0, 0), (0, width - 1), (height - 1, 0)]:
            grid[y, x] = MovingObstacle()
        grid[height - 1, width - 1] = MovingObstacle()
        grid[0, width // 2] = MovingObstacle()
        grid[height // 2, 0] = MovingObstacle()
    agent = Agent(
        Position(height // 2, width // 2),
        list(Orientation)[gen.randrange(4)],
    )
    return State(grid, agent)


def check_move_obstacles():
    gen = random.Random(20240611)
    shapes = [(1, 1), (1, 6), (6, 1), (2, 2), (3, 3), (4, 4), (4, 9), (9, 4)]
    shapes += [(5, 5), (7, 3), (3, 8)]
    count = 0
    for shape in shapes:
        for walls in (False, True):
            for density in (0.0, 0.15, 0.5, 1.0):
                for seed in range(6):
                    state = random_obstacle_state(shape, density, walls, gen)
                    state_ref = State(
                        Grid(
                            [
                                [type(obj)() for obj in row]
                                for row in state.grid.objects
                            ]
                        ),
                        Agent(
                            state.agent.position, state.agent.orientation
                        ),
                    )
                    assert fp_state(state) == fp_state(state_ref)
                    rng, rng_ref = make_rng(seed), make_rng(seed)
                    # repeated calls on the same state and generator
                    for _ in range(4):
                        action = list(Action)[gen.randrange(len(Action))]
                        transition_fs.move_obstacles(state, action, rng=rng)
                        ref_move_obstacles(state_ref, rng_ref)
                        assert fp_state(state) == fp_state(state_ref), (
                            shape,
                            walls,
                            density,
                            seed,
                        )
                        assert rng_state(rng) == rng_state(rng_ref)
                    count += 1

    # a fully packed grid leaves the generator untouched
    state = random_obstacle_state((4, 5), 1.0, False, gen)
    rng = make_rng(7)
    before = rng_state(rng)
    fingerprint = fp_state(state)
    transition_fs.move_obstacles(state, Action.TURN_LEFT, rng=rng)
    assert rng_state(rng) == before
    assert fp_state(state) == fingerprint
    return count


# --------------------------------------------------------------------------
# 3. whole environments
# --------------------------------------------------------------------------


def make_env(reset_name, reset_kwargs, transitions, observation, area):
    """builds a GridWorld through the python API (no yaml)"""
    shape = reset_kwargs['shape']
    reset_function = reset_fs.factory(reset_name, **reset_kwargs)
    transition_function = partial(
        transition_fs.chain,
        transition_functions=[transition_fs.factory(n) for n in transitions],
    )
    reward_function = partial(
        reward_fs.reduce_sum,
        reward_functions=[
            reward_fs.factory('reach_exit', reward_on=5.0, reward_off=0.0),
            reward_fs.factory('bump_moving_obstacle', reward=-1.0),
            reward_fs.factory('bump_into_wall', reward=-1.0),
            reward_fs.factory('living_reward', reward=-0.05),
        ],
    )
    terminating_function = partial(
        terminating_fs.reduce_any,
        terminating_functions=[
            terminating_fs.factory('reach_exit'),
            terminating_fs.factory('bump_moving_obstacle'),
        ],
    )
    observation_function = observation_fs.factory(observation, area=area)
    return GridWorld(
        StateSpace(shape, OBJECTS, ALL_COLORS),
        ActionSpace(list(Action)),
        ObservationSpace(Shape(area.height, area.width), OBJECTS, ALL_COLORS),
        reset_function,
        transition_function,
        observation_function,
        reward_function,
        terminating_function,
    )


MOVES = ['move_agent', 'turn_agent']

CONFIGS = {
    # shipped configurations (python spelling of yaml/gv_dynamic_obstacles.*)
    'dynamic_obstacles.5x5': (
        'dynamic_obstacles',
        dict(shape=Shape(5, 5), num_obstacles=1, random_agent=False),
        MOVES + ['move_obstacles'],
        'partially_occluded',
        Area((-6, 0), (-3, 3)),
    ),
    'dynamic_obstacles.7x7': (
        'dynamic_obstacles',
        dict(shape=Shape(7, 7), num_obstacles=2, random_agent=False),
        MOVES + ['move_obstacles'],
        'partially_occluded',
        Area((-6, 0), (-3, 3)),
    ),
    # non-square, crowded, random agent, asymmetric-looking view, stochastic
    # observations sharing the generator with the obstacles
    'dynamic_obstacles.5x9.crowded': (
        'dynamic_obstacles',
        dict(shape=Shape(5, 9), num_obstacles=12, random_agent=True),
        MOVES + ['move_obstacles'],
        'stochastic_raytracing',
        Area((-4, 0), (-1, 1)),
    ),
    'dynamic_obstacles.9x4.tall': (
        'dynamic_obstacles',
        dict(shape=Shape(9, 4), num_obstacles=5, random_agent=True),
        MOVES + ['move_obstacles'],
        'raytracing',
        Area((-2, 0), (-2, 2)),
    ),
    # smallest legal grid: every free cell but the agent's is an obstacle
    'dynamic_obstacles.4x4.full': (
        'dynamic_obstacles',
        dict(shape=Shape(4, 4), num_obstacles=2, random_agent=True),
        MOVES + ['move_obstacles'],
        'fully_transparent',
        Area((-3, 0), (-1, 1)),
    ),
    'dynamic_obstacles.6x6.none': (
        'dynamic_obstacles',
        dict(shape=Shape(6, 6), num_obstacles=0, random_agent=True),
        MOVES + ['move_obstacles'],
        'partially_occluded',
        Area((-1, 0), (0, 0)),
    ),
    # other stochastic compositions
    'teleport.7x7+obstacles': (
        'teleport',
        dict(shape=Shape(7, 7)),
        MOVES + ['teleport', 'move_obstacles'],
        'stochastic_raytracing',
        Area((-6, 0), (-3, 3)),
    ),
    'rooms.9x11': (
        'rooms',
        dict(shape=Shape(9, 11), layout=(2, 2)),
        MOVES + ['move_obstacles'],
        'partially_occluded',
        Area((-3, 0), (-2, 2)),
    ),
    'keydoor.5x8': (
        'keydoor',
        dict(shape=Shape(5, 8)),
        MOVES + ['actuate_door', 'pickndrop'],
        'raytracing',
        Area((-6, 0), (-3, 3)),
    ),
    'crossing.7x9': (
        'crossing',
        dict(shape=Shape(7, 9), num_rivers=3, object_type=Wall),
        MOVES,
        'partially_occluded',
        Area((-6, 0), (-3, 3)),
    ),
    'memory.5x7': (
        'memory',
        dict(shape=Shape(5, 7), colors={Color.RED, Color.BLUE, Color.YELLOW}),
        MOVES,
        'fully_transparent',
        Area((-4, 0), (-3, 3)),
    ),
}

SEEDS = [0, 1, 2, 1337, 0xDEADBEEF]
NUM_STEPS = 40


def actions_for(name, seed):
    gen = random.Random(f'{name}/{seed}')
    actions = list(Action)
    return [actions[gen.randrange(len(actions))] for _ in range(NUM_STEPS)]


def rollout_iter(env, seed, actions):
    """yields the fingerprints of one seeded episode, one step at a time"""
    env.set_seed(seed)
    env.reset()
    yield ('reset', fp_state(env.state), fp_state(env.observation))
    for action in actions:
        reward, done = env.step(action)
        yield (
            action.name,
            fp_state(env.state),
            fp_state(env.observation),
            float(reward),
            bool(done),
        )
        if done:
            env.reset()
            yield ('reset', fp_state(env.state), fp_state(env.observation))


def rollout(env, seed, actions):
    return list(rollout_iter(env, seed, actions))


def global_sources():
    return (
        rng_state(get_gv_rng()),
        repr(np.random.get_state()),
        repr(random.getstate()),
    )


def check_environments():
    trajectories = {}

    # library-level / global generators in a known state
    reset_gv_rng(99)
    np.random.seed(99)
    random.seed(99)
    before = global_sources()

    for name, config in CONFIGS.items():
        for seed in SEEDS:
            actions = actions_for(name, seed)

            reset_gv_debug(True)
            env = make_env(*config)
            trajectory = rollout(env, seed, actions)

            # a second environment from the same configuration
            assert rollout(make_env(*config), seed, actions) == trajectory

            # the same environment, re-seeded
            assert rollout(env, seed, actions) == trajectory

            # debug flag off
            reset_gv_debug(False)
            assert rollout(make_env(*config), seed, actions) == trajectory
            reset_gv_debug(True)

            trajectories[name, seed] = trajectory

    # seeded environments never touch the global sources
    assert global_sources() == before

    # ... nor depend on them
    reset_gv_rng(12345)
    np.random.seed(12345)
    random.seed(12345)
    get_gv_rng().random(17)
    for name, config in CONFIGS.items():
        seed = SEEDS[-1]
        actions = actions_for(name, seed)
        assert rollout(make_env(*config), seed, actions) == trajectories[
            name, seed
        ]

    # interleavings of several live environments (round-robin and random)
    gen = random.Random(5)
    keys = list(trajectories)
    for _ in range(6):
        sample = gen.sample(keys, 5)
        sample.append(sample[0])  # two live copies of the very same env+seed
        iterators = [
            rollout_iter(make_env(*CONFIGS[name]), seed, actions_for(name, seed))
            for name, seed in sample
        ]
        results = [[] for _ in sample]
        live = list(range(len(sample)))
        while live:
            i = live[gen.randrange(len(live))]
            try:
                results[i].append(next(iterators[i]))
            except StopIteration:
                live.remove(i)
            else:
                # unseeded use of the library in between
                if gen.random() < 0.2:
                    get_gv_rng().random()
        for key, result in zip(sample, results):
            assert result == trajectories[key], key

    # different seeds do differ (the checks above are not vacuous)
    assert (
        trajectories['dynamic_obstacles.7x7', 0]
        != trajectories['dynamic_obstacles.7x7', 1]
    )

    return trajectories


def digest_of(trajectories):
    h = hashlib.sha256()
    for key in sorted(trajectories, key=repr):
        h.update(repr(key).encode())
        h.update(repr(trajectories[key]).encode())
    return h.hexdigest()


def property_digest():
    trajectories = {}
    reset_gv_debug(True)
    for name, config in CONFIGS.items():
        for seed in SEEDS:
            trajectories[name, seed] = rollout(
                make_env(*config), seed, actions_for(name, seed)
            )
    return digest_of(trajectories)


# --------------------------------------------------------------------------
# 4. other interpreter processes
# --------------------------------------------------------------------------


def check_processes(digest):
    for hashseed in ['0', '4242', 'random']:
        env = dict(os.environ, PYTHONHASHSEED=hashseed)
        output = subprocess.run(
            [sys.executable, os.path.abspath(__file__), '--child'],
            env=env,
            cwd=os.getcwd(),
            check=True,
            stdout=subprocess.PIPE,
            stderr=subprocess.DEVNULL,
        ).stdout.decode()
        child = output.strip().splitlines()[-1]
        assert child == digest, (hashseed, child, digest)


def main():
    if '--child' in sys.argv:
        print(property_digest())
        return

    n = check_boundary()
    print(f'boundary: {n} (position, distance) pairs agree with the reference')
    n = check_move_obstacles()
    print(f'move_obstacles: {n} scenarios agree with the reference transition')
    trajectories = check_environments()
    print(f'environments: {len(trajectories)} (configuration, seed) pairs ok')
    digest = digest_of(trajectories)
    assert digest == property_digest()
    check_processes(digest)
    print('processes: digests agree across PYTHONHASHSEED values')
    assert digest == EXPECTED_DIGEST, digest
    print('digest:', digest)
    print('OK')


if __name__ == '__main__':
    main()
