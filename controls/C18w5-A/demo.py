"""Behaviour check for the geometry algebra (property C18).

Run as:  cd /tmp/wt5-C18 && /venv/bin/python -W ignore _seed/A/demo.py

All reference values are computed by an independent re-implementation
(2x2 integer matrices + translation vectors on plain tuples); the library is
only the system under test.
"""
import os
import sys

sys.path.insert(0, os.getcwd())

import itertools as itt
import math
import random

from gym_gridverse.action import Action
from gym_gridverse.agent import Agent
from gym_gridverse.envs.utils import get_next_position
from gym_gridverse.geometry import (
    Area,
    Orientation,
    Position,
    Transform,
)
from gym_gridverse.grid import Grid
from gym_gridverse.grid_object import Color, Floor, Hidden, Key, Wall

O = Orientation
ORIENTATIONS = [O.FORWARD, O.BACKWARD, O.LEFT, O.RIGHT]

# --------------------------------------------------------------------------
# independent model: orientation -> matrix ((a, b), (c, d)) acting on (y, x)
# --------------------------------------------------------------------------
MAT = {
    'FORWARD': ((1, 0), (0, 1)),
    'BACKWARD': ((-1, 0), (0, -1)),
    'RIGHT': ((0, 1), (-1, 0)),
    'LEFT': ((0, -1), (1, 0)),
}
NAME_OF_MAT = {m: n for n, m in MAT.items()}


def m_mul(m, n):
    return tuple(
        tuple(sum(m[i][k] * n[k][j] for k in range(2)) for j in range(2))
        for i in range(2)
    )


def m_act(m, yx):
    y, x = yx
    return (m[0][0] * y + m[0][1] * x, m[1][0] * y + m[1][1] * x)


def ref_omul(a, b):
    return NAME_OF_MAT[m_mul(MAT[a], MAT[b])]


def ref_oneg(a):
    for b in MAT:
        if ref_omul(a, b) == 'FORWARD':
            return b
    raise AssertionError


def ref_area_positions(ys, xs):
    return {
        (y, x) for y in range(ys[0], ys[1] + 1) for x in range(xs[0], xs[1] + 1)
    }


def ref_t_compose(t, s):
    (ty, tx, to), (sy, sx, so) = t, s
    ry, rx = m_act(MAT[to], (sy, sx))
    return (ty + ry, tx + rx, ref_omul(to, so))


def ref_t_act(t, yx):
    ty, tx, to = t
    ry, rx = m_act(MAT[to], yx)
    return (ty + ry, tx + rx)


def ref_t_inv(t):
    ty, tx, to = t
    inv = ref_oneg(to)
    ry, rx = m_act(MAT[inv], (ty, tx))
    return (-ry, -rx, inv)


def T(t):
    y, x, o = t
    return Transform(Position(y, x), O[o])


def as_t(transform):
    assert type(transform) is Transform
    assert type(transform.position) is Position
    assert type(transform.orientation) is Orientation
    return (transform.position.y, transform.position.x, transform.orientation.name)


counts = {}


def tick(name, n=1):
    counts[name] = counts.get(name, 0) + n


rng = random.Random(18)

SMALL = range(-4, 5)
small_positions = [(y, x) for y in SMALL for x in SMALL]
big_positions = [
    (rng.randint(-(10**15), 10**15), rng.randint(-(10**15), 10**15))
    for _ in range(300)
] + [
    (rng.randint(-50, 50), rng.randint(-50, 50)) for _ in range(300)
]
all_positions = small_positions + big_positions

# --------------------------------------------------------------------------
# 1. orientations: cyclic group of quarter turns, FORWARD identity
# --------------------------------------------------------------------------
assert O.F is O.FORWARD and O.B is O.BACKWARD
assert O.L is O.LEFT and O.R is O.RIGHT
assert len(list(O)) == 4

for a, b in itt.product(ORIENTATIONS, repeat=2):
    got = a * b
    assert type(got) is Orientation
    assert got is O[ref_omul(a.name, b.name)], (a, b, got)
    assert a * b is b * a  # abelian
    assert a.__rmul__(b) is got
    tick('o*o')

for a in ORIENTATIONS:
    assert a * O.FORWARD is a and O.FORWARD * a is a
    assert -a is O[ref_oneg(a.name)]
    assert a * -a is O.FORWARD and -a * a is O.FORWARD
    assert a * a * a * a is O.FORWARD
    tick('o-identity-inverse')

for a, b, c in itt.product(ORIENTATIONS, repeat=3):
    assert (a * b) * c is a * (b * c)
    tick('o-assoc')

# cyclic: RIGHT and LEFT are generators of order 4, BACKWARD has order 2
for gen in (O.RIGHT, O.LEFT):
    powers = [O.FORWARD]
    for _ in range(3):
        powers.append(powers[-1] * gen)
    assert len(set(powers)) == 4
    assert powers[-1] * gen is O.FORWARD
assert O.BACKWARD * O.BACKWARD is O.FORWARD
assert O.RIGHT * O.RIGHT is O.BACKWARD and O.LEFT * O.LEFT is O.BACKWARD
assert -O.FORWARD is O.FORWARD and -O.BACKWARD is O.BACKWARD
assert -O.LEFT is O.RIGHT and -O.RIGHT is O.LEFT

# unit vectors
assert Position.from_orientation(O.FORWARD) == Position(-1, 0)
assert Position.from_orientation(O.RIGHT) == Position(0, 1)
assert Position.from_orientation(O.BACKWARD) == Position(1, 0)
assert Position.from_orientation(O.LEFT) == Position(0, -1)
for a, b in itt.product(ORIENTATIONS, repeat=2):
    # from_orientation is equivariant
    assert a * Position.from_orientation(b) == Position.from_orientation(a * b)
try:
    Position.from_orientation('FORWARD')
except TypeError:
    pass
else:
    raise AssertionError('from_orientation must reject non-orientations')

# --------------------------------------------------------------------------
# 2. orientations act linearly and isometrically on positions
# --------------------------------------------------------------------------
for o in ORIENTATIONS:
    for yx in all_positions:
        p = Position(*yx)
        got = o * p
        assert type(got) is Position
        assert got is not p  # always a fresh value object
        assert got.yx == m_act(MAT[o.name], yx), (o, yx, got)
        assert type(got.y) is int and type(got.x) is int
        assert p * o == got  # reflected operand
        assert p == Position(*yx)  # argument untouched
        # isometry (about the origin)
        assert abs(got.y) + abs(got.x) == abs(yx[0]) + abs(yx[1])
        assert got.y**2 + got.x**2 == yx[0] ** 2 + yx[1] ** 2
        # negation commutes
        assert o * -p == -(o * p)
        # inverse undoes
        assert -o * (o * p) == p
        tick('o*p')

for o in ORIENTATIONS:
    for _ in range(2000):
        p = Position(*rng.choice(all_positions))
        q = Position(*rng.choice(all_positions))
        assert o * (p + q) == o * p + o * q
        assert o * (p - q) == o * p - o * q
        assert Position.manhattan_distance(
            o * p, o * q
        ) == Position.manhattan_distance(p, q)
        d0 = Position.euclidean_distance(p, q)
        d1 = Position.euclidean_distance(o * p, o * q)
        assert d0 == d1 == math.sqrt((p.y - q.y) ** 2 + (p.x - q.x) ** 2)
        tick('o-linear-isometric')

for a, b in itt.product(ORIENTATIONS, repeat=2):
    for yx in small_positions + big_positions[:40]:
        p = Position(*yx)
        assert (a * b) * p == a * (b * p)
        tick('o-action-compat')

# unsupported operands
for bad in (3, 'x', None, (1, 2), 1.5):
    for o in ORIENTATIONS:
        try:
            o * bad  # pylint: disable=pointless-statement
        except TypeError:
            pass
        else:
            raise AssertionError((o, bad))
        assert o.__mul__(bad) is NotImplemented
        tick('o-notimplemented')

# --------------------------------------------------------------------------
# 3. areas
# --------------------------------------------------------------------------
areas = []
for y0, x0 in itt.product(range(-3, 3), repeat=2):
    for h, w in itt.product(range(0, 4), repeat=2):
        areas.append(((y0, y0 + h), (x0, x0 + w)))
for _ in range(150):
    y0 = rng.randint(-(10**12), 10**12)
    x0 = rng.randint(-(10**12), 10**12)
    areas.append(((y0, y0 + rng.randint(0, 5)), (x0, x0 + rng.randint(0, 5))))

for o in ORIENTATIONS:
    for ys, xs in areas:
        area = Area(ys, xs)
        got = o * area
        assert type(got) is Area
        assert got is not area
        assert type(got.ys) is tuple and type(got.xs) is tuple
        expected = {m_act(MAT[o.name], yx) for yx in ref_area_positions(ys, xs)}
        got_positions = [p.yx for p in got.positions()]
        assert len(got_positions) == len(set(got_positions)) == len(expected)
        assert set(got_positions) == expected
        assert area * o == got
        assert (got.height, got.width) in (
            (area.height, area.width),
            (area.width, area.height),
        )
        assert -o * got == area
        # same as transforming the positions with the library itself
        assert {p.yx for p in got.positions()} == {
            (o * p).yx for p in area.positions()
        }
        assert area == Area(ys, xs)
        tick('o*area')

for ys, xs in areas[:200]:
    area = Area(ys, xs)
    for yx in small_positions[::3]:
        p = Position(*yx)
        got = p + area
        assert type(got) is Area
        assert {q.yx for q in got.positions()} == {
            (y + yx[0], x + yx[1]) for y, x in ref_area_positions(ys, xs)
        }
        assert area + p == got
        tick('p+area')

# --------------------------------------------------------------------------
# 4. transforms (poses)
# --------------------------------------------------------------------------
small_ts = [
    (y, x, o) for y in range(-2, 3) for x in range(-2, 3) for o in MAT
]  # 100
rand_ts = [
    (rng.randint(-(10**12), 10**12), rng.randint(-(10**12), 10**12), o)
    for o in MAT
    for _ in range(10)
]
all_ts = small_ts + rand_ts

identity = Transform(Position(0, 0), O.FORWARD)

for t in all_ts:
    tt = T(t)
    assert tt * identity == tt and identity * tt == tt
    inv = -tt
    assert as_t(inv) == ref_t_inv(t), (t, inv)
    assert tt * inv == identity and inv * tt == identity
    assert -inv == tt
    assert as_t(tt) == t  # untouched
    assert hash(tt) == hash(T(t)) and tt == T(t)
    # acting on orientations
    for o in ORIENTATIONS:
        assert tt * o is O[ref_omul(t[2], o.name)]
        assert o * tt is tt * o
    tick('t-identity-inverse')

for t, s in itt.product(all_ts, small_ts[::3] + rand_ts[::5]):
    tt, ss = T(t), T(s)
    got = tt * ss
    assert as_t(got) == ref_t_compose(t, s), (t, s, got)
    assert got is not tt and got is not ss
    assert as_t(tt) == t and as_t(ss) == s
    assert tt.__rmul__(ss) == got
    tick('t*t')

for _ in range(6000):
    t, s, u = rng.choice(all_ts), rng.choice(all_ts), rng.choice(all_ts)
    assert (T(t) * T(s)) * T(u) == T(t) * (T(s) * T(u))
    assert as_t((T(t) * T(s)) * T(u)) == ref_t_compose(ref_t_compose(t, s), u)
    assert -(T(t) * T(s)) == -T(s) * -T(t)
    tick('t-assoc')

for t in all_ts:
    tt = T(t)
    for yx in small_positions[::2] + big_positions[:30]:
        p = Position(*yx)
        got = tt * p
        assert type(got) is Position
        assert got.yx == ref_t_act(t, yx)
        assert p * tt == got
        assert -tt * got == p
        tick('t*p')

for _ in range(6000):
    t, s = rng.choice(all_ts), rng.choice(all_ts)
    p = Position(*rng.choice(all_positions))
    q = Position(*rng.choice(all_positions))
    tt, ss = T(t), T(s)
    assert (tt * ss) * p == tt * (ss * p)
    assert (tt * ss) * p == Position(*ref_t_act(t, ref_t_act(s, p.yx)))
    # rigid motion: distances preserved
    assert Position.manhattan_distance(
        tt * p, tt * q
    ) == Position.manhattan_distance(p, q)
    assert Position.euclidean_distance(
        tt * p, tt * q
    ) == Position.euclidean_distance(p, q)
    tick('t-action-compat')

for t in small_ts[::2] + rand_ts[::2]:
    tt = T(t)
    for ys, xs in areas[::7]:
        area = Area(ys, xs)
        got = tt * area
        assert type(got) is Area
        assert {p.yx for p in got.positions()} == {
            ref_t_act(t, yx) for yx in ref_area_positions(ys, xs)
        }
        assert {p.yx for p in got.positions()} == {
            (tt * p).yx for p in area.positions()
        }
        assert area * tt == got
        assert -tt * got == area
        tick('t*area')

for s in small_ts[::9]:
    for t in small_ts[::7]:
        for ys, xs in areas[::41]:
            area = Area(ys, xs)
            assert (T(t) * T(s)) * area == T(t) * (T(s) * area)
            tick('t-area-compat')

for bad in (3, 'x', None, (1, 2), 1.5):
    tt = T(small_ts[7])
    try:
        tt * bad  # pylint: disable=pointless-statement
    except TypeError:
        pass
    else:
        raise AssertionError(bad)
    assert tt.__mul__(bad) is NotImplemented
    tick('t-notimplemented')

# agent helpers built on the pose algebra
for t in small_ts:
    y, x, o = t
    agent = Agent(Position(y, x), O[o])
    assert agent.position == Position(y, x) and agent.orientation is O[o]
    assert agent.front().yx == ref_t_act(t, (-1, 0))
    tick('agent-front')

# --------------------------------------------------------------------------
# 5. tentative-next-position helper agrees with the pose algebra
# --------------------------------------------------------------------------
MOVES = {
    Action.MOVE_FORWARD: (-1, 0),
    Action.MOVE_BACKWARD: (1, 0),
    Action.MOVE_LEFT: (0, -1),
    Action.MOVE_RIGHT: (0, 1),
}
assert len(list(Action)) == 8
for o in ORIENTATIONS:
    for yx in small_positions + big_positions[:100]:
        p = Position(*yx)
        for action in Action:
            got = get_next_position(p, o, action)
            assert type(got) is Position
            if action in MOVES:
                assert got.yx == ref_t_act((yx[0], yx[1], o.name), MOVES[action])
                assert got == Transform(p, o) * Position(*MOVES[action])
                assert Position.manhattan_distance(got, p) == 1
            else:
                assert got is p
            assert p == Position(*yx)
            tick('next-position')

# --------------------------------------------------------------------------
# 6. grid rotations
# --------------------------------------------------------------------------


def make_grid(height, width, seed):
    r = random.Random(seed)
    colors = list(Color)
    rows = []
    for _ in range(height):
        row = []
        for _ in range(width):
            k = r.randrange(3)
            row.append(
                Floor() if k == 0 else Wall() if k == 1 else Key(r.choice(colors))
            )
        rows.append(row)
    return rows


shapes = [(h, w) for h in range(1, 7) for w in range(1, 7)] + [
    (1, 13),
    (13, 1),
    (9, 14),
    (14, 9),
]
for (h, w), seed in itt.product(shapes, range(3)):
    rows = make_grid(h, w, seed)
    snapshot = [list(row) for row in rows]
    grid = Grid(rows)
    all_ids = sorted(id(obj) for row in rows for obj in row)
    assert len(set(all_ids)) == h * w

    for o in ORIENTATIONS:
        rotated = o * grid
        assert type(rotated) is Grid
        assert (grid * o).objects == rotated.objects
        if o in (O.FORWARD, O.BACKWARD):
            assert rotated.shape.as_tuple == (h, w)
        else:
            assert rotated.shape.as_tuple == (w, h)
        assert rotated.area == Area(
            (0, rotated.shape.height - 1), (0, rotated.shape.width - 1)
        )
        assert type(rotated.objects) is list
        assert all(type(row) is list for row in rotated.objects)
        # rearranges but preserves its objects (same identities, once each)
        assert (
            sorted(id(obj) for row in rotated.objects for obj in row) == all_ids
        )
        # where does each cell go?  the product follows the frame-change
        # convention: a cell at p lands on (-o) * p, and the rotated grid's
        # area is that rotated area shifted back to the origin
        m = MAT[ref_oneg(o.name)]
        images = {yx: m_act(m, yx) for yx in ref_area_positions((0, h - 1), (0, w - 1))}
        oy = min(y for y, _ in images.values())
        ox = min(x for _, x in images.values())
        for (y, x), (ry, rx) in images.items():
            assert rotated.objects[ry - oy][rx - ox] is rows[y][x]
            assert rotated[Position(ry - oy, rx - ox)] is grid[Position(y, x)]
        # agrees with the library's own area rotation
        rotated_area = -o * grid.area
        shift = Position(-rotated_area.ymin, -rotated_area.xmin)
        assert shift + rotated_area == rotated.area
        for p in grid.area.positions():
            assert rotated[shift + -o * p] is grid[p]
        # the inverse rotation undoes it
        back = -o * rotated
        assert back.shape == grid.shape
        assert all(
            back.objects[y][x] is rows[y][x] for y in range(h) for x in range(w)
        )
        assert back == grid and hash(back) == hash(grid)
        # composition
        for o2 in ORIENTATIONS:
            twice = o2 * rotated
            direct = (o2 * o) * grid
            assert twice.shape == direct.shape
            assert all(
                a is b
                for ra, rb in zip(twice.objects, direct.objects)
                for a, b in zip(ra, rb)
            )
        # original grid untouched
        assert grid.objects is rows
        assert all(
            a is b for ra, rb in zip(rows, snapshot) for a, b in zip(ra, rb)
        )
        assert [len(r) for r in rows] == [w] * h
        # aliasing contract of the current implementation
        if o is O.FORWARD:
            assert rotated.objects is grid.objects
        else:
            assert rotated.objects is not grid.objects
            assert all(
                ra is not rb for ra in rotated.objects for rb in grid.objects
            )
        tick('grid-rotation')

    for bad in (3, 'x', None, Position(0, 0)):
        try:
            grid * bad  # pylint: disable=pointless-statement
        except TypeError:
            pass
        else:
            raise AssertionError(bad)
        assert grid.__mul__(bad) is NotImplemented
    try:
        grid * [1]  # unhashable operand
    except TypeError:
        pass
    else:
        raise AssertionError

# documented example:  RIGHT * ABC/DEF/GHI == CFI/BEH/ADG
letters = {c: Key(Color.RED) for c in 'ABCDEFGHI'}
g = Grid([[letters[c] for c in row] for row in ('ABC', 'DEF', 'GHI')])
name_of = {id(v): k for k, v in letters.items()}


def spell(grid):
    return [''.join(name_of[id(obj)] for obj in row) for row in grid.objects]


assert spell(O.RIGHT * g) == ['CFI', 'BEH', 'ADG']
assert spell(O.LEFT * g) == ['GDA', 'HEB', 'IFC']
assert spell(O.BACKWARD * g) == ['IHG', 'FED', 'CBA']
assert spell(O.FORWARD * g) == ['ABC', 'DEF', 'GHI']

# subgrid + rotation, as used for agent views
for h, w in [(4, 5), (6, 3)]:
    rows = make_grid(h, w, 99)
    grid = Grid(rows)
    for t in [(y, x, o) for y in range(h) for x in range(w) for o in MAT]:
        tt = T(t)
        view_area = Area((-3, 1), (-2, 2))
        area = tt * view_area
        sub = grid.subgrid(area)
        view = sub * tt.orientation
        assert view.shape.as_tuple == (5, 5)
        for vy in range(-3, 2):
            for vx in range(-2, 3):
                gy, gx = ref_t_act(t, (vy, vx))
                obj = view.objects[vy + 3][vx + 2]
                if 0 <= gy < h and 0 <= gx < w:
                    assert obj is rows[gy][gx]
                else:
                    assert type(obj) is Hidden
        tick('view')

print('OK', ' '.join(f'{k}={v}' for k, v in sorted(counts.items())))
