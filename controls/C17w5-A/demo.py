"""C17 demo: configurations build exactly the environment they describe, or
are rejected.

Run as:  cd /tmp/wt5-C17 && /venv/bin/python -W ignore _seed/X/demo.py

The shipped YAML configurations (yaml/, gym_gridverse/registered_envs/ --
byte-identical copies -- and examples/coin_env.yaml) were transcribed to the
python literal CONFIGS below (PyYAML is not available at runtime).  The
reference behaviour is computed by an independent re-implementation of the
"assembly by hand" (class HandEnv / hand_component), which looks the functions
up in the module namespaces, filters the parameters by its own reading of the
signatures, converts the parameters itself, and steps the environment with
explicit loops (no GridWorld, no `chain`, no `reduce_sum`).
"""
import os
import sys

sys.path.insert(0, os.getcwd())
sys.path.insert(0, os.path.join(os.getcwd(), 'examples'))  # coin_env:...

CONFIGS = {'gv_crossing.5x5.yaml': {'state_space': {'objects': ['Wall', 'Floor', 'Exit'], 'colors': ['NONE']},
                          'action_space': ['MOVE_FORWARD', 'MOVE_BACKWARD', 'MOVE_LEFT', 'MOVE_RIGHT', 'TURN_LEFT',
                                           'TURN_RIGHT'],
                          'observation_space': {'objects': ['Wall', 'Floor', 'Exit'], 'colors': ['NONE']},
                          'reset_function': {'name': 'crossing',
                                             'shape': [5, 5],
                                             'num_rivers': 1,
                                             'object_type': 'Wall'},
                          'transition_functions': [{'name': 'move_agent'}, {'name': 'turn_agent'}],
                          'reward_functions': [{'name': 'reach_exit', 'reward_on': 5.0, 'reward_off': 0.0},
                                               {'name': 'getting_closer',
                                                'distance_function': 'manhattan',
                                                'object_type': 'Exit',
                                                'reward_closer': 0.2,
                                                'reward_further': -0.2},
                                               {'name': 'living_reward', 'reward': -0.05}],
                          'observation_function': {'name': 'partially_occluded', 'area': [[-6, 0], [-3, 3]]},
                          'terminating_function': {'name': 'reach_exit'}},
 'gv_crossing.7x7.yaml': {'state_space': {'objects': ['Wall', 'Floor', 'Exit'], 'colors': ['NONE']},
                          'action_space': ['MOVE_FORWARD', 'MOVE_BACKWARD', 'MOVE_LEFT', 'MOVE_RIGHT', 'TURN_LEFT',
                                           'TURN_RIGHT'],
                          'observation_space': {'objects': ['Wall', 'Floor', 'Exit'], 'colors': ['NONE']},
                          'reset_function': {'name': 'crossing',
                                             'shape': [7, 7],
                                             'num_rivers': 2,
                                             'object_type': 'Wall'},
                          'transition_functions': [{'name': 'move_agent'}, {'name': 'turn_agent'}],
                          'reward_functions': [{'name': 'reach_exit', 'reward_on': 5.0, 'reward_off': 0.0},
                                               {'name': 'getting_closer',
                                                'distance_function': 'manhattan',
                                                'object_type': 'Exit',
                                                'reward_closer': 0.2,
                                                'reward_further': -0.2},
                                               {'name': 'living_reward', 'reward': -0.05}],
                          'observation_function': {'name': 'partially_occluded', 'area': [[-6, 0], [-3, 3]]},
                          'terminating_function': {'name': 'reach_exit'}},
 'gv_dynamic_obstacles.5x5.yaml': {'state_space': {'objects': ['Wall', 'Floor', 'Exit', 'MovingObstacle'],
                                                   'colors': ['NONE']},
                                   'action_space': ['MOVE_FORWARD', 'MOVE_BACKWARD', 'MOVE_LEFT', 'MOVE_RIGHT',
                                                    'TURN_LEFT', 'TURN_RIGHT'],
                                   'observation_space': {'objects': ['Wall', 'Floor', 'Exit', 'MovingObstacle'],
                                                         'colors': ['NONE']},
                                   'reset_function': {'name': 'dynamic_obstacles',
                                                      'shape': [5, 5],
                                                      'num_obstacles': 1,
                                                      'random_agent': False},
                                   'transition_functions': [{'name': 'move_agent'}, {'name': 'turn_agent'},
                                                            {'name': 'move_obstacles'}],
                                   'reward_functions': [{'name': 'reach_exit', 'reward_on': 5.0, 'reward_off': 0.0},
                                                        {'name': 'bump_moving_obstacle', 'reward': -1.0},
                                                        {'name': 'bump_into_wall', 'reward': -1.0},
                                                        {'name': 'getting_closer',
                                                         'distance_function': 'manhattan',
                                                         'object_type': 'Exit',
                                                         'reward_closer': 0.2,
                                                         'reward_further': -0.2},
                                                        {'name': 'living_reward', 'reward': -0.05}],
                                   'observation_function': {'name': 'partially_occluded', 'area': [[-6, 0], [-3, 3]]},
                                   'terminating_function': {'name': 'reduce_any',
                                                            'terminating_functions': [{'name': 'reach_exit'},
                                                                                      {'name': 'bump_moving_obstacle'},
                                                                                      {'name': 'bump_into_wall'}]}},
 'gv_dynamic_obstacles.7x7.yaml': {'state_space': {'objects': ['Wall', 'Floor', 'Exit', 'MovingObstacle'],
                                                   'colors': ['NONE']},
                                   'action_space': ['MOVE_FORWARD', 'MOVE_BACKWARD', 'MOVE_LEFT', 'MOVE_RIGHT',
                                                    'TURN_LEFT', 'TURN_RIGHT'],
                                   'observation_space': {'objects': ['Wall', 'Floor', 'Exit', 'MovingObstacle'],
                                                         'colors': ['NONE']},
                                   'reset_function': {'name': 'dynamic_obstacles',
                                                      'shape': [7, 7],
                                                      'num_obstacles': 2,
                                                      'random_agent': False},
                                   'transition_functions': [{'name': 'move_agent'}, {'name': 'turn_agent'},
                                                            {'name': 'move_obstacles'}],
                                   'reward_functions': [{'name': 'reach_exit', 'reward_on': 5.0, 'reward_off': 0.0},
                                                        {'name': 'bump_moving_obstacle', 'reward': -1.0},
                                                        {'name': 'bump_into_wall', 'reward': -1.0},
                                                        {'name': 'getting_closer',
                                                         'distance_function': 'manhattan',
                                                         'object_type': 'Exit',
                                                         'reward_closer': 0.2,
                                                         'reward_further': -0.2},
                                                        {'name': 'living_reward', 'reward': -0.05}],
                                   'observation_function': {'name': 'partially_occluded', 'area': [[-6, 0], [-3, 3]]},
                                   'terminating_function': {'name': 'reduce_any',
                                                            'terminating_functions': [{'name': 'reach_exit'},
                                                                                      {'name': 'bump_moving_obstacle'},
                                                                                      {'name': 'bump_into_wall'}]}},
 'gv_empty.4x4.yaml': {'state_space': {'objects': ['Wall', 'Floor', 'Exit'], 'colors': ['NONE']},
                       'action_space': ['MOVE_FORWARD', 'MOVE_BACKWARD', 'MOVE_LEFT', 'MOVE_RIGHT', 'TURN_LEFT',
                                        'TURN_RIGHT'],
                       'observation_space': {'objects': ['Wall', 'Floor', 'Exit'], 'colors': ['NONE']},
                       'reset_function': {'name': 'empty', 'shape': [4, 4], 'random_agent': True},
                       'transition_functions': [{'name': 'move_agent'}, {'name': 'turn_agent'}],
                       'reward_functions': [{'name': 'reach_exit', 'reward_on': 5.0, 'reward_off': 0.0},
                                            {'name': 'getting_closer',
                                             'distance_function': 'manhattan',
                                             'object_type': 'Exit',
                                             'reward_closer': 0.2,
                                             'reward_further': -0.2},
                                            {'name': 'living_reward', 'reward': -0.05}],
                       'observation_function': {'name': 'partially_occluded', 'area': [[-6, 0], [-3, 3]]},
                       'terminating_function': {'name': 'reach_exit'}},
 'gv_empty.8x8.yaml': {'state_space': {'objects': ['Wall', 'Floor', 'Exit'], 'colors': ['NONE']},
                       'action_space': ['MOVE_FORWARD', 'MOVE_BACKWARD', 'MOVE_LEFT', 'MOVE_RIGHT', 'TURN_LEFT',
                                        'TURN_RIGHT'],
                       'observation_space': {'objects': ['Wall', 'Floor', 'Exit'], 'colors': ['NONE']},
                       'reset_function': {'name': 'empty', 'shape': [8, 8], 'random_agent': True},
                       'transition_functions': [{'name': 'move_agent'}, {'name': 'turn_agent'}],
                       'reward_functions': [{'name': 'reach_exit', 'reward_on': 5.0, 'reward_off': 0.0},
                                            {'name': 'getting_closer',
                                             'distance_function': 'manhattan',
                                             'object_type': 'Exit',
                                             'reward_closer': 0.2,
                                             'reward_further': -0.2},
                                            {'name': 'living_reward', 'reward': -0.05}],
                       'observation_function': {'name': 'partially_occluded', 'area': [[-6, 0], [-3, 3]]},
                       'terminating_function': {'name': 'reach_exit'}},
 'gv_four_rooms.7x7.yaml': {'state_space': {'objects': ['Wall', 'Floor', 'Exit'], 'colors': ['NONE']},
                            'action_space': ['MOVE_FORWARD', 'MOVE_BACKWARD', 'MOVE_LEFT', 'MOVE_RIGHT', 'TURN_LEFT',
                                             'TURN_RIGHT'],
                            'observation_space': {'objects': ['Wall', 'Floor', 'Exit'], 'colors': ['NONE']},
                            'reset_function': {'name': 'rooms', 'shape': [7, 7], 'layout': [2, 2]},
                            'transition_functions': [{'name': 'move_agent'}, {'name': 'turn_agent'}],
                            'reward_functions': [{'name': 'reach_exit', 'reward_on': 5.0, 'reward_off': 0.0},
                                                 {'name': 'getting_closer',
                                                  'distance_function': 'manhattan',
                                                  'object_type': 'Exit',
                                                  'reward_closer': 0.2,
                                                  'reward_further': -0.2},
                                                 {'name': 'living_reward', 'reward': -0.05}],
                            'observation_function': {'name': 'partially_occluded', 'area': [[-6, 0], [-3, 3]]},
                            'terminating_function': {'name': 'reach_exit'}},
 'gv_four_rooms.9x9.yaml': {'state_space': {'objects': ['Wall', 'Floor', 'Exit'], 'colors': ['NONE']},
                            'action_space': ['MOVE_FORWARD', 'MOVE_BACKWARD', 'MOVE_LEFT', 'MOVE_RIGHT', 'TURN_LEFT',
                                             'TURN_RIGHT'],
                            'observation_space': {'objects': ['Wall', 'Floor', 'Exit'], 'colors': ['NONE']},
                            'reset_function': {'name': 'rooms', 'shape': [9, 9], 'layout': [2, 2]},
                            'transition_functions': [{'name': 'move_agent'}, {'name': 'turn_agent'}],
                            'reward_functions': [{'name': 'reach_exit', 'reward_on': 5.0, 'reward_off': 0.0},
                                                 {'name': 'getting_closer',
                                                  'distance_function': 'manhattan',
                                                  'object_type': 'Exit',
                                                  'reward_closer': 0.2,
                                                  'reward_further': -0.2},
                                                 {'name': 'living_reward', 'reward': -0.05}],
                            'observation_function': {'name': 'partially_occluded', 'area': [[-6, 0], [-3, 3]]},
                            'terminating_function': {'name': 'reach_exit'}},
 'gv_keydoor.5x5.yaml': {'state_space': {'objects': ['Wall', 'Floor', 'Exit', 'Door', 'Key'],
                                         'colors': ['NONE', 'YELLOW']},
                         'observation_space': {'objects': ['Wall', 'Floor', 'Exit', 'Door', 'Key'],
                                               'colors': ['NONE', 'YELLOW']},
                         'reset_function': {'name': 'keydoor', 'shape': [5, 5]},
                         'transition_functions': [{'name': 'move_agent'}, {'name': 'turn_agent'},
                                                  {'name': 'actuate_door'}, {'name': 'pickndrop'}],
                         'reward_functions': [{'name': 'reach_exit', 'reward_on': 5.0, 'reward_off': 0.0},
                                              {'name': 'pickndrop',
                                               'object_type': 'Key',
                                               'reward_pick': 1.0,
                                               'reward_drop': -1.0},
                                              {'name': 'actuate_door', 'reward_open': 1.0, 'reward_close': -1.0},
                                              {'name': 'getting_closer',
                                               'distance_function': 'manhattan',
                                               'object_type': 'Exit',
                                               'reward_closer': 0.2,
                                               'reward_further': -0.2},
                                              {'name': 'living_reward', 'reward': -0.05}],
                         'observation_function': {'name': 'partially_occluded', 'area': [[-6, 0], [-3, 3]]},
                         'terminating_function': {'name': 'reach_exit'}},
 'gv_keydoor.7x7.yaml': {'state_space': {'objects': ['Wall', 'Floor', 'Exit', 'Door', 'Key'],
                                         'colors': ['NONE', 'YELLOW']},
                         'observation_space': {'objects': ['Wall', 'Floor', 'Exit', 'Door', 'Key'],
                                               'colors': ['NONE', 'YELLOW']},
                         'reset_function': {'name': 'keydoor', 'shape': [7, 7]},
                         'transition_functions': [{'name': 'move_agent'}, {'name': 'turn_agent'},
                                                  {'name': 'actuate_door'}, {'name': 'pickndrop'}],
                         'reward_functions': [{'name': 'reach_exit', 'reward_on': 5.0, 'reward_off': 0.0},
                                              {'name': 'pickndrop',
                                               'object_type': 'Key',
                                               'reward_pick': 1.0,
                                               'reward_drop': -1.0},
                                              {'name': 'actuate_door', 'reward_open': 1.0, 'reward_close': -1.0},
                                              {'name': 'getting_closer',
                                               'distance_function': 'manhattan',
                                               'object_type': 'Exit',
                                               'reward_closer': 0.2,
                                               'reward_further': -0.2},
                                              {'name': 'living_reward', 'reward': -0.05}],
                         'observation_function': {'name': 'partially_occluded', 'area': [[-6, 0], [-3, 3]]},
                         'terminating_function': {'name': 'reach_exit'}},
 'gv_keydoor.9x9.yaml': {'state_space': {'objects': ['Wall', 'Floor', 'Exit', 'Door', 'Key'],
                                         'colors': ['NONE', 'YELLOW']},
                         'observation_space': {'objects': ['Wall', 'Floor', 'Exit', 'Door', 'Key'],
                                               'colors': ['NONE', 'YELLOW']},
                         'reset_function': {'name': 'keydoor', 'shape': [9, 9]},
                         'transition_functions': [{'name': 'move_agent'}, {'name': 'turn_agent'},
                                                  {'name': 'actuate_door'}, {'name': 'pickndrop'}],
                         'reward_functions': [{'name': 'reach_exit', 'reward_on': 5.0, 'reward_off': 0.0},
                                              {'name': 'pickndrop',
                                               'object_type': 'Key',
                                               'reward_pick': 1.0,
                                               'reward_drop': -1.0},
                                              {'name': 'actuate_door', 'reward_open': 1.0, 'reward_close': -1.0},
                                              {'name': 'getting_closer',
                                               'distance_function': 'manhattan',
                                               'object_type': 'Exit',
                                               'reward_closer': 0.2,
                                               'reward_further': -0.2},
                                              {'name': 'living_reward', 'reward': -0.05}],
                         'observation_function': {'name': 'partially_occluded', 'area': [[-6, 0], [-3, 3]]},
                         'terminating_function': {'name': 'reach_exit'}},
 'gv_memory.5x5.yaml': {'state_space': {'objects': ['Wall', 'Floor', 'Exit', 'Beacon'],
                                        'colors': ['NONE', 'RED', 'GREEN', 'BLUE', 'YELLOW']},
                        'action_space': ['MOVE_FORWARD', 'MOVE_BACKWARD', 'MOVE_LEFT', 'MOVE_RIGHT', 'TURN_LEFT',
                                         'TURN_RIGHT'],
                        'observation_space': {'objects': ['Wall', 'Floor', 'Exit', 'Beacon'],
                                              'colors': ['NONE', 'RED', 'GREEN', 'BLUE', 'YELLOW']},
                        'reset_function': {'name': 'memory',
                                           'shape': [5, 5],
                                           'colors': ['RED', 'GREEN', 'BLUE', 'YELLOW']},
                        'transition_functions': [{'name': 'move_agent'}, {'name': 'turn_agent'}],
                        'reward_functions': [{'name': 'reach_exit_memory', 'reward_good': 5.0, 'reward_bad': -5.0},
                                             {'name': 'living_reward', 'reward': -0.05}],
                        'observation_function': {'name': 'partially_occluded', 'area': [[-6, 0], [-3, 3]]},
                        'terminating_function': {'name': 'reach_exit'}},
 'gv_memory.9x9.yaml': {'state_space': {'objects': ['Wall', 'Floor', 'Exit', 'Beacon'],
                                        'colors': ['NONE', 'RED', 'GREEN', 'BLUE', 'YELLOW']},
                        'action_space': ['MOVE_FORWARD', 'MOVE_BACKWARD', 'MOVE_LEFT', 'MOVE_RIGHT', 'TURN_LEFT',
                                         'TURN_RIGHT'],
                        'observation_space': {'objects': ['Wall', 'Floor', 'Exit', 'Beacon'],
                                              'colors': ['NONE', 'RED', 'GREEN', 'BLUE', 'YELLOW']},
                        'reset_function': {'name': 'memory',
                                           'shape': [9, 9],
                                           'colors': ['RED', 'GREEN', 'BLUE', 'YELLOW']},
                        'transition_functions': [{'name': 'move_agent'}, {'name': 'turn_agent'}],
                        'reward_functions': [{'name': 'reach_exit_memory', 'reward_good': 5.0, 'reward_bad': -5.0},
                                             {'name': 'living_reward', 'reward': -0.05}],
                        'observation_function': {'name': 'partially_occluded', 'area': [[-6, 0], [-3, 3]]},
                        'terminating_function': {'name': 'reach_exit'}},
 'gv_memory_four_rooms.7x7.yaml': {'state_space': {'objects': ['Wall', 'Floor', 'Exit', 'Beacon'],
                                                   'colors': ['NONE', 'RED', 'GREEN', 'BLUE', 'YELLOW']},
                                   'action_space': ['MOVE_FORWARD', 'MOVE_BACKWARD', 'MOVE_LEFT', 'MOVE_RIGHT',
                                                    'TURN_LEFT', 'TURN_RIGHT'],
                                   'observation_space': {'objects': ['Wall', 'Floor', 'Exit', 'Beacon'],
                                                         'colors': ['NONE', 'RED', 'GREEN', 'BLUE', 'YELLOW']},
                                   'reset_function': {'name': 'memory_rooms',
                                                      'shape': [7, 7],
                                                      'layout': [2, 2],
                                                      'colors': ['RED', 'GREEN', 'BLUE', 'YELLOW'],
                                                      'num_beacons': 1,
                                                      'num_exits': 2},
                                   'transition_functions': [{'name': 'move_agent'}, {'name': 'turn_agent'}],
                                   'reward_functions': [{'name': 'reach_exit_memory',
                                                         'reward_good': 5.0,
                                                         'reward_bad': -5.0},
                                                        {'name': 'living_reward', 'reward': -0.05}],
                                   'observation_function': {'name': 'partially_occluded', 'area': [[-6, 0], [-3, 3]]},
                                   'terminating_function': {'name': 'reach_exit'}},
 'gv_memory_four_rooms.9x9.yaml': {'state_space': {'objects': ['Wall', 'Floor', 'Exit', 'Beacon'],
                                                   'colors': ['NONE', 'RED', 'GREEN', 'BLUE', 'YELLOW']},
                                   'action_space': ['MOVE_FORWARD', 'MOVE_BACKWARD', 'MOVE_LEFT', 'MOVE_RIGHT',
                                                    'TURN_LEFT', 'TURN_RIGHT'],
                                   'observation_space': {'objects': ['Wall', 'Floor', 'Exit', 'Beacon'],
                                                         'colors': ['NONE', 'RED', 'GREEN', 'BLUE', 'YELLOW']},
                                   'reset_function': {'name': 'memory_rooms',
                                                      'shape': [9, 9],
                                                      'layout': [2, 2],
                                                      'colors': ['RED', 'GREEN', 'BLUE', 'YELLOW'],
                                                      'num_beacons': 1,
                                                      'num_exits': 2},
                                   'transition_functions': [{'name': 'move_agent'}, {'name': 'turn_agent'}],
                                   'reward_functions': [{'name': 'reach_exit_memory',
                                                         'reward_good': 5.0,
                                                         'reward_bad': -5.0},
                                                        {'name': 'living_reward', 'reward': -0.05}],
                                   'observation_function': {'name': 'partially_occluded', 'area': [[-6, 0], [-3, 3]]},
                                   'terminating_function': {'name': 'reach_exit'}},
 'gv_memory_nine_rooms.10x10.yaml': {'state_space': {'objects': ['Wall', 'Floor', 'Exit', 'Beacon'],
                                                     'colors': ['NONE', 'RED', 'GREEN', 'BLUE', 'YELLOW']},
                                     'action_space': ['MOVE_FORWARD', 'MOVE_BACKWARD', 'MOVE_LEFT', 'MOVE_RIGHT',
                                                      'TURN_LEFT', 'TURN_RIGHT'],
                                     'observation_space': {'objects': ['Wall', 'Floor', 'Exit', 'Beacon'],
                                                           'colors': ['NONE', 'RED', 'GREEN', 'BLUE', 'YELLOW']},
                                     'reset_function': {'name': 'memory_rooms',
                                                        'shape': [10, 10],
                                                        'layout': [3, 3],
                                                        'colors': ['RED', 'GREEN', 'BLUE', 'YELLOW'],
                                                        'num_beacons': 1,
                                                        'num_exits': 2},
                                     'transition_functions': [{'name': 'move_agent'}, {'name': 'turn_agent'}],
                                     'reward_functions': [{'name': 'reach_exit_memory',
                                                           'reward_good': 5.0,
                                                           'reward_bad': -5.0},
                                                          {'name': 'living_reward', 'reward': -0.05}],
                                     'observation_function': {'name': 'partially_occluded',
                                                              'area': [[-6, 0], [-3, 3]]},
                                     'terminating_function': {'name': 'reach_exit'}},
 'gv_memory_nine_rooms.13x13.yaml': {'state_space': {'objects': ['Wall', 'Floor', 'Exit', 'Beacon'],
                                                     'colors': ['NONE', 'RED', 'GREEN', 'BLUE', 'YELLOW']},
                                     'action_space': ['MOVE_FORWARD', 'MOVE_BACKWARD', 'MOVE_LEFT', 'MOVE_RIGHT',
                                                      'TURN_LEFT', 'TURN_RIGHT'],
                                     'observation_space': {'objects': ['Wall', 'Floor', 'Exit', 'Beacon'],
                                                           'colors': ['NONE', 'RED', 'GREEN', 'BLUE', 'YELLOW']},
                                     'reset_function': {'name': 'memory_rooms',
                                                        'shape': [13, 13],
                                                        'layout': [3, 3],
                                                        'colors': ['RED', 'GREEN', 'BLUE', 'YELLOW'],
                                                        'num_beacons': 1,
                                                        'num_exits': 2},
                                     'transition_functions': [{'name': 'move_agent'}, {'name': 'turn_agent'}],
                                     'reward_functions': [{'name': 'reach_exit_memory',
                                                           'reward_good': 5.0,
                                                           'reward_bad': -5.0},
                                                          {'name': 'living_reward', 'reward': -0.05}],
                                     'observation_function': {'name': 'partially_occluded',
                                                              'area': [[-6, 0], [-3, 3]]},
                                     'terminating_function': {'name': 'reach_exit'}},
 'gv_nine_rooms.10x10.yaml': {'state_space': {'objects': ['Wall', 'Floor', 'Exit'], 'colors': ['NONE']},
                              'action_space': ['MOVE_FORWARD', 'MOVE_BACKWARD', 'MOVE_LEFT', 'MOVE_RIGHT',
                                               'TURN_LEFT', 'TURN_RIGHT'],
                              'observation_space': {'objects': ['Wall', 'Floor', 'Exit'], 'colors': ['NONE']},
                              'reset_function': {'name': 'rooms', 'shape': [10, 10], 'layout': [3, 3]},
                              'transition_functions': [{'name': 'move_agent'}, {'name': 'turn_agent'}],
                              'reward_functions': [{'name': 'reach_exit', 'reward_on': 5.0, 'reward_off': 0.0},
                                                   {'name': 'getting_closer',
                                                    'distance_function': 'manhattan',
                                                    'object_type': 'Exit',
                                                    'reward_closer': 0.2,
                                                    'reward_further': -0.2},
                                                   {'name': 'living_reward', 'reward': -0.05}],
                              'observation_function': {'name': 'partially_occluded', 'area': [[-6, 0], [-3, 3]]},
                              'terminating_function': {'name': 'reach_exit'}},
 'gv_nine_rooms.13x13.yaml': {'state_space': {'objects': ['Wall', 'Floor', 'Exit'], 'colors': ['NONE']},
                              'action_space': ['MOVE_FORWARD', 'MOVE_BACKWARD', 'MOVE_LEFT', 'MOVE_RIGHT',
                                               'TURN_LEFT', 'TURN_RIGHT'],
                              'observation_space': {'objects': ['Wall', 'Floor', 'Exit'], 'colors': ['NONE']},
                              'reset_function': {'name': 'rooms', 'shape': [13, 13], 'layout': [3, 3]},
                              'transition_functions': [{'name': 'move_agent'}, {'name': 'turn_agent'}],
                              'reward_functions': [{'name': 'reach_exit', 'reward_on': 5.0, 'reward_off': 0.0},
                                                   {'name': 'getting_closer',
                                                    'distance_function': 'manhattan',
                                                    'object_type': 'Exit',
                                                    'reward_closer': 0.2,
                                                    'reward_further': -0.2},
                                                   {'name': 'living_reward', 'reward': -0.05}],
                              'observation_function': {'name': 'partially_occluded', 'area': [[-6, 0], [-3, 3]]},
                              'terminating_function': {'name': 'reach_exit'}},
 'gv_teleport.5x5.yaml': {'state_space': {'objects': ['Wall', 'Floor', 'Exit', 'Telepod'], 'colors': ['NONE', 'RED']},
                          'action_space': ['MOVE_FORWARD', 'MOVE_BACKWARD', 'MOVE_LEFT', 'MOVE_RIGHT', 'TURN_LEFT',
                                           'TURN_RIGHT'],
                          'observation_space': {'objects': ['Wall', 'Floor', 'Exit', 'Telepod'],
                                                'colors': ['NONE', 'RED']},
                          'reset_function': {'name': 'teleport', 'shape': [5, 5], 'random_agent': True},
                          'transition_functions': [{'name': 'move_agent'}, {'name': 'turn_agent'},
                                                   {'name': 'teleport'}],
                          'reward_functions': [{'name': 'reach_exit', 'reward_on': 5.0, 'reward_off': 0.0},
                                               {'name': 'getting_closer',
                                                'distance_function': 'manhattan',
                                                'object_type': 'Exit',
                                                'reward_closer': 0.2,
                                                'reward_further': -0.2},
                                               {'name': 'living_reward', 'reward': -0.05}],
                          'observation_function': {'name': 'partially_occluded', 'area': [[-6, 0], [-3, 3]]},
                          'terminating_function': {'name': 'reach_exit'}},
 'gv_teleport.7x7.yaml': {'state_space': {'objects': ['Wall', 'Floor', 'Exit', 'Telepod'], 'colors': ['NONE', 'RED']},
                          'action_space': ['MOVE_FORWARD', 'MOVE_BACKWARD', 'MOVE_LEFT', 'MOVE_RIGHT', 'TURN_LEFT',
                                           'TURN_RIGHT'],
                          'observation_space': {'objects': ['Wall', 'Floor', 'Exit', 'Telepod'],
                                                'colors': ['NONE', 'RED']},
                          'reset_function': {'name': 'teleport', 'shape': [7, 7], 'random_agent': True},
                          'transition_functions': [{'name': 'move_agent'}, {'name': 'turn_agent'},
                                                   {'name': 'teleport'}],
                          'reward_functions': [{'name': 'reach_exit', 'reward_on': 5.0, 'reward_off': 0.0},
                                               {'name': 'getting_closer',
                                                'distance_function': 'manhattan',
                                                'object_type': 'Exit',
                                                'reward_closer': 0.2,
                                                'reward_further': -0.2},
                                               {'name': 'living_reward', 'reward': -0.05}],
                          'observation_function': {'name': 'partially_occluded', 'area': [[-6, 0], [-3, 3]]},
                          'terminating_function': {'name': 'reach_exit'}},
 'examples/coin_env.yaml': {'state_space': {'objects': ['Wall', 'Floor', 'coin_env:Coin'], 'colors': ['NONE']},
                            'action_space': ['MOVE_FORWARD', 'MOVE_BACKWARD', 'MOVE_LEFT', 'MOVE_RIGHT', 'TURN_LEFT',
                                             'TURN_RIGHT'],
                            'observation_space': {'objects': ['Wall', 'Floor', 'coin_env:Coin'], 'colors': ['NONE']},
                            'reset_function': {'name': 'coin_env:coin_maze'},
                            'transition_functions': [{'name': 'move_agent'}, {'name': 'turn_agent'},
                                                     {'name': 'coin_env:collect_coin_transition'}],
                            'reward_functions': [{'name': 'living_reward', 'reward': -0.1},
                                                 {'name': 'coin_env:collect_coin_reward'}],
                            'observation_function': {'name': 'partially_occluded', 'area': [[-6, 0], [-3, 3]]},
                            'terminating_function': {'name': 'coin_env:no_more_coins'}}}

# ---------------------------------------------------------------------------
# imports of the library (public API only)
# ---------------------------------------------------------------------------
import copy
import functools
import hashlib
import importlib
import inspect
import itertools

import numpy as np
import numpy.random as rnd
from schema import SchemaError

from gym_gridverse import rng as gv_rng
from gym_gridverse.action import Action
from gym_gridverse.envs import observation_functions as observation_fs
from gym_gridverse.envs import reset_functions as reset_fs
from gym_gridverse.envs import reward_functions as reward_fs
from gym_gridverse.envs import terminating_functions as terminating_fs
from gym_gridverse.envs import transition_functions as transition_fs
from gym_gridverse.envs import visibility_functions as visibility_fs
from gym_gridverse.envs.gridworld import GridWorld
from gym_gridverse.envs.yaml import factory as yaml_factory
from gym_gridverse.geometry import Area, Position, Shape
from gym_gridverse import grid_object as grid_object_module
from gym_gridverse.grid_object import Color, GridObject
from gym_gridverse.spaces import ActionSpace, ObservationSpace, StateSpace

CHECKS = 0
DIGEST = hashlib.sha256()


def check(condition, *info):
    global CHECKS
    CHECKS += 1
    if not condition:
        raise AssertionError(' | '.join(str(i) for i in info))


def record(*items):
    """adds hash-seed independent facts to the reference digest"""
    DIGEST.update(repr(items).encode())


# ---------------------------------------------------------------------------
# independent re-implementation of "assembling by hand"
# ---------------------------------------------------------------------------

MODULES = {
    'reset': reset_fs,
    'transition': transition_fs,
    'reward': reward_fs,
    'terminating': terminating_fs,
    'observation': observation_fs,
    'visibility': visibility_fs,
}
REGISTRIES = {
    'reset': reset_fs.reset_function_registry,
    'transition': transition_fs.transition_function_registry,
    'reward': reward_fs.reward_function_registry,
    'terminating': terminating_fs.terminating_function_registry,
    'observation': observation_fs.observation_function_registry,
    'visibility': visibility_fs.visibility_function_registry,
}
# number of leading positional protocol arguments (plus keyword `rng`)
PROTOCOL_POSITIONALS = {
    'reset': 0,
    'transition': 2,
    'reward': 3,
    'terminating': 3,
    'observation': 1,
    'visibility': 2,
}
YAML_FACTORIES = {
    'reset': yaml_factory.factory_reset_function,
    'transition': yaml_factory.factory_transition_function,
    'reward': yaml_factory.factory_reward_function,
    'terminating': yaml_factory.factory_terminating_function,
    'observation': yaml_factory.factory_observation_function,
    'visibility': yaml_factory.factory_visibility_function,
}


class HandError(Exception):
    """raised by the hand assembly when the description is not buildable"""

    def __init__(self, expected, reason):
        super().__init__(reason)
        self.expected = expected  # 'schema' or 'value'


def hand_object_type(name):
    """class lookup by name, without the library registry"""
    if not isinstance(name, str):
        raise HandError('schema', 'object type should be a string')
    for value in vars(grid_object_module).values():
        if (
            inspect.isclass(value)
            and issubclass(value, GridObject)
            and value.__name__ == name
            and value in grid_object_module.grid_object_registry
        ):
            return value
    raise HandError('value', f'unknown object type {name}')


def hand_custom_object_type(name):
    if ':' in name:
        module_name, name = name.split(':')
        module = importlib.import_module(module_name)
        return getattr(module, name)
    return hand_object_type(name)


def hand_function(kind, name):
    """function lookup by name, through the module namespace"""
    if not isinstance(name, str):
        raise HandError('schema', 'name should be a string')
    if ':' in name:
        module_name, name = name.split(':')
        module = importlib.import_module(module_name)
        return getattr(module, name)
    function = getattr(MODULES[kind], name, None)
    if function is None or name not in REGISTRIES[kind]:
        raise HandError('value', f'unknown {kind} function {name}')
    return function


def hand_parameters(kind, function):
    """(required, optional) names of the non-protocol parameters"""
    parameters = list(inspect.signature(function).parameters.values())
    parameters = parameters[PROTOCOL_POSITIONALS[kind] :]
    parameters = [p for p in parameters if p.name != 'rng']
    required = [p.name for p in parameters if p.default is p.empty]
    optional = [p.name for p in parameters if p.default is not p.empty]
    return required, optional


def _is_pos_int_pair(value):
    return (
        isinstance(value, list)
        and len(value) == 2
        and all(isinstance(v, int) and v > 0 for v in value)
    )


def _is_name_list(value, names):
    return (
        isinstance(value, list)
        and len(value) > 0
        and all(isinstance(v, str) and v in names for v in value)
        and len(set(value)) == len(value)
    )


COLOR_NAMES = ['NONE', 'RED', 'GREEN', 'BLUE', 'YELLOW']
ACTION_NAMES = [
    'MOVE_FORWARD',
    'MOVE_BACKWARD',
    'MOVE_LEFT',
    'MOVE_RIGHT',
    'TURN_LEFT',
    'TURN_RIGHT',
    'ACTUATE',
    'PICK_N_DROP',
]

# reserved keys which the schema checks inside every component description
SCHEMA_CHECKED = {
    'shape',
    'layout',
    'object_type',
    'colors',
    'reset_function',
    'transition_function',
    'reward_function',
    'terminating_function',
    'reset_functions',
    'transition_functions',
    'reward_functions',
    'terminating_functions',
}


def hand_schema_check(description):
    """shape checks which must precede any construction (schema errors)"""
    if not isinstance(description, dict):
        raise HandError('schema', 'description should be a mapping')
    if not isinstance(description.get('name'), str):
        raise HandError('schema', 'missing or invalid name')
    for key, value in description.items():
        if key in ('shape', 'layout') and not _is_pos_int_pair(value):
            raise HandError('schema', f'malformed {key}')
        if key == 'object_type' and not isinstance(value, str):
            raise HandError('schema', 'malformed object type')
        if key == 'colors' and not _is_name_list(value, COLOR_NAMES):
            raise HandError('schema', 'malformed colors')
        if key in (
            'reset_function',
            'transition_function',
            'reward_function',
            'terminating_function',
        ):
            hand_schema_check(value)
        if key in (
            'reset_functions',
            'transition_functions',
            'reward_functions',
            'terminating_functions',
        ):
            if not isinstance(value, list) or len(value) == 0:
                raise HandError('schema', f'malformed {key}')
            for item in value:
                hand_schema_check(item)


def hand_component(kind, description, *, check_schema=True):
    """builds ``partial(function, **parameters)`` by hand"""
    if check_schema:
        hand_schema_check(description)

    function = None
    converted = {}
    # the conversions, in the documented order
    conversions = [
        ('transition_functions', lambda v: [hand_component('transition', d) for d in v]),
        ('reward_functions', lambda v: [hand_component('reward', d) for d in v]),
        ('terminating_functions', lambda v: [hand_component('terminating', d) for d in v]),
        ('reward_function', lambda v: hand_component('reward', v)),
        ('distance_function', hand_distance_function),
        ('visibility_function', lambda v: hand_component('visibility', v)),
        ('shape', lambda v: Shape(v[0], v[1])),
        ('layout', lambda v: (v[0], v[1])),
        ('area', lambda v: Area([v[0][0], v[0][1]], [v[1][0], v[1][1]])),
        ('object_type', hand_object_type),
        ('colors', lambda v: {getattr(Color, n) for n in v}),
    ]
    conversions = dict(conversions)
    order = [
        'transition_functions',
        'reward_functions',
        'terminating_functions',
        'reward_function',
        'distance_function',
        'visibility_function',
        'shape',
        'layout',
        'area',
        'object_type',
        'colors',
    ]
    values = {k: v for k, v in description.items() if k != 'name'}
    for key in order:
        if key in values:
            values[key] = conversions[key](values[key])

    function = hand_function(kind, description['name'])
    required, optional = hand_parameters(kind, function)
    for key in required:
        if key not in values:
            raise HandError('value', f'missing {key}')
    for key, value in values.items():
        if key in required or key in optional:
            converted[key] = value
    return functools.partial(function, **converted)


def hand_distance_function(name):
    if name == 'manhattan':
        return Position.manhattan_distance
    if name == 'euclidean':
        return Position.euclidean_distance
    raise HandError('schema', f'unknown distance function {name}')


class HandEnv:
    """the environment assembled by hand; it does not use GridWorld, `chain`
    or `reduce_sum`, but loops over the components explicitly"""

    def __init__(self, config):
        top = {
            'state_space',
            'action_space',
            'observation_space',
            'reset_function',
            'transition_functions',
            'reward_functions',
            'observation_function',
            'terminating_function',
        }
        if not isinstance(config, dict) or set(config) - top:
            raise HandError('schema', 'unknown top-level key')
        if (top - {'action_space'}) - set(config):
            raise HandError('schema', 'missing top-level key')

        # all the schema level checks come first
        for key in ('state_space', 'observation_space'):
            space = config[key]
            if not isinstance(space, dict) or set(space) != {
                'objects',
                'colors',
            }:
                raise HandError('schema', f'malformed {key}')
            objects = space['objects']
            if (
                not isinstance(objects, list)
                or len(objects) == 0
                or not all(isinstance(o, str) for o in objects)
                or len(set(objects)) != len(objects)
            ):
                raise HandError('schema', f'malformed {key} objects')
            if not _is_name_list(space['colors'], COLOR_NAMES):
                raise HandError('schema', f'malformed {key} colors')
        if 'action_space' in config and not _is_name_list(
            config['action_space'], ACTION_NAMES
        ):
            raise HandError('schema', 'malformed action space')
        hand_schema_check(config['reset_function'])
        for key in ('transition_functions', 'reward_functions'):
            if not isinstance(config[key], list) or len(config[key]) == 0:
                raise HandError('schema', f'malformed {key}')
            for description in config[key]:
                hand_schema_check(description)
        hand_schema_check(config['observation_function'])
        hand_schema_check(config['terminating_function'])

        # then the construction, in order
        self.state_objects = [
            hand_custom_object_type(n) for n in config['state_space']['objects']
        ]
        self.state_colors = [
            getattr(Color, n) for n in config['state_space']['colors']
        ]
        self.actions = (
            [getattr(Action, n) for n in config['action_space']]
            if 'action_space' in config
            else list(Action)
        )
        self.observation_objects = [
            hand_custom_object_type(n)
            for n in config['observation_space']['objects']
        ]
        self.observation_colors = [
            getattr(Color, n) for n in config['observation_space']['colors']
        ]

        self.reset_function = hand_component('reset', config['reset_function'])
        self.transition_functions = [
            hand_component('transition', d)
            for d in config['transition_functions']
        ]
        self.reward_functions = [
            hand_component('reward', d) for d in config['reward_functions']
        ]
        self.observation_function = hand_component(
            'observation', config['observation_function']
        )
        self.terminating_function = hand_component(
            'terminating', config['terminating_function']
        )

        # spaces take their shapes from a state and an observation
        state = self.reset_function()
        self.state_space = StateSpace(
            state.grid.shape, self.state_objects, self.state_colors
        )
        observation = self.observation_function(state)
        self.observation_space = ObservationSpace(
            observation.grid.shape,
            self.observation_objects,
            self.observation_colors,
        )
        self.rng = None
        self.state = None

    def set_seed(self, seed):
        self.rng = rnd.default_rng(seed)

    def reset(self):
        self.state = self.reset_function(rng=self.rng)

    def observation(self):
        return self.observation_function(self.state, rng=self.rng)

    def step(self, action):
        check(action in self.actions, 'action not in hand action space')
        state = self.state
        next_state = copy.deepcopy(state)
        for transition_function in self.transition_functions:
            transition_function(next_state, action, rng=self.rng)
        reward = sum(
            reward_function(state, action, next_state, rng=None)
            for reward_function in self.reward_functions
        )
        terminal = self.terminating_function(state, action, next_state)
        self.state = next_state
        return reward, terminal


# ---------------------------------------------------------------------------
# fingerprints
# ---------------------------------------------------------------------------


def fp_object(obj):
    return (type(obj).__name__, obj.state_index, obj.color.name, repr(obj))


def fp_grid(grid):
    return (
        (grid.shape.height, grid.shape.width),
        tuple(
            tuple(fp_object(grid[y, x]) for x in range(grid.shape.width))
            for y in range(grid.shape.height)
        ),
    )


def fp_agent(agent):
    return (
        (agent.position.y, agent.position.x),
        agent.orientation.name,
        fp_object(agent.grid_object),
    )


def fp_state(state):
    return (fp_grid(state.grid), fp_agent(state.agent))


def fp_rng(rng):
    state = rng.bit_generator.state
    return repr(state)


def fp_space(space):
    return (
        (space.grid_shape.height, space.grid_shape.width),
        [t.__name__ for t in space.object_types],
        sorted(c.name for c in space.colors),
    )


def fp_partial(function):
    """structure of a (possibly nested) partial"""
    if isinstance(function, functools.partial):
        return (
            'partial',
            fp_partial(function.func),
            tuple(fp_partial(a) for a in function.args),
            tuple((k, fp_partial(v)) for k, v in function.keywords.items()),
        )
    if isinstance(function, (list, tuple)):
        return (type(function).__name__,) + tuple(
            fp_partial(f) for f in function
        )
    if isinstance(function, (set, frozenset)):
        return ('set',) + tuple(
            sorted((fp_partial(f) for f in function), key=repr)
        )
    if inspect.isfunction(function) or inspect.isclass(function):
        return (function.__module__, function.__qualname__)
    if isinstance(function, (Color, Action)):
        return (type(function).__name__, function.name)
    if isinstance(function, (Shape, Area)):
        return (type(function).__name__, repr(function))
    return (type(function).__name__, repr(function))


def same_partial(a, b):
    """deep structural identity of partials: same functions (by identity),
    same keyword names in the same order, same values"""
    if isinstance(a, functools.partial) or isinstance(b, functools.partial):
        return (
            isinstance(a, functools.partial)
            and isinstance(b, functools.partial)
            and a.func is b.func
            and len(a.args) == len(b.args) == 0
            and list(a.keywords) == list(b.keywords)
            and all(
                same_partial(a.keywords[k], b.keywords[k]) for k in a.keywords
            )
        )
    if isinstance(a, list) or isinstance(b, list):
        return (
            type(a) is type(b)
            and len(a) == len(b)
            and all(same_partial(x, y) for x, y in zip(a, b))
        )
    if inspect.isfunction(a) or inspect.isclass(a):
        return a is b
    return type(a) is type(b) and a == b


# ---------------------------------------------------------------------------
# part 1: every shipped configuration vs. the hand assembly
# ---------------------------------------------------------------------------


def lib_build(config, seed):
    gv_rng.reset_gv_rng(seed)
    env = yaml_factory.factory_env_from_data(config)
    return env, fp_rng(gv_rng.get_gv_rng())


def hand_build(config, seed):
    gv_rng.reset_gv_rng(seed)
    env = HandEnv(config)
    return env, fp_rng(gv_rng.get_gv_rng())


def lib_components(env):
    return (
        env._reset_function,
        env._transition_function,
        env._reward_function,
        env._observation_function,
        env._termination_function,
    )


def compare_structure(name, env, hand):
    check(type(env) is GridWorld, name, 'not a GridWorld')
    check(fp_space(env.state_space) == fp_space(hand.state_space), name)
    check(
        fp_space(env.observation_space) == fp_space(hand.observation_space),
        name,
    )
    check(type(env.state_space) is StateSpace, name)
    check(type(env.observation_space) is ObservationSpace, name)
    check(type(env.action_space) is ActionSpace, name)
    check(list(env.action_space.actions) == hand.actions, name, 'actions')
    reset_f, transition_f, reward_f, observation_f, terminating_f = lib_components(
        env
    )
    check(same_partial(reset_f, hand.reset_function), name, 'reset')
    check(same_partial(observation_f, hand.observation_function), name, 'obs')
    check(same_partial(terminating_f, hand.terminating_function), name, 'term')
    # transitions are chained, rewards are summed
    check(
        same_partial(
            transition_f,
            functools.partial(
                transition_fs.chain,
                transition_functions=hand.transition_functions,
            ),
        ),
        name,
        'transition',
    )
    check(
        same_partial(
            reward_f,
            functools.partial(
                reward_fs.reduce_sum, reward_functions=hand.reward_functions
            ),
        ),
        name,
        'reward',
    )


def compare_behaviour(name, env, hand, seeds, steps, action_rng):
    for seed in seeds:
        env.set_seed(seed)
        hand.set_seed(seed)
        env.reset()
        hand.reset()
        check(fp_state(env.state) == fp_state(hand.state), name, seed, 'reset')
        check(env.state == hand.state, name, seed, 'reset ==')
        for t in range(steps):
            lib_observation = env.observation
            hand_observation = hand.observation()
            check(
                fp_state(lib_observation) == fp_state(hand_observation),
                name,
                seed,
                t,
                'observation',
            )
            action = hand.actions[action_rng.integers(len(hand.actions))]
            reward, terminal = env.step(action)
            hand_reward, hand_terminal = hand.step(action)
            check(
                fp_state(env.state) == fp_state(hand.state),
                name,
                seed,
                t,
                action,
                'state',
            )
            check(
                type(reward) is type(hand_reward) and reward == hand_reward,
                name,
                seed,
                t,
                action,
                reward,
                hand_reward,
            )
            check(
                type(terminal) is type(hand_terminal)
                and terminal == hand_terminal,
                name,
                seed,
                t,
                'terminal',
            )
            check(
                fp_rng(env._rng) == fp_rng(hand.rng), name, seed, t, 'rng'
            )
            if terminal:
                env.reset()
                hand.reset()
                check(
                    fp_state(env.state) == fp_state(hand.state),
                    name,
                    seed,
                    t,
                    're-reset',
                )


def part_shipped_configs(seeds, steps):
    action_rng = rnd.default_rng(20240917)
    for name, config in CONFIGS.items():
        pristine = copy.deepcopy(config)
        env, lib_rng_after = lib_build(config, 7)
        check(config == pristine, name, 'input data modified by building')
        check(
            repr(config) == repr(pristine), name, 'input data order modified'
        )
        hand, hand_rng_after = hand_build(config, 7)
        check(
            lib_rng_after == hand_rng_after,
            name,
            'building consumes different random numbers',
        )
        compare_structure(name, env, hand)
        compare_behaviour(name, env, hand, seeds, steps, action_rng)

        # repeatable: a second build (of the same data) gives the same thing
        env2, lib_rng_after2 = lib_build(config, 7)
        check(lib_rng_after2 == lib_rng_after, name, 'not repeatable (rng)')
        check(
            fp_partial(lib_components(env2)) == fp_partial(lib_components(env)),
            name,
            'not repeatable',
        )
        check(env2 is not env, name)
        check(config == pristine, name, 'input data modified by rebuilding')
        compare_behaviour(name, env2, hand, seeds[:2], steps, action_rng)

        record(name, fp_partial(lib_components(env)))
        record(name, fp_space(env.state_space), fp_space(env.observation_space))

        # without an action space all the actions are available
        if 'action_space' in config:
            reduced = copy.deepcopy(config)
            del reduced['action_space']
            env3, _ = lib_build(reduced, 3)
            check(list(env3.action_space.actions) == list(Action), name)
            hand3, _ = hand_build(reduced, 3)
            compare_structure(name, env3, hand3)
            compare_behaviour(name, env3, hand3, seeds[:2], steps, action_rng)


# ---------------------------------------------------------------------------
# part 2: systematic corruptions of the shipped configurations
# ---------------------------------------------------------------------------


def component_paths(config):
    """paths (tuples of keys/indices) of all the component descriptions"""
    paths = []

    def visit(kind, description, path):
        paths.append((kind, path))
        for key, sub_kind in (
            ('transition_functions', 'transition'),
            ('reward_functions', 'reward'),
            ('terminating_functions', 'terminating'),
        ):
            if key in description:
                for i, d in enumerate(description[key]):
                    visit(sub_kind, d, path + (key, i))
        for key, sub_kind in (
            ('reward_function', 'reward'),
            ('visibility_function', 'visibility'),
        ):
            if key in description:
                visit(sub_kind, description[key], path + (key,))

    visit('reset', config['reset_function'], ('reset_function',))
    for i, d in enumerate(config['transition_functions']):
        visit('transition', d, ('transition_functions', i))
    for i, d in enumerate(config['reward_functions']):
        visit('reward', d, ('reward_functions', i))
    visit(
        'observation', config['observation_function'], ('observation_function',)
    )
    visit(
        'terminating', config['terminating_function'], ('terminating_function',)
    )
    return paths


def get_path(data, path):
    for key in path:
        data = data[key]
    return data


def corrupted(config, path, mutate):
    data = copy.deepcopy(config)
    mutate(get_path(data, path))
    return data


BAD_SHAPES = [
    [0, 5],
    [5, 0],
    [-3, 5],
    [5],
    [],
    [5, 5, 5],
    [5.0, 5],
    ['5', 5],
    'shape',
    7,
    None,
    {'height': 5, 'width': 5},
]
BAD_COLORS = [
    [],
    ['PURPLE'],
    ['RED', 'PURPLE'],
    ['RED', 'RED'],
    ['red'],
    'RED',
    [1],
    None,
    {'RED': 1},
]
BAD_ACTIONS = [
    [],
    ['JUMP'],
    ['MOVE_FORWARD', 'JUMP'],
    ['MOVE_FORWARD', 'MOVE_FORWARD'],
    ['move_forward'],
    'MOVE_FORWARD',
    [0],
    None,
]
BAD_OBJECT_LISTS = [[], ['Wall', 'Wall'], [3], 'Wall', None]


def expect_rejection(label, data, expected):
    """the library must reject the data with the expected kind of error, and
    the hand assembly must agree on the kind"""
    pristine = copy.deepcopy(data)
    try:
        gv_rng.reset_gv_rng(11)
        yaml_factory.factory_env_from_data(data)
    except SchemaError as error:
        kind = 'schema'
        message = type(error).__name__
    except ValueError as error:
        kind = 'value'
        message = f'{type(error).__name__}: {error}'
    else:
        raise AssertionError(f'{label}: corrupted data was accepted')
    check(kind == expected, label, f'rejected with {kind} not {expected}')
    check(data == pristine, label, 'rejected input data was modified')
    try:
        gv_rng.reset_gv_rng(11)
        HandEnv(data)
    except HandError as error:
        check(error.expected == kind, label, 'hand assembly disagrees', error)
    else:
        raise AssertionError(f'{label}: hand assembly accepted')
    record(label, kind, message)


def expect_same(label, data, seeds, steps, action_rng):
    env, a = lib_build(data, 5)
    hand, b = hand_build(data, 5)
    check(a == b, label, 'rng')
    compare_structure(label, env, hand)
    compare_behaviour(label, env, hand, seeds, steps, action_rng)


def part_corruptions(seeds, steps):
    action_rng = rnd.default_rng(99)
    for name, config in CONFIGS.items():
        # top-level keys
        for key in config:
            if key == 'action_space':
                continue
            data = copy.deepcopy(config)
            del data[key]
            expect_rejection(f'{name}: no {key}', data, 'schema')
        data = copy.deepcopy(config)
        data['bogus_key'] = 1
        expect_rejection(f'{name}: bogus key', data, 'schema')
        for bad in (None, [], 'env', 3, [config]):
            expect_rejection(f'{name}: data={bad!r:.20}', bad, 'schema')

        # spaces
        for space in ('state_space', 'observation_space'):
            for bad in BAD_COLORS:
                data = copy.deepcopy(config)
                data[space]['colors'] = bad
                expect_rejection(f'{name}: {space} colors {bad}', data, 'schema')
            for bad in BAD_OBJECT_LISTS:
                data = copy.deepcopy(config)
                data[space]['objects'] = bad
                expect_rejection(
                    f'{name}: {space} objects {bad}', data, 'schema'
                )
            data = copy.deepcopy(config)
            data[space]['objects'] = data[space]['objects'] + ['Unicorn']
            expect_rejection(f'{name}: {space} unknown object', data, 'value')
            data = copy.deepcopy(config)
            del data[space]['colors']
            expect_rejection(f'{name}: {space} no colors', data, 'schema')
            data = copy.deepcopy(config)
            data[space]['shape'] = [3, 3]
            expect_rejection(f'{name}: {space} extra key', data, 'schema')
        for bad in BAD_ACTIONS:
            data = copy.deepcopy(config)
            data['action_space'] = bad
            expect_rejection(f'{name}: actions {bad}', data, 'schema')
        for key in ('transition_functions', 'reward_functions'):
            for bad in ([], None, {'name': 'move_agent'}, 'move_agent'):
                data = copy.deepcopy(config)
                data[key] = bad
                expect_rejection(f'{name}: {key}={bad}', data, 'schema')

        # components
        for kind, path in component_paths(config):
            label = f'{name}: {path}'
            description = get_path(config, path)

            def rename(d, new):
                d['name'] = new

            for new in ('no_such_function', '', 'Reach_exit', ' '):
                expect_rejection(
                    f'{label} name={new!r}',
                    corrupted(config, path, lambda d: rename(d, new)),
                    'value',
                )
            for new in (5, None, ['reach_exit'], 1.5):
                expect_rejection(
                    f'{label} name={new!r}',
                    corrupted(config, path, lambda d: rename(d, new)),
                    'schema',
                )
            expect_rejection(
                f'{label} no name',
                corrupted(config, path, lambda d: d.pop('name')),
                'schema',
            )

            function = hand_function(kind, description['name'])
            required, optional = hand_parameters(kind, function)
            for key in required:
                check(key in description, label, 'config lacks', key)
                expect_rejection(
                    f'{label} no {key}',
                    corrupted(config, path, lambda d: d.pop(key)),
                    'value',
                )

            def put(d, key, value):
                d[key] = value

            if 'shape' in description:
                for bad in BAD_SHAPES:
                    expect_rejection(
                        f'{label} shape={bad}',
                        corrupted(config, path, lambda d: put(d, 'shape', bad)),
                        'schema',
                    )
            if 'layout' in description:
                for bad in BAD_SHAPES:
                    expect_rejection(
                        f'{label} layout={bad}',
                        corrupted(
                            config, path, lambda d: put(d, 'layout', bad)
                        ),
                        'schema',
                    )
            if 'colors' in description:
                for bad in BAD_COLORS:
                    expect_rejection(
                        f'{label} colors={bad}',
                        corrupted(
                            config, path, lambda d: put(d, 'colors', bad)
                        ),
                        'schema',
                    )
            if 'object_type' in description:
                expect_rejection(
                    f'{label} unknown object type',
                    corrupted(
                        config, path, lambda d: put(d, 'object_type', 'Unicorn')
                    ),
                    'value',
                )
                for bad in (3, None, ['Wall']):
                    expect_rejection(
                        f'{label} object_type={bad}',
                        corrupted(
                            config, path, lambda d: put(d, 'object_type', bad)
                        ),
                        'schema',
                    )
            if 'distance_function' in description:
                for bad in ('chebyshev', 'Manhattan', 3, None):
                    expect_rejection(
                        f'{label} distance_function={bad}',
                        corrupted(
                            config,
                            path,
                            lambda d: put(d, 'distance_function', bad),
                        ),
                        'schema',
                    )
            # malformed reserved keys are rejected even where not accepted
            for bad in BAD_SHAPES[:4]:
                if 'shape' not in description:
                    expect_rejection(
                        f'{label} extra shape={bad}',
                        corrupted(config, path, lambda d: put(d, 'shape', bad)),
                        'schema',
                    )
            if 'colors' not in description:
                expect_rejection(
                    f'{label} extra colors',
                    corrupted(
                        config, path, lambda d: put(d, 'colors', ['PURPLE'])
                    ),
                    'schema',
                )

            # parameters which the component does not accept are ignored
            def extras(d):
                d['bogus_parameter'] = [1, 2, 3]
                if 'shape' not in d:
                    d['shape'] = [3, 4]
                if 'colors' not in d:
                    d['colors'] = ['BLUE']
                if 'object_type' not in d:
                    d['object_type'] = 'Floor'
                if 'layout' not in d:
                    d['layout'] = [1, 2]
                if 'reward_function' not in d:
                    d['reward_function'] = {'name': 'living_reward'}
                if 'terminating_functions' not in d:
                    d['terminating_functions'] = [{'name': 'reach_exit'}]

            expect_same(
                f'{label} ignored parameters',
                corrupted(config, path, extras),
                seeds[:1],
                steps,
                action_rng,
            )

            # an ignored parameter is still processed: nested unknown names
            def nested_bad(d):
                if 'reward_function' not in d:
                    d['reward_function'] = {'name': 'no_such_function'}

            if 'reward_function' not in description:
                expect_rejection(
                    f'{label} ignored nested bad name',
                    corrupted(config, path, nested_bad),
                    'value',
                )


# ---------------------------------------------------------------------------
# part 3: components by name, for all registered names x parameter sets
# ---------------------------------------------------------------------------

from gym_gridverse.grid_object import (  # noqa: E402
    Beacon,
    Door,
    Exit,
    Floor,
    Key,
    MovingObstacle,
    Wall,
)

LR = functools.partial(reward_fs.living_reward, reward=-0.5)
RE = functools.partial(reward_fs.reach_exit, reward_on=3.0)
TE = functools.partial(terminating_fs.reach_exit)
TW = functools.partial(terminating_fs.bump_into_wall)
AREA = Area((-4, 0), (-2, 2))
AREA2 = Area((-2, 2), (-2, 2))

PARAMETER_SETS = {
    'reset': {
        'empty': [
            {'shape': Shape(4, 4)},
            {'shape': Shape(8, 8), 'random_agent': True},
            {'shape': Shape(5, 7), 'random_agent': True, 'random_exit': True},
            {'random_exit': True, 'shape': Shape(6, 5)},
        ],
        'rooms': [
            {'shape': Shape(7, 7), 'layout': (2, 2)},
            {'shape': Shape(10, 10), 'layout': (3, 3)},
            {'layout': (2, 3), 'shape': Shape(9, 13)},
        ],
        'dynamic_obstacles': [
            {'shape': Shape(5, 5), 'num_obstacles': 1},
            {'shape': Shape(7, 7), 'num_obstacles': 3, 'random_agent': True},
        ],
        'keydoor': [{'shape': Shape(5, 5)}, {'shape': Shape(9, 9)}],
        'crossing': [
            {'shape': Shape(5, 5), 'num_rivers': 1, 'object_type': Wall},
            {'shape': Shape(9, 9), 'num_rivers': 3, 'object_type': Wall},
        ],
        'teleport': [{'shape': Shape(5, 5)}, {'shape': Shape(7, 7)}],
        'memory': [
            {'shape': Shape(5, 5), 'colors': {Color.RED, Color.GREEN}},
            {
                'shape': Shape(9, 9),
                'colors': {Color.RED, Color.GREEN, Color.BLUE, Color.YELLOW},
            },
        ],
        'memory_rooms': [
            {
                'shape': Shape(7, 7),
                'layout': (2, 2),
                'colors': {Color.RED, Color.GREEN, Color.BLUE},
                'num_beacons': 1,
                'num_exits': 2,
            },
            {
                'shape': Shape(13, 13),
                'layout': (3, 3),
                'colors': {Color.RED, Color.GREEN, Color.BLUE, Color.YELLOW},
                'num_beacons': 2,
                'num_exits': 3,
            },
        ],
    },
    'transition': {
        'chain': [
            {
                'transition_functions': [
                    transition_fs.move_agent,
                    transition_fs.turn_agent,
                ]
            },
            {
                'transition_functions': [
                    transition_fs.turn_agent,
                    transition_fs.move_obstacles,
                    transition_fs.move_agent,
                    transition_fs.actuate_door,
                    transition_fs.pickndrop,
                ]
            },
        ],
        'move_agent': [{}],
        'turn_agent': [{}],
        'pickndrop': [{}],
        'move_obstacles': [{}],
        'actuate_door': [{}],
        'actuate_box': [{}],
        'teleport': [{}],
    },
    'reward': {
        'reduce': [
            {'reward_functions': [LR, RE], 'reduction': sum},
            {'reward_functions': [LR, RE, LR], 'reduction': max},
        ],
        'reduce_sum': [
            {'reward_functions': [LR]},
            {'reward_functions': [RE, LR, RE]},
        ],
        'overlap': [
            {'object_type': Exit},
            {'object_type': Floor, 'reward_on': 2.0, 'reward_off': -0.25},
            {'reward_off': -3.0, 'object_type': Key},
        ],
        'living_reward': [{}, {'reward': -0.05}, {'reward': 2}],
        'reach_exit': [
            {},
            {'reward_on': 5.0},
            {'reward_off': -1.0, 'reward_on': 5.0},
        ],
        'bump_moving_obstacle': [{}, {'reward': -7.0}],
        'proportional_to_distance': [
            {'object_type': Exit},
            {
                'object_type': Exit,
                'distance_function': Position.euclidean_distance,
                'reward_per_unit_distance': 0.5,
            },
        ],
        'getting_closer': [
            {'object_type': Exit},
            {
                'distance_function': Position.manhattan_distance,
                'object_type': Exit,
                'reward_closer': 0.2,
                'reward_further': -0.2,
            },
            {
                'object_type': Exit,
                'distance_function': Position.euclidean_distance,
            },
        ],
        'getting_closer_shortest_path': [
            {'object_type': Exit},
            {'object_type': Exit, 'reward_closer': 2.0, 'reward_further': -3.0},
        ],
        'bump_into_wall': [{}, {'reward': -0.75}],
        'actuate_door': [{}, {'reward_open': 4.0, 'reward_close': -4.0}],
        'pickndrop': [
            {'object_type': Key},
            {'object_type': Key, 'reward_pick': 3.0, 'reward_drop': -2.0},
        ],
        'reach_exit_memory': [{}, {'reward_good': 5.0, 'reward_bad': -5.0}],
    },
    'terminating': {
        'reduce': [
            {'terminating_functions': [TE, TW], 'reduction': any},
            {'terminating_functions': [TE, TW], 'reduction': all},
        ],
        'reduce_any': [
            {'terminating_functions': [TE]},
            {'terminating_functions': [TW, TE]},
        ],
        'reduce_all': [
            {'terminating_functions': [TE]},
            {'terminating_functions': [TW, TE]},
        ],
        'overlap': [
            {'object_type': Exit},
            {'object_type': Floor},
            {'object_type': Door},
        ],
        'reach_exit': [{}],
        'bump_moving_obstacle': [{}],
        'bump_into_wall': [{}],
    },
    'observation': {
        'from_visibility': [
            {
                'area': AREA,
                'visibility_function': visibility_fs.partially_occluded,
            },
            {'area': AREA2, 'visibility_function': visibility_fs.raytracing},
        ],
        'fully_transparent': [{'area': AREA}, {'area': AREA2}],
        'partially_occluded': [{'area': AREA}, {'area': AREA2}],
        'raytracing': [{'area': AREA}, {'area': AREA2}],
        'stochastic_raytracing': [{'area': AREA}, {'area': AREA2}],
    },
    'visibility': {
        'fully_transparent': [{}],
        'partially_occluded': [{}],
        'raytracing': [
            {},
            {'absolute_counts': False, 'threshold': 0.5},
            {'threshold': 2},
            {'threshold': 3, 'absolute_counts': True},
        ],
        'stochastic_raytracing': [{}],
    },
}

EXTRAS = [
    {},
    {'bogus_parameter': 3},
    {'state': 'x', 'zzz': None},
    {'rng': 'ignored rng'},
]


def sample_states():
    """(state, action, next_state) samples, from a variety of environments"""
    samples = []
    rng = rnd.default_rng(31337)
    resets = [
        functools.partial(reset_fs.keydoor, Shape(7, 7)),
        functools.partial(
            reset_fs.dynamic_obstacles, Shape(7, 7), 4, random_agent=True
        ),
        functools.partial(reset_fs.teleport, Shape(7, 7)),
        functools.partial(
            reset_fs.empty, Shape(5, 6), random_agent=True, random_exit=True
        ),
        functools.partial(
            reset_fs.memory, Shape(7, 7), {Color.RED, Color.BLUE, Color.GREEN}
        ),
        functools.partial(reset_fs.rooms, Shape(9, 9), (2, 2)),
    ]
    dynamics = [
        transition_fs.move_agent,
        transition_fs.turn_agent,
        transition_fs.actuate_door,
        transition_fs.pickndrop,
        transition_fs.move_obstacles,
        transition_fs.teleport,
    ]
    for reset in resets:
        for _ in range(3):
            state = reset(rng=rng)
            for _ in range(25):
                action = list(Action)[rng.integers(len(Action))]
                next_state = copy.deepcopy(state)
                for f in dynamics:
                    f(next_state, action, rng=rng)
                samples.append((state, action, next_state))
                state = next_state
    return samples


def call_kind(kind, function, sample, seed):
    """calls a component on a sample; returns a fingerprint of the outcome,
    and of the random numbers consumed"""
    rng = rnd.default_rng(seed)
    state, action, next_state = sample
    try:
        if kind == 'reset':
            out = fp_state(function(rng=rng))
        elif kind == 'transition':
            s = copy.deepcopy(state)
            out = (function(s, action, rng=rng), fp_state(s))
        elif kind in ('reward', 'terminating'):
            value = function(state, action, next_state, rng=rng)
            out = (type(value).__name__, value)
        elif kind == 'observation':
            out = fp_state(function(state, rng=rng))
        elif kind == 'visibility':
            value = function(state.grid, state.agent.position, rng=rng)
            out = (str(value.dtype), value.shape, value.tolist())
    except Exception as error:  # same failure is the same behaviour
        out = ('raised', type(error).__name__, str(error))
    return out, fp_rng(rng)


def part_components(samples, seeds):
    for kind, registry in REGISTRIES.items():
        module_factory = MODULES[kind].factory
        # (the custom components of examples/coin_env.py, registered when
        # part 1 imported that module, are exercised by part 1)
        names = [
            name
            for name, function in registry.items()
            if function.__module__ == MODULES[kind].__name__
        ]
        check(
            set(PARAMETER_SETS[kind]) == set(names),
            kind,
            'parameter sets do not cover the registered names',
            sorted(set(names) ^ set(PARAMETER_SETS[kind])),
        )
        for name in names:
            function = hand_function(kind, name)
            check(function is registry[name], kind, name)
            required, optional = hand_parameters(kind, function)
            record(kind, name, required, optional)
            for parameters, extra in itertools.product(
                PARAMETER_SETS[kind][name], EXTRAS
            ):
                label = f'{kind}.{name} {sorted(parameters)} {sorted(extra)}'
                # extras interleaved before and after
                kwargs = {}
                items = list(extra.items())
                if items:
                    kwargs[items[0][0]] = items[0][1]
                kwargs.update(parameters)
                kwargs.update(extra)
                pristine = dict(kwargs)

                built = module_factory(name, **kwargs)
                check(kwargs == pristine, label, 'kwargs modified')
                check(
                    list(kwargs) == list(pristine), label, 'kwargs reordered'
                )
                expected_keywords = {
                    k: v
                    for k, v in kwargs.items()
                    if k in required or k in optional
                }
                check(isinstance(built, functools.partial), label)
                check(built.func is function, label, 'wrong function')
                check(built.args == (), label)
                check(
                    list(built.keywords) == list(expected_keywords),
                    label,
                    'keywords',
                    list(built.keywords),
                )
                check(
                    all(
                        built.keywords[k] is expected_keywords[k]
                        for k in expected_keywords
                    ),
                    label,
                    'keyword values (identity)',
                )
                record(label, list(built.keywords))

                # behaves like the underlying function called directly
                direct = lambda *a, **kw: function(  # noqa: E731
                    *a, **parameters, **kw
                )
                picked = (
                    samples[:: max(1, len(samples) // 12)]
                    if kind != 'reset'
                    else samples[:1]
                )
                for sample, seed in itertools.product(picked, seeds):
                    check(
                        call_kind(kind, built, sample, seed)
                        == call_kind(kind, direct, sample, seed),
                        label,
                        seed,
                        'behaviour differs from direct call',
                    )

                # custom-module spelling of the same name
                if extra == {} and kind != 'visibility':
                    custom = module_factory(
                        f'{MODULES[kind].__name__}:{name}', **kwargs
                    )
                    check(same_partial(custom, built), label, 'custom')

            # each missing required parameter is reported (first one first)
            base = PARAMETER_SETS[kind][name][0]
            for n in range(1, len(required) + 1):
                for missing in itertools.combinations(required, n):
                    kwargs = {
                        k: v for k, v in base.items() if k not in missing
                    }
                    kwargs['bogus_parameter'] = 1
                    try:
                        module_factory(name, **kwargs)
                    except ValueError as error:
                        first = next(k for k in required if k in missing)
                        check(
                            str(error)
                            == f'missing keyword argument `{first}`',
                            kind,
                            name,
                            missing,
                            str(error),
                        )
                        check(error.__cause__ is None, kind, name, 'cause')
                        record(kind, name, missing, str(error))
                    else:
                        raise AssertionError(
                            f'{kind}.{name} accepted without {missing}'
                        )

        # unknown names
        for bad in (
            'no_such_function',
            '',
            'Reach_exit',
            'reach_exit ',
            'factory',
            '__name__',
            'registry',
        ):
            if bad in registry:
                continue
            for kwargs in ({}, {'shape': Shape(3, 3)}, {'reward': 1.0}):
                try:
                    module_factory(bad, **kwargs)
                except ValueError as error:
                    check(
                        str(error) == f'invalid {kind} function name {bad}',
                        kind,
                        bad,
                        str(error),
                    )
                    check(
                        isinstance(error.__cause__, KeyError),
                        kind,
                        bad,
                        'cause',
                    )
                    check(not isinstance(error, KeyError), kind, bad)
                    record(kind, bad, str(error))
                else:
                    raise AssertionError(f'{kind}: accepted name {bad!r}')


# ---------------------------------------------------------------------------
# part 4: components described by data (yaml-level factories)
# ---------------------------------------------------------------------------


def collect_descriptions():
    """all the component descriptions found in the shipped configurations,
    plus descriptions of the components which no configuration uses"""
    found = []
    for name, config in CONFIGS.items():
        for kind, path in component_paths(config):
            description = get_path(config, path)
            if (kind, description) not in found:
                found.append((kind, description))
    found.extend(
        [
            ('reset', {'name': 'empty', 'shape': [6, 5], 'random_exit': True}),
            ('transition', {'name': 'actuate_box'}),
            ('transition', {'name': 'teleport'}),
            (
                'transition',
                {
                    'name': 'chain',
                    'transition_functions': [
                        {'name': 'turn_agent'},
                        {
                            'name': 'chain',
                            'transition_functions': [
                                {'name': 'move_agent'},
                                {'name': 'move_obstacles'},
                            ],
                        },
                    ],
                },
            ),
            ('reward', {'name': 'overlap', 'object_type': 'Exit'}),
            (
                'reward',
                {
                    'name': 'overlap',
                    'object_type': 'Floor',
                    'reward_on': 0.5,
                    'reward_off': -0.5,
                },
            ),
            (
                'reward',
                {
                    'name': 'proportional_to_distance',
                    'object_type': 'Exit',
                    'distance_function': 'euclidean',
                },
            ),
            (
                'reward',
                {
                    'name': 'getting_closer',
                    'object_type': 'Exit',
                    'distance_function': 'euclidean',
                    'reward_closer': 1.5,
                },
            ),
            (
                'reward',
                {'name': 'getting_closer_shortest_path', 'object_type': 'Exit'},
            ),
            (
                'reward',
                {
                    'name': 'reduce_sum',
                    'reward_functions': [
                        {'name': 'living_reward', 'reward': 0.25},
                        {
                            'name': 'reduce_sum',
                            'reward_functions': [
                                {'name': 'bump_into_wall'},
                                {'name': 'reach_exit', 'reward_on': 2.0},
                            ],
                        },
                    ],
                },
            ),
            (
                'terminating',
                {
                    'name': 'reduce_all',
                    'terminating_functions': [
                        {'name': 'reach_exit'},
                        {'name': 'overlap', 'object_type': 'Exit'},
                    ],
                },
            ),
            ('terminating', {'name': 'overlap', 'object_type': 'Floor'}),
            ('observation', {'name': 'fully_transparent', 'area': [[-4, 0], [-2, 2]]}),
            ('observation', {'name': 'raytracing', 'area': [[-4, 0], [-2, 2]]}),
            (
                'observation',
                {'name': 'stochastic_raytracing', 'area': [[-2, 2], [-2, 2]]},
            ),
            (
                'observation',
                {
                    'name': 'from_visibility',
                    'area': [[-3, 1], [-2, 2]],
                    'visibility_function': {'name': 'partially_occluded'},
                },
            ),
            (
                'observation',
                {
                    'name': 'from_visibility',
                    'area': [[-3, 1], [-2, 2]],
                    'visibility_function': {
                        'name': 'raytracing',
                        'absolute_counts': False,
                        'threshold': 0.25,
                    },
                },
            ),
            ('visibility', {'name': 'fully_transparent'}),
            ('visibility', {'name': 'partially_occluded'}),
            ('visibility', {'name': 'raytracing', 'threshold': 2}),
            ('visibility', {'name': 'stochastic_raytracing'}),
        ]
    )
    return found


def part_described_components(samples, seeds):
    descriptions = collect_descriptions()
    picked = samples[:: max(1, len(samples) // 10)]
    for kind, description in descriptions:
        if ':' in description['name']:
            continue  # custom components are covered by part 1
        label = f'{kind} {description}'
        pristine = copy.deepcopy(description)
        built = YAML_FACTORIES[kind](description)
        check(description == pristine, label, 'description modified')
        check(repr(description) == repr(pristine), label, 'reordered')
        by_hand = hand_component(kind, description)
        check(same_partial(built, by_hand), label, fp_partial(built))
        again = YAML_FACTORIES[kind](description)
        check(same_partial(again, built), label, 'not repeatable')
        record(label, fp_partial(built))
        for sample, seed in itertools.product(
            picked if kind != 'reset' else picked[:1], seeds
        ):
            check(
                call_kind(kind, built, sample, seed)
                == call_kind(kind, by_hand, sample, seed),
                label,
                seed,
            )

    # process_reserved_keys, called directly: in-place, same object, key order
    for kind, description in descriptions:
        if ':' in description['name']:
            continue
        data = copy.deepcopy(description)
        del data['name']
        data['untouched'] = ['RED', [1, 2]]
        keys = list(data)
        untouched = data['untouched']
        result = yaml_factory.process_reserved_keys(data)
        check(result is None, 'process_reserved_keys returns', result)
        check(list(data) == keys, 'process_reserved_keys reorders keys')
        check(data['untouched'] is untouched, 'untouched key replaced')
        by_hand = hand_component(kind, description).keywords
        for key, value in by_hand.items():
            check(
                same_partial(data[key], value)
                if not isinstance(value, set)
                else data[key] == value and type(data[key]) is set,
                'process_reserved_keys',
                description,
                key,
            )
        if 'layout' in data:
            check(type(data['layout']) is tuple, 'layout type')
        if 'shape' in data:
            check(type(data['shape']) is Shape, 'shape type')
        if 'area' in data:
            check(type(data['area']) is Area, 'area type')
            check(
                data['area'] == Area(*description['area']), 'area value'
            )
        record('reserved', fp_partial([data[k] for k in keys]))

    # order of processing: the first offending key (in processing order) wins
    data = {
        'colors': ['PURPLE'],
        'object_type': 'Unicorn',
        'shape': [1, 2, 3],
    }
    try:
        yaml_factory.process_reserved_keys(data)
    except TypeError as error:
        record('order', type(error).__name__, str(error))
    else:
        raise AssertionError('shape with three elements accepted')
    check(data['colors'] == ['PURPLE'], 'later keys processed before failure')
    data = {'colors': ['PURPLE'], 'object_type': 'Unicorn', 'shape': [1, 2]}
    try:
        yaml_factory.process_reserved_keys(data)
    except ValueError as error:
        check(str(error) == 'Unregistered GridObject `Unicorn`', str(error))
    else:
        raise AssertionError('unknown object type accepted')
    check(data['shape'] == Shape(1, 2) and type(data['shape']) is Shape)
    check(data['colors'] == ['PURPLE'])
    data = {
        'reward_function': {'name': 'no_such_function'},
        'transition_functions': [{'name': 'move_agent'}, {'name': 'nope'}],
    }
    try:
        yaml_factory.process_reserved_keys(data)
    except ValueError as error:
        check(str(error) == 'invalid transition function name nope', error)
    else:
        raise AssertionError('unknown nested name accepted')
    check(data['reward_function'] == {'name': 'no_such_function'})

    # small factories
    check(yaml_factory.factory_shape([3, 4]) == Shape(3, 4))
    check(yaml_factory.factory_layout([3, 4]) == (3, 4))
    check(yaml_factory.factory_colors(['RED', 'NONE']) == [Color.RED, Color.NONE])
    check(yaml_factory.factory_object_types(['Wall', 'Key']) == [Wall, Key])
    check(
        yaml_factory.factory_distance_function('euclidean')
        is Position.euclidean_distance
    )
    check(
        list(yaml_factory.factory_action_space(['ACTUATE', 'TURN_LEFT']).actions)
        == [Action.ACTUATE, Action.TURN_LEFT]
    )
    for factory, bad_values in (
        (yaml_factory.factory_shape, BAD_SHAPES),
        (yaml_factory.factory_layout, BAD_SHAPES),
        (yaml_factory.factory_colors, BAD_COLORS),
        (yaml_factory.factory_action_space, BAD_ACTIONS),
        (yaml_factory.factory_object_types, BAD_OBJECT_LISTS),
    ):
        for bad in bad_values:
            try:
                factory(bad)
            except SchemaError:
                record(factory.__name__, repr(bad))
            else:
                raise AssertionError(f'{factory.__name__} accepted {bad!r}')


# ---------------------------------------------------------------------------
# main
# ---------------------------------------------------------------------------

REFERENCE_DIGEST = '5ffa78381fd1393b70056b50ef74fd9c345f0317b414df493e586e37ee27abbe'


def main():
    seeds = [0, 1, 2, 12345]
    part_shipped_configs(seeds, steps=40)
    print('part 1 (shipped configurations) ok', CHECKS)
    part_corruptions(seeds, steps=15)
    print('part 2 (corruptions) ok', CHECKS)
    samples = sample_states()
    part_components(samples, seeds[:3])
    print('part 3 (components by name) ok', CHECKS)
    part_described_components(samples, seeds[:3])
    print('part 4 (components by description) ok', CHECKS)
    digest = DIGEST.hexdigest()
    print('digest', digest)
    assert digest == REFERENCE_DIGEST, 'recorded reference outputs differ'
    print(f'OK: {CHECKS} checks')


if __name__ == '__main__':
    main()
