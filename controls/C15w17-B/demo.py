"""C15 and the rotation operators underneath the observation functions.

Run from the worktree root: /venv/bin/python _seed/B/demo.py

Independent of the patch: only public operators (`*`, `-`) and functions are
used, and compared with hard-coded tables / a brute-force reference embedded
below.
"""
import itertools as itt
import operator
import os
import re
import sys
import warnings

warnings.filterwarnings('ignore')
sys.path.insert(0, os.getcwd())

import numpy as np  # noqa: E402

import gym_gridverse  # noqa: E402

assert os.path.dirname(os.path.abspath(gym_gridverse.__file__)) == os.path.join(
    os.getcwd(), 'gym_gridverse'
), gym_gridverse.__file__

from gym_gridverse.agent import Agent  # noqa: E402
from gym_gridverse.envs import observation_functions  # noqa: E402
from gym_gridverse.envs.yaml.factory import factory_env_from_data  # noqa: E402
from gym_gridverse.geometry import (  # noqa: E402
    Area,
    Orientation,
    Position,
    Shape,
    Transform,
)
from gym_gridverse.grid import Grid  # noqa: E402
from gym_gridverse.grid_object import (  # noqa: E402
    Beacon,
    Color,
    Door,
    Exit,
    Floor,
    Hidden,
    Key,
    MovingObstacle,
    NoneGridObject,
    Telepod,
    Wall,
)
from gym_gridverse.representations.observation_representations import (  # noqa: E402
    make_observation_representation,
)
from gym_gridverse.representations.spaces import SpaceType  # noqa: E402
from gym_gridverse.representations.state_representations import (  # noqa: E402
    make_state_representation,
)
from gym_gridverse.spaces import ObservationSpace  # noqa: E402
from gym_gridverse.state import State  # noqa: E402

REPRESENTATIONS = ['default', 'no-overlap', 'compact']
F, B, L, R = Orientation.F, Orientation.B, Orientation.L, Orientation.R
N_CHECKS = 0


def check(condition, *what):
    global N_CHECKS
    N_CHECKS += 1
    if not condition:
        print('FAILED:', *what)
        sys.exit(1)


# ------------------------------------------------- reference implementation
# plain tuples, nothing from the library


def ref_rotate_yx(o, y, x):
    return {
        'FORWARD': (y, x),
        'BACKWARD': (-y, -x),
        'RIGHT': (x, -y),
        'LEFT': (-x, y),
    }[o.name]


def ref_rotate_area(o, ys, xs):
    """brute force: bounding box of all rotated cells"""
    cells = [
        ref_rotate_yx(o, y, x)
        for y in range(ys[0], ys[1] + 1)
        for x in range(xs[0], xs[1] + 1)
    ]
    rys, rxs = zip(*cells)
    return (min(rys), max(rys)), (min(rxs), max(rxs))


REF_COMPOSE = {  # (first, second) -> first * second, as quarter turns
    name: turns
    for name, turns in [('FORWARD', 0), ('RIGHT', 1), ('BACKWARD', 2), ('LEFT', 3)]
}
REF_BY_TURNS = {0: F, 1: R, 2: B, 3: L}


def ref_compose(o1, o2):
    return REF_BY_TURNS[(REF_COMPOSE[o1.name] + REF_COMPOSE[o2.name]) % 4]


def is_position(value, y, x):
    return (
        type(value) is Position
        and type(value.y) is int
        and type(value.x) is int
        and (value.y, value.x) == (y, x)
    )


def is_area(value, ys, xs):
    return (
        type(value) is Area
        and type(value.ys) is tuple
        and type(value.xs) is tuple
        and all(type(v) is int for v in value.ys + value.xs)
        and (value.ys, value.xs) == (tuple(ys), tuple(xs))
    )


# ----------------------------------------------------- 1. hard-coded tables

check(is_position(F * Position(2, -3), 2, -3), 'F position')
check(is_position(B * Position(2, -3), -2, 3), 'B position')
check(is_position(R * Position(2, -3), -3, -2), 'R position')
check(is_position(L * Position(2, -3), 3, 2), 'L position')
check(is_position(B * Position(0, 0), 0, 0), 'origin')

view = Area((-6, 0), (-3, 3))  # the view area of every shipped configuration
check(is_area(F * view, (-6, 0), (-3, 3)), 'F view')
check(is_area(B * view, (0, 6), (-3, 3)), 'B view')
check(is_area(R * view, (-3, 3), (0, 6)), 'R view')
check(is_area(L * view, (-3, 3), (-6, 0)), 'L view')

lopsided = Area((-4, 1), (-1, 5))
check(is_area(F * lopsided, (-4, 1), (-1, 5)), 'F lopsided')
check(is_area(B * lopsided, (-1, 4), (-5, 1)), 'B lopsided')
check(is_area(R * lopsided, (-1, 5), (-1, 4)), 'R lopsided')
check(is_area(L * lopsided, (-5, 1), (-4, 1)), 'L lopsided')

pose = Transform(Position(2, 5), R)
check(is_position(pose * Position(-1, 0), 2, 6), 'pose * front')
check(is_area(pose * view, (-1, 5), (5, 11)), 'pose * view')
check(pose * L is F and pose * R is B, 'pose * orientation')
product = pose * Transform(Position(-1, 1), L)
check(type(product) is Transform, 'pose * pose')
check(is_position(product.position, 3, 6) and product.orientation is F, product)

# --------------------------------- 2. exhaustive comparison, both operand orders

coordinates = range(-4, 5)
positions = [Position(y, x) for y in coordinates for x in coordinates]
intervals = [
    (lo, hi) for lo in range(-4, 5) for hi in range(lo, 5) if hi - lo <= 5
]
areas = [Area(ys, xs) for ys in intervals[::2] for xs in intervals[::3]]
areas += [Area((k, k), (j, j)) for k in (-2, 0, 3) for j in (-1, 0, 4)]
some_areas = areas[::5]  # (before the huge ones: brute force below)
areas += [Area((-100, 250), (-7, -7)), Area((0, 0), (0, 10**12))]

for o in Orientation:
    for o2 in Orientation:
        check((o * o2) is ref_compose(o, o2), o, o2)
        check(o.__mul__(o2) is ref_compose(o, o2), o, o2)
        check(o.__rmul__(o2) is ref_compose(o, o2), o, o2)
    check(o * -o is F and -o * o is F, 'inverse', o)

    for position in positions:
        y, x = ref_rotate_yx(o, position.y, position.x)
        check(is_position(o * position, y, x), o, position)
        check(is_position(position * o, y, x), position, o)
        check(is_position(o.__mul__(position), y, x), o, position)
        check(is_position(o.__rmul__(position), y, x), o, position)
        check((o * position) is not position, 'fresh position')
        check(is_position(-o * (o * position), position.y, position.x), o)

    for area in areas:
        ys, xs = ref_rotate_area(o, area.ys, area.xs) if (
            area.height * area.width < 10**4
        ) else {
            # the two huge areas, by hand
            ((-100, 250), (-7, -7)): {
                F: ((-100, 250), (-7, -7)),
                B: ((-250, 100), (7, 7)),
                R: ((-7, -7), (-250, 100)),
                L: ((7, 7), (-100, 250)),
            },
            ((0, 0), (0, 10**12)): {
                F: ((0, 0), (0, 10**12)),
                B: ((0, 0), (-(10**12), 0)),
                R: ((0, 10**12), (0, 0)),
                L: ((-(10**12), 0), (0, 0)),
            },
        }[area.ys, area.xs][o]
        check(is_area(o * area, ys, xs), o, area)
        check(is_area(area * o, ys, xs), area, o)
        check(is_area(o.__mul__(area), ys, xs), o, area)
        check(is_area(o.__rmul__(area), ys, xs), o, area)
        rotated = o * area
        check((rotated.height, rotated.width) == (
            (area.height, area.width) if o in (F, B) else (area.width, area.height)
        ), 'rotated shape', o, area)
        check(is_area(-o * rotated, area.ys, area.xs), 'round trip', o, area)
        # the input is only read
        check(type(area.ys) is tuple and area.ymin <= area.ymax, area)

# transforms, both operand orders
transform_positions = [Position(0, 0), Position(3, -2), Position(-1, 7)]
some_positions = positions[::7]
for t_position, o in itt.product(transform_positions, Orientation):
    t = Transform(t_position, o)
    for position in some_positions:
        y, x = ref_rotate_yx(o, position.y, position.x)
        y, x = y + t_position.y, x + t_position.x
        check(is_position(t * position, y, x), t, position)
        check(is_position(position * t, y, x), position, t)
        check(is_position(t.__rmul__(position), y, x), position, t)
        check(is_position(-t * (t * position), position.y, position.x), t)
    for area in some_areas:
        ys, xs = ref_rotate_area(o, area.ys, area.xs)
        ys = (ys[0] + t_position.y, ys[1] + t_position.y)
        xs = (xs[0] + t_position.x, xs[1] + t_position.x)
        check(is_area(t * area, ys, xs), t, area)
        check(is_area(area * t, ys, xs), area, t)
        check(is_area(t.__rmul__(area), ys, xs), area, t)
        check(is_area(-t * (t * area), area.ys, area.xs), t, area)
    for o2 in Orientation:
        check((t * o2) is ref_compose(o, o2), t, o2)
        check((o2 * t) is ref_compose(o, o2), o2, t)
        check(t.__rmul__(o2) is ref_compose(o, o2), o2, t)
    for t2_position, o2 in itt.product(transform_positions, Orientation):
        t2 = Transform(t2_position, o2)
        y, x = ref_rotate_yx(o, t2_position.y, t2_position.x)
        expected = (y + t_position.y, x + t_position.x, ref_compose(o, o2))
        for value in (t * t2, t.__mul__(t2), t.__rmul__(t2)):
            check(type(value) is Transform, t, t2)
            check(is_position(value.position, *expected[:2]), t, t2)
            check(value.orientation is expected[2], t, t2)
    identity = t * -t
    check(identity == Transform(Position(0, 0), F), 'identity', t)
    check(-t * t == Transform(Position(0, 0), F), 'identity', t)

# foreign operands: NotImplemented from the methods, TypeError from `*`
foreign = [3, 2.5, 'F', None, (1, 2), [F], Shape(2, 3), object(), np.int64(2)]
t = Transform(Position(1, 2), L)
for value in foreign:
    for left in (F, R, t):
        check(left.__mul__(value) is NotImplemented, left, value)
        check(left.__rmul__(value) is NotImplemented, left, value)
        for args in ((left, value), (value, left)):
            try:
                result = operator.mul(*args)
            except TypeError:
                pass
            else:
                check(False, 'no TypeError', args, result)
check(F.__mul__(t) is NotImplemented, 'orientation defers to the transform')
check(F.__rmul__(t) is NotImplemented, 'orientation defers to the transform')
check(t.__mul__(Grid.from_shape((2, 2))) is NotImplemented, 'transform, grid')

# grids rotate from both sides (Orientation defers to the grid)
grid = Grid([[Wall(), Floor(), Key(Color.RED)], [Exit(), Floor(), Wall()]])
expected_grids = {
    F: [[Wall(), Floor(), Key(Color.RED)], [Exit(), Floor(), Wall()]],
    B: [[Wall(), Floor(), Exit()], [Key(Color.RED), Floor(), Wall()]],
    R: [[Key(Color.RED), Wall()], [Floor(), Floor()], [Wall(), Exit()]],
    L: [[Exit(), Wall()], [Floor(), Floor()], [Wall(), Key(Color.RED)]],
}
for o in Orientation:
    check((grid * o).objects == expected_grids[o], 'grid * o', o)
    check((o * grid).objects == expected_grids[o], 'o * grid', o)
    check(F.__mul__(grid) is NotImplemented, 'orientation, grid')


# --------------- 3. observations: shape and content against brute force, C15

ALL_TYPES = [Floor, Wall, Exit, Door, Key, MovingObstacle, Telepod, Beacon]
ALL_COLORS = sorted(Color, key=lambda color: color.value)


def instances(object_type, colors):
    if object_type in (Floor, Wall, MovingObstacle):
        return [object_type()]
    if object_type is Door:
        return [
            Door(status, color) for status in Door.Status for color in colors
        ]
    return [object_type(color) for color in colors]


MEMBERS = [obj for t in ALL_TYPES for obj in instances(t, ALL_COLORS)]


def make_grid(shape, k):
    height, width = shape
    return Grid(
        [
            [MEMBERS[(k + 5 * y * width + 5 * x) % len(MEMBERS)] for x in range(width)]
            for y in range(height)
        ]
    )


def ref_observation_objects(state, area):
    """brute force: view cell (i, j) shows the world cell it lands on"""
    agent_y, agent_x = state.agent.position.yx
    rows = []
    for y in range(area.ys[0], area.ys[1] + 1):
        row = []
        for x in range(area.xs[0], area.xs[1] + 1):
            dy, dx = ref_rotate_yx(state.agent.orientation, y, x)
            wy, wx = agent_y + dy, agent_x + dx
            inside = (
                0 <= wy < state.grid.shape.height
                and 0 <= wx < state.grid.shape.width
            )
            row.append(state.grid.objects[wy][wx] if inside else Hidden())
        rows.append(row)
    return rows


def check_member(arrays, space, what):
    """key by key: shape, dtype and bounds"""
    check(set(arrays.keys()) == set(space.keys()), what, 'keys')
    for key, array in arrays.items():
        subspace = space[key]
        check(array.shape == subspace.shape, what, key, 'shape', array.shape)
        if subspace.space_type is SpaceType.CONTINUOUS:
            check(np.issubdtype(array.dtype, np.floating), what, key, 'dtype')
        else:
            check(np.issubdtype(array.dtype, np.integer), what, key, 'dtype')
        check(np.all(subspace.lower_bound <= array), what, key, 'lower')
        check(np.all(array <= subspace.upper_bound), what, key, 'upper')
        check(subspace.contains(array), what, key, 'Space.contains')


grid_shapes = [(2, 2), (2, 5), (6, 3), (4, 4), (3, 7)]
# ObservationSpace-style areas (agent at the bottom centre, odd width), and
# asymmetric ones (agent anywhere in the view, or even outside of it)
view_areas = [
    Area((-1, 0), (-1, 1)),
    Area((0, 0), (0, 0)),
    Area((-6, 0), (-3, 3)),
    Area((-3, 0), (0, 0)),
    Area((-2, 1), (-1, 3)),
    Area((-1, 3), (-4, 0)),
    Area((0, 2), (-2, 2)),
    Area((-5, -2), (1, 3)),
]
held_items = [NoneGridObject(), Key(Color.BLUE), Key(Color.NONE)]

for k, (grid_shape, area) in enumerate(itt.product(grid_shapes, view_areas)):
    grid = make_grid(grid_shape, k)
    observation_space = ObservationSpace(
        Shape(area.height, area.width), ALL_TYPES, ALL_COLORS
    )
    representations = {
        name: make_observation_representation(name, observation_space)
        for name in REPRESENTATIONS
    }
    for y, x, o in itt.product(
        range(grid_shape[0]), range(grid_shape[1]), Orientation
    ):
        what = (grid_shape, area, (y, x), o)
        item = held_items[(y + x + k) % len(held_items)]
        state = State(grid, Agent(Position(y, x), o, item))
        expected = ref_observation_objects(state, area)

        observation = observation_functions.fully_transparent(state, area=area)
        check(
            observation.grid.shape == Shape(area.height, area.width), what
        )
        check(observation.grid.objects == expected, what, 'content')
        check(
            observation.agent.position == Position(-area.ymin, -area.xmin)
            and observation.agent.orientation is F
            and observation.agent.grid_object is item,
            what,
            'agent',
        )
        # the state is only read
        check(state.grid is grid and state.agent.position == Position(y, x), what)

        observations = [observation]
        if area.contains(Position(0, 0)):
            # the other visibilities need the agent inside of the view
            observations.append(
                observation_functions.raytracing(state, area=area)
            )
            if area.ymax == 0:
                # ... and this one, on the bottom row of the view
                observations.append(
                    observation_functions.partially_occluded(state, area=area)
                )
            for other in observations[1:]:
                check(other.grid.shape == observation.grid.shape, what)
                for row, expected_row in zip(other.grid.objects, expected):
                    for obj, expected_obj in zip(row, expected_row):
                        check(obj == expected_obj or obj == Hidden(), what)

            for other in observations:
                check(observation_space.contains(other), what, 'member')
                for name, representation in representations.items():
                    check_member(
                        representation.convert(other),
                        representation.space,
                        what + (name,),
                    )


# --------------------------------- 4. shipped configurations, trajectories


def _scalar(token):
    token = token.strip()
    if token in ('true', 'True'):
        return True
    if token in ('false', 'False'):
        return False
    for convert in (int, float):
        try:
            return convert(token)
        except ValueError:
            pass
    return token


def _flow(text):
    tokens = re.findall(r'\[|\]|,|[^\[\],\s][^\[\],]*', text)
    position = 0

    def parse():
        nonlocal position
        token = tokens[position]
        position += 1
        if token != '[':
            return _scalar(token)
        items = []
        while tokens[position] != ']':
            if tokens[position] == ',':
                position += 1
                continue
            items.append(parse())
        position += 1
        return items

    value = parse()
    assert position == len(tokens), text
    return value


def _value(text):
    return _flow(text) if text.startswith('[') else _scalar(text)


def _block(lines, i, indent):
    """parses the block starting at lines[i], which has the given indent"""
    if lines[i][1].startswith('- '):
        items = []
        while i < len(lines) and lines[i][0] == indent:
            assert lines[i][1].startswith('- ')
            rest = lines[i][1][2:].strip()
            if re.match(r'^[A-Za-z_]+:( |$)', rest):
                lines[i] = (indent + 2, rest)
                item, i = _block(lines, i, indent + 2)
            else:
                item, i = _value(rest), i + 1
            items.append(item)
        return items, i

    mapping = {}
    while i < len(lines) and lines[i][0] == indent:
        key, _, rest = lines[i][1].partition(':')
        rest = rest.strip()
        if rest:
            mapping[key.strip()] = _value(rest)
            i += 1
        else:
            assert lines[i + 1][0] > indent, lines[i]
            mapping[key.strip()], i = _block(lines, i + 1, lines[i + 1][0])
    assert i == len(lines) or lines[i][0] < indent, lines[i]
    return mapping, i


def load_yaml(path):
    lines = []
    with open(path) as f:
        for line in f:
            line = line.split('#')[0].rstrip()
            if line.strip():
                lines.append((len(line) - len(line.lstrip()), line.strip()))
    data, i = _block(lines, 0, 0)
    assert i == len(lines)
    return data


directory = os.path.join('gym_gridverse', 'registered_envs')
filenames = sorted(os.listdir(directory))
check(len(filenames) == 21, filenames)
for index, filename in enumerate(filenames):
    env = factory_env_from_data(load_yaml(os.path.join(directory, filename)))
    check(env.observation_space.grid_shape == Shape(7, 7), filename)
    check(env.observation_space.area == view, filename)
    state_representations = {
        name: make_state_representation(name, env.state_space)
        for name in REPRESENTATIONS
    }
    observation_representations = {
        name: make_observation_representation(name, env.observation_space)
        for name in REPRESENTATIONS
    }
    # several environments in one process, re-seeding
    for seed in (index, index + 1, index):
        env.set_seed(seed)
        env.reset()
        for t in range(40):
            what = (filename, seed, t)
            state, observation = env.state, env.observation
            check(env.state_space.contains(state), what, 'state')
            check(env.observation_space.contains(observation), what, 'obs')
            check(observation.grid.shape == Shape(7, 7), what)
            expected = ref_observation_objects(state, view)
            for row, expected_row in zip(observation.grid.objects, expected):
                for obj, expected_obj in zip(row, expected_row):
                    check(obj == expected_obj or obj == Hidden(), what)
            check(observation.grid[6, 3] == expected[6][3], what, 'own cell')
            for name in REPRESENTATIONS:
                check_member(
                    state_representations[name].convert(state),
                    state_representations[name].space,
                    what + (name, 'state'),
                )
                check_member(
                    observation_representations[name].convert(observation),
                    observation_representations[name].space,
                    what + (name, 'observation'),
                )
            action = env.action_space.int_to_action(
                (seed + 5 * t + t * t) % env.action_space.num_actions
            )
            _, done = env.step(action)
            if done:
                env.reset()

print(f'demo B: {N_CHECKS} checks passed')
