"""Demo for change B (transition_functions.factory: parameters split once).

Run from the worktree root:  /venv/bin/python _seed/B/demo.py

Exits 0 on the pristine tree and with the patch applied.  It checks

1. `transition_functions.factory` against a reference implementation embedded
   here and against hard-coded expectations (which kwargs are bound, in which
   order, which are dropped, which error is raised first), on the built-in
   names and on custom functions with awkward signatures;  and that a chain
   built by the factory runs every part exactly once, in order, with the given
   state, action and rng (nested, empty, repeated parts, repeated calls);
2. property C10 (doors, keys and boxes respond only to a faced ACTUATE, and only
   as documented) on factory-built chains (flat and nested), against a
   reference model embedded in this file, on a broad sweep of scenarios;
3. all reachable states of small key-door environments (BFS through a GridWorld
   made of factory-built components): the locked door opens only with the key.
"""
import functools
import inspect
import itertools
import os
import pickle
import sys
import types
import warnings

warnings.filterwarnings('ignore')
sys.path.insert(0, os.getcwd())  # run from the worktree root

import numpy.random as rnd  # noqa: E402

from gym_gridverse.action import Action  # noqa: E402
from gym_gridverse.agent import Agent  # noqa: E402
from gym_gridverse.debugging import gv_debug, reset_gv_debug  # noqa: E402
from gym_gridverse.envs import observation_functions as observation_fs  # noqa: E402
from gym_gridverse.envs import reset_functions as reset_fs  # noqa: E402
from gym_gridverse.envs import reward_functions as reward_fs  # noqa: E402
from gym_gridverse.envs import terminating_functions as terminating_fs  # noqa: E402
from gym_gridverse.envs import transition_functions as transition_fs  # noqa: E402
from gym_gridverse.envs.gridworld import GridWorld  # noqa: E402
from gym_gridverse.geometry import Area, Orientation, Position, Shape  # noqa: E402
from gym_gridverse.grid import Grid  # noqa: E402
from gym_gridverse.grid_object import (  # noqa: E402
    Beacon,
    Box,
    Color,
    Door,
    Exit,
    Floor,
    Key,
    NoneGridObject,
    Telepod,
    Wall,
)
from gym_gridverse.observation import Observation  # noqa: E402
from gym_gridverse.spaces import (  # noqa: E402
    ActionSpace,
    ObservationSpace,
    StateSpace,
)
from gym_gridverse.state import State  # noqa: E402

CHECKS = 0


def check(condition, *message):
    global CHECKS
    CHECKS += 1
    if not condition:
        print('FAILED:', *message)
        sys.exit(1)


# --------------------------------------------------------------------------
# snapshots: plain-tuple descriptions of objects / states (independent of the
# library's __eq__, which e.g. ignores the content of a Box)
# --------------------------------------------------------------------------


def snap_obj(obj):
    content = snap_obj(obj.content) if isinstance(obj, Box) else None
    return (type(obj).__name__, obj.state_index, obj.color.name, content)


def snap_state(state):
    grid = tuple(
        tuple(snap_obj(state.grid[y, x]) for x in range(state.grid.shape.width))
        for y in range(state.grid.shape.height)
    )
    return (
        grid,
        (state.agent.position.y, state.agent.position.x),
        state.agent.orientation.name,
        snap_obj(state.agent.grid_object),
    )


# --------------------------------------------------------------------------
# reference model of the dynamics
#   chain(move_agent, turn_agent, actuate_door, actuate_box, pickndrop)
# written on snapshots only
# --------------------------------------------------------------------------

OPEN, CLOSED, LOCKED = 0, 1, 2
HEADINGS = ['FORWARD', 'RIGHT', 'BACKWARD', 'LEFT']  # clockwise, FORWARD=north
DELTAS = {
    'FORWARD': (-1, 0),
    'RIGHT': (0, 1),
    'BACKWARD': (1, 0),
    'LEFT': (0, -1),
}
MOVES = {
    Action.MOVE_FORWARD: 0,
    Action.MOVE_RIGHT: 1,
    Action.MOVE_BACKWARD: 2,
    Action.MOVE_LEFT: 3,
}
TURNS = {Action.TURN_RIGHT: 1, Action.TURN_LEFT: 3}
SNAP_FLOOR = ('Floor', 0, 'NONE', None)
SNAP_NONE = ('NoneGridObject', 0, 'NONE', None)


def ref_blocks_movement(obj):
    name, status, _, _ = obj
    if name == 'Door':
        return status != OPEN
    return name in ('Wall', 'Box')


def ref_holdable(obj):
    return obj[0] == 'Key'


def ref_front(pos, heading):
    dy, dx = DELTAS[heading]
    return (pos[0] + dy, pos[1] + dx)


def ref_step(snap, action):
    grid, pos, heading, held = snap
    grid = [list(row) for row in grid]
    height, width = len(grid), len(grid[0])

    def inside(p):
        return 0 <= p[0] < height and 0 <= p[1] < width

    if action in MOVES:
        direction = HEADINGS[(HEADINGS.index(heading) + MOVES[action]) % 4]
        target = ref_front(pos, direction)
        if inside(target) and not ref_blocks_movement(
            grid[target[0]][target[1]]
        ):
            pos = target

    elif action in TURNS:
        heading = HEADINGS[(HEADINGS.index(heading) + TURNS[action]) % 4]

    elif action is Action.ACTUATE:
        front = ref_front(pos, heading)
        if inside(front):
            obj = grid[front[0]][front[1]]
            if obj[0] == 'Door':
                if obj[1] == CLOSED or (
                    obj[1] == LOCKED and held[0] == 'Key' and held[2] == obj[2]
                ):
                    grid[front[0]][front[1]] = ('Door', OPEN, obj[2], None)
            elif obj[0] == 'Box':
                grid[front[0]][front[1]] = obj[3]

    elif action is Action.PICK_N_DROP:
        front = ref_front(pos, heading)
        if inside(front):
            obj = grid[front[0]][front[1]]
            if obj[0] == 'Floor' or ref_holdable(obj):
                grid[front[0]][front[1]] = (
                    held if held != SNAP_NONE else SNAP_FLOOR
                )
                held = obj if ref_holdable(obj) else SNAP_NONE

    else:
        raise AssertionError(action)

    return (tuple(tuple(row) for row in grid), pos, heading, held)


def doors_and_boxes(snap):
    """positions and descriptions of all doors and boxes of a snapshot"""
    return {
        (y, x): obj
        for y, row in enumerate(snap[0])
        for x, obj in enumerate(row)
        if obj[0] in ('Door', 'Box')
    }


def check_property_on_edge(before, action, after, context):
    """Property C10 stated directly (not through ref_step) on one transition"""
    doors_before = doors_and_boxes(before)
    doors_after = doors_and_boxes(after)
    front = ref_front(before[1], before[2])
    held = before[3]

    for position, obj in doors_before.items():
        y, x = position
        now = after[0][y][x]
        faced = action is Action.ACTUATE and position == front
        if not faced:
            check(now == obj, 'unfaced door/box changed', context, position)
        elif obj[0] == 'Door':
            opens = obj[1] == CLOSED or (
                obj[1] == LOCKED and held[0] == 'Key' and held[2] == obj[2]
            )
            expected = ('Door', OPEN, obj[2], None) if opens else obj
            check(now == expected, 'faced door', context, obj, now)
        else:
            check(now == obj[3], 'faced box not replaced by content', context)

    # no door / box appears out of nowhere, except out of an actuated box or
    # dropped from the agent's hands (never the case here: not holdable)
    for position, obj in doors_after.items():
        if position not in doors_before:
            check(
                action is Action.PICK_N_DROP and position == front,
                'door/box appeared',
                context,
            )

    # keys are not consumed by ACTUATE
    if action is Action.ACTUATE:
        check(after[3] == held, 'held item changed by ACTUATE', context)


# --------------------------------------------------------------------------
# sanity of the tables used by the reference model
# --------------------------------------------------------------------------

for obj in [
    Floor(),
    Wall(),
    Exit(),
    Exit(Color.RED),
    Key(Color.RED),
    Box(Floor()),
    Telepod(Color.RED),
    Beacon(Color.RED),
    Door(Door.Status.OPEN, Color.RED),
    Door(Door.Status.CLOSED, Color.NONE),
    Door(Door.Status.LOCKED, Color.BLUE),
]:
    check(
        ref_blocks_movement(snap_obj(obj)) == obj.blocks_movement,
        'blocks_movement table',
        obj,
    )
    check(ref_holdable(snap_obj(obj)) == obj.holdable, 'holdable table', obj)
check(
    [s.value for s in (Door.Status.OPEN, Door.Status.CLOSED, Door.Status.LOCKED)]
    == [OPEN, CLOSED, LOCKED],
    'door status values',
)

# --------------------------------------------------------------------------
# environment construction through the Python API (mirrors envs/yaml/factory)
# --------------------------------------------------------------------------

ALL_TYPES = [Floor, Wall, Exit, Door, Key, Box, Telepod, Beacon]
ALL_COLORS = list(Color)


def make_transition_function():
    return transition_fs.factory(
        'chain',
        transition_functions=[
            transition_fs.factory('move_agent'),
            transition_fs.factory('turn_agent'),
            transition_fs.factory('actuate_door'),
            transition_fs.factory('actuate_box'),
            transition_fs.factory('pickndrop'),
        ],
    )


def make_reward_function():
    return reward_fs.factory(
        'reduce_sum',
        reward_functions=[
            reward_fs.factory('living_reward', reward=-0.05),
            reward_fs.factory('reach_exit', reward_on=5.0, reward_off=0.0),
            reward_fs.factory(
                'actuate_door', reward_open=1.0, reward_close=-1.0
            ),
        ],
    )


def make_env(reset_function, shape, view=((-2, 0), (-1, 1))):
    area = Area(*view)
    return GridWorld(
        StateSpace(shape, ALL_TYPES, ALL_COLORS),
        ActionSpace(list(Action)),
        ObservationSpace(Shape(area.height, area.width), ALL_TYPES, ALL_COLORS),
        reset_function,
        make_transition_function(),
        observation_fs.factory('partially_occluded', area=area),
        make_reward_function(),
        terminating_fs.factory('reach_exit'),
    )


def dummy_reset(shape):
    def reset(*, rng=None):
        return State(
            Grid.from_shape(shape), Agent(Position(0, 0), Orientation.F)
        )

    return reset


# --------------------------------------------------------------------------
# part 1: transition_functions.factory / chain, with recording parts
# --------------------------------------------------------------------------


def ref_factory_keywords(function, kwargs):
    """Reference implementation of the kwargs selection of `factory`.

    Non-protocol parameters are all parameters but the first two (state,
    action) and `rng`;  those without default are required (the first missing
    one, in signature order, is reported);  the selected kwargs keep the order
    in which the caller gave them;  everything else is dropped.
    """
    signature = inspect.signature(function)
    parameters = list(signature.parameters.values())
    protocol = parameters[:2] + [signature.parameters['rng']]
    names = []
    for parameter in parameters:
        if parameter in protocol:
            continue
        if (
            parameter.default is inspect.Parameter.empty
            and parameter.name not in kwargs
        ):
            return ValueError(f'missing keyword argument `{parameter.name}`')
        names.append(parameter.name)
    return {key: value for key, value in kwargs.items() if key in names}


def check_factory(name, kwargs, *, registered_name=None):
    """factory(name, **kwargs) against the reference; returns the result"""
    registry = transition_fs.transition_function_registry
    function = registry[registered_name or name]
    given = dict(kwargs)
    expected = ref_factory_keywords(function, kwargs)
    try:
        result = transition_fs.factory(name, **kwargs)
    except ValueError as error:
        check(
            isinstance(expected, ValueError) and error.args == expected.args,
            'factory error',
            name,
            kwargs,
            error.args,
            expected,
        )
        result = None
    else:
        check(isinstance(expected, dict), 'factory should fail', name, kwargs)
        check(isinstance(result, functools.partial), 'factory makes a partial')
        check(result.func is function, 'partial of the registered function')
        check(result.args == (), 'no positional arguments bound')
        check(
            list(result.keywords.items()) == list(expected.items()),
            'bound keywords',
            name,
            result.keywords,
            expected,
        )
        check(
            all(result.keywords[key] is kwargs[key] for key in expected),
            'bound values are the given objects',
        )
    check(kwargs == given, "caller's kwargs untouched")
    return result


def part_factory():
    registry = transition_fs.transition_function_registry
    log = []

    def make_part(tag):
        def part(state, action, *, rng=None):
            log.append((tag, id(state), action, id(rng)))

        part.__name__ = f'demo_part_{tag}'
        return part

    # --- hard-coded expectations on the built-in names
    for name in (
        'move_agent',
        'turn_agent',
        'pickndrop',
        'move_obstacles',
        'actuate_door',
        'actuate_box',
        'teleport',
    ):
        check(name in registry, 'registered', name)
        for kwargs in (
            {},
            {'unknown': 1},
            {'rng': 5},
            {'state': 1, 'action': 2},
            {'transition_functions': []},
        ):
            function = check_factory(name, kwargs)
            check(function.keywords == {}, 'nothing to bind', name, kwargs)

    parts = [make_part('a'), make_part('b')]
    function = check_factory('chain', {'transition_functions': parts})
    check(
        list(function.keywords) == ['transition_functions']
        and function.keywords['transition_functions'] is parts,
        'chain binds the very list it is given',
    )
    function = check_factory(
        'chain', {'zzz': 0, 'transition_functions': parts, 'rng': None}
    )
    check(list(function.keywords) == ['transition_functions'], 'extras dropped')

    check(check_factory('chain', {}) is None, 'chain needs its parts')
    check(check_factory('chain', {'rng': None}) is None, 'chain needs parts')
    try:
        transition_fs.factory('chain')
    except ValueError as error:
        check(
            error.args == ('missing keyword argument `transition_functions`',),
            'missing message',
            error.args,
        )
    else:
        check(False, 'factory(chain) without parts must fail')

    for bad in ('nope', '', 'Chain', 'actuate_door '):
        try:
            transition_fs.factory(bad, transition_functions=[])
        except ValueError as error:
            check(
                error.args == (f'invalid transition function name {bad}',),
                'invalid name message',
                error.args,
            )
            check(isinstance(error.__cause__, KeyError), 'chained KeyError')
        else:
            check(False, 'invalid name accepted', bad)

    # --- custom functions: required / optional parameters interleaved
    suffix = f'{os.getpid()}'

    def custom(state, action, *, b, a=1, d, c=2, rng=None):
        log.append(('custom', id(state), action, id(rng), (a, b, c, d)))

    def positional(state, action, extra, opt=5, *, rng=None):
        log.append(('positional', id(state), action, id(rng), (extra, opt)))

    def varkw(state, action, *, rng=None, **more):
        log.append(('varkw', id(state), action, id(rng), more))

    def rng_in_the_middle(state, action, x, rng=None, y=3):
        log.append(('middle', id(state), action, id(rng), (x, y)))

    names = {}
    for function in (custom, positional, varkw, rng_in_the_middle):
        names[function] = f'demo_{function.__name__}_{suffix}'
        registry.register(function, name=names[function])

    name = names[custom]
    check(check_factory(name, {}) is None, 'custom: b missing')
    check(check_factory(name, {'d': 1}) is None, 'custom: b missing (d given)')
    check(check_factory(name, {'b': 1}) is None, 'custom: d missing')
    check(check_factory(name, {'a': 1, 'c': 1}) is None, 'custom: b missing')
    try:
        transition_fs.factory(name, a=0, c=0, d=0)
    except ValueError as error:
        check(error.args == ('missing keyword argument `b`',), 'b first')
    else:
        check(False, 'custom without b accepted')
    try:
        transition_fs.factory(name, a=0, c=0, b=0)
    except ValueError as error:
        check(error.args == ('missing keyword argument `d`',), 'then d')
    else:
        check(False, 'custom without d accepted')
    function = check_factory(name, {'d': 4, 'zzz': 9, 'c': 3, 'b': 2})
    check(
        list(function.keywords.items()) == [('d', 4), ('c', 3), ('b', 2)],
        "caller's order kept, unknown dropped",
        function.keywords,
    )
    for kwargs in itertools.permutations(
        [('a', 10), ('b', 20), ('c', 30), ('d', 40), ('rng', 50), ('e', 60)], 4
    ):
        check_factory(name, dict(kwargs))

    name = names[positional]
    check(check_factory(name, {}) is None, 'positional: extra missing')
    check(check_factory(name, {'opt': 1}) is None, 'positional: extra missing')
    function = check_factory(name, {'opt': 7, 'extra': 8})
    check(list(function.keywords.items()) == [('opt', 7), ('extra', 8)], 'pos')

    name = names[varkw]
    check(check_factory(name, {}) is None, '**more counts as required `more`')
    function = check_factory(name, {'more': 1, 'other': 2})
    check(function.keywords == {'more': 1}, 'only `more` selected')

    name = names[rng_in_the_middle]
    function = check_factory(name, {'y': 1, 'x': 2, 'rng': 3})
    check(list(function.keywords.items()) == [('y', 1), ('x', 2)], 'middle')

    # custom names `<module>:<name>` import the module, then look up <name>
    module_name = f'demo_custom_module_{suffix}'
    sys.modules[module_name] = types.ModuleType(module_name)
    function = check_factory(
        f'{module_name}:{names[custom]}',
        {'b': 1, 'd': 2},
        registered_name=names[custom],
    )
    check(function.keywords == {'b': 1, 'd': 2}, 'custom module name')
    try:
        transition_fs.factory(f'no_such_module_{suffix}:chain')
    except ImportError:
        check(True)
    else:
        check(False, 'missing custom module must fail at import')

    # a function put in the registry behind its back, without `rng`: the
    # failure comes from the protocol lookup, as before
    registry.data[f'demo_raw_{suffix}'] = lambda state, action: None
    try:
        transition_fs.factory(f'demo_raw_{suffix}')
    except TypeError as error:
        check(
            error.args == ('signature needs `{name}` keyword argument',),
            'raw function message',
            error.args,
        )
    else:
        check(False, 'function without rng accepted')
    del registry.data[f'demo_raw_{suffix}']

    # --- every configured part runs exactly once, in order, with the given
    # state, action and rng
    a, b, c = make_part('a'), make_part('b'), make_part('c')
    bound_custom = transition_fs.factory(names[custom], d=4, b=2, c=3)
    bound_positional = transition_fs.factory(names[positional], extra='e')
    inner = transition_fs.factory('chain', transition_functions=(b, a))
    empty = transition_fs.factory('chain', transition_functions=[])
    outer = transition_fs.factory(
        'chain',
        transition_functions=[
            a,
            inner,
            empty,
            bound_custom,
            c,
            a,
            bound_positional,
        ],
    )

    state = State(Grid.from_shape((2, 3)), Agent(Position(0, 0), Orientation.F))
    for rng in (None, rnd.default_rng(3)):
        for action in Action:
            for _ in range(2):  # repeated calls behave the same
                log.clear()
                check(outer(state, action, rng=rng) is None, 'returns None')
                ids = (id(state), action, id(rng))
                check(
                    log
                    == [
                        ('a',) + ids,
                        ('b',) + ids,
                        ('a',) + ids,
                        ('custom',) + ids + ((1, 2, 3, 4),),
                        ('c',) + ids,
                        ('a',) + ids,
                        ('positional',) + ids + (('e', 5),),
                    ],
                    'chain log',
                    log,
                )
                log.clear()
                check(empty(state, action, rng=rng) is None, 'empty chain')
                check(log == [], 'empty chain runs nothing')

    # transition_with_copy hands a copy (not the state) to the chain
    log.clear()
    rng = rnd.default_rng(4)
    next_state = transition_fs.transition_with_copy(
        outer, state, Action.ACTUATE, rng=rng
    )
    check(next_state is not state, 'copy')
    check(
        [entry[1:4] for entry in log]
        == [(id(next_state), Action.ACTUATE, id(rng))] * 7,
        'all parts work on the same copy',
    )

    for function in names.values():
        del registry.data[function]
    del sys.modules[module_name]


# --------------------------------------------------------------------------
# part 2: sweep of scenarios through factory-built chains
# --------------------------------------------------------------------------


def target_objects():
    for status in Door.Status:
        for color in (Color.NONE, Color.RED, Color.YELLOW):
            yield lambda status=status, color=color: Door(status, color)
    yield lambda: Box(Floor())
    yield lambda: Box(Key(Color.RED))
    yield lambda: Box(Door(Door.Status.LOCKED, Color.RED))
    yield lambda: Box(Box(Key(Color.BLUE)))


def held_objects(action):
    yield lambda: None
    yield lambda: Key(Color.RED)
    yield lambda: Box(Key(Color.RED))
    if action is Action.ACTUATE:
        yield lambda: Key(Color.NONE)
        yield lambda: Key(Color.YELLOW)
        yield lambda: Key(Color.BLUE)
        yield lambda: Door(Door.Status.LOCKED, Color.RED)
        yield lambda: Exit(Color.RED)
        yield lambda: Telepod(Color.YELLOW)
        yield lambda: Beacon(Color.NONE)


def scenario_layouts():
    """(shape, target position, distractors)"""
    for shape in (Shape(1, 2), Shape(2, 1), Shape(3, 5), Shape(5, 3)):
        height, width = shape.height, shape.width
        positions = {
            (0, 0),
            (0, width - 1),
            (height - 1, 0),
            (height - 1, width - 1),
            (height // 2, 0),
            (0, width // 2),
            (height // 2, width // 2),
        }
        for target in sorted(positions):
            yield shape, target


def make_nested_transition_function():
    factory = transition_fs.factory
    return factory(
        'chain',
        transition_functions=(
            factory(
                'chain',
                transition_functions=[
                    factory('move_agent'),
                    factory('chain', transition_functions=[]),
                    factory('turn_agent', unknown='dropped'),
                ],
            ),
            factory(
                'chain',
                transition_functions=[
                    factory('actuate_door', rng='dropped'),
                    factory('actuate_box'),
                ],
            ),
            factory('pickndrop'),
        ),
    )


def part_sweep():
    chains = [make_transition_function(), make_nested_transition_function()]
    rngs = [None, rnd.default_rng(7)]
    n_steps = 0
    for shape, target in scenario_layouts():
        # agent cells: around (and on) the target, plus the farthest cell
        cells = {
            (target[0] + dy, target[1] + dx)
            for dy in (-1, 0, 1)
            for dx in (-1, 0, 1)
        }
        cells.add(
            max(
                itertools.product(range(shape.height), range(shape.width)),
                key=lambda p: abs(p[0] - target[0]) + abs(p[1] - target[1]),
            )
        )
        cells = sorted(
            (y, x)
            for y, x in cells
            if 0 <= y < shape.height and 0 <= x < shape.width
        )

        for make_target in target_objects():
            for cell, orientation, action in itertools.product(
                cells, Orientation, Action
            ):
                for make_held in held_objects(action):
                    grid = Grid.from_shape(shape)
                    grid[target] = make_target()
                    # distractors: a locked red door and a box, wherever
                    # there is room (never on the target, possibly under the
                    # agent or in front of it)
                    far = cells[-1] if cells[-1] != target else cells[0]
                    if far != target:
                        grid[far] = Door(Door.Status.LOCKED, Color.RED)
                    other = (shape.height - 1 - target[0], target[1])
                    if other not in (target, far):
                        grid[other] = Box(Key(Color.YELLOW))

                    state = State(
                        grid, Agent(Position(*cell), orientation, make_held())
                    )
                    before = snap_state(state)
                    context = (shape, target, before[1:], action)

                    chain = chains[n_steps % 2]
                    rng = rngs[(n_steps // 2) % 2]
                    if n_steps % 3 == 0:
                        next_state = transition_fs.transition_with_copy(
                            chain, state, action, rng=rng
                        )
                    else:
                        next_state = pickle.loads(pickle.dumps(state))
                        check(
                            chain(next_state, action, rng=rng) is None,
                            'in place',
                        )
                    n_steps += 1

                    after = snap_state(next_state)
                    check(snap_state(state) == before, 'input mutated', context)
                    check(
                        after == ref_step(before, action),
                        'differs from the reference model',
                        context,
                        after,
                        ref_step(before, action),
                    )
                    check_property_on_edge(before, action, after, context)

    return n_steps


# --------------------------------------------------------------------------
# part 3: all reachable states of small key-door environments
# --------------------------------------------------------------------------


def part_keydoor():
    n_states = 0
    n_edges = 0
    for shape, seeds in (
        (Shape(4, 5), (0, 1)),
        (Shape(4, 7), (2,)),
        (Shape(5, 6), (3,)),
        (Shape(6, 5), (4,)),
    ):
        env = make_env(reset_fs.factory('keydoor', shape=shape), shape)
        other = make_env(reset_fs.factory('keydoor', shape=shape), shape)
        for seed in seeds:
            reset_gv_debug(True)

            # (re-)seeding: same seed, same states; the two envs live side by
            # side and do not disturb each other
            env.set_seed(seed)
            first = [snap_state(env.functional_reset()) for _ in range(3)]
            other.set_seed(seed + 1000)
            other.functional_reset()
            env.set_seed(seed)
            again = [snap_state(env.functional_reset()) for _ in range(3)]
            check(first == again, 're-seeding reproduces the resets')
            other.set_seed(seed)
            check(
                [snap_state(other.functional_reset()) for _ in range(3)]
                == first,
                'two environments, same seed, same resets',
            )

            env.set_seed(seed)
            env.reset()
            start = env.state
            doors = doors_and_boxes(snap_state(start))
            check(
                list(doors.values()) == [('Door', LOCKED, 'YELLOW', None)],
                'exactly one locked yellow door after reset',
                doors,
            )
            check(
                snap_obj(start.agent.grid_object) == SNAP_NONE,
                'nothing held after reset',
            )

            # the stateful interface agrees with the functional one
            for action in (
                Action.TURN_LEFT,
                Action.ACTUATE,
                Action.MOVE_FORWARD,
                Action.PICK_N_DROP,
                Action.ACTUATE,
            ):
                expected = ref_step(snap_state(env.state), action)
                env.step(action)
                check(snap_state(env.state) == expected, 'stateful step')
                observation = env.observation
                check(
                    snap_obj(observation.agent.grid_object) == expected[3],
                    'observation shows the held item',
                )

            # BFS over everything reachable from the reset state
            reset_gv_debug(False)
            seen = {snap_state(start): start}
            frontier = [start]
            opening_edges = 0
            while frontier:
                state = frontier.pop()
                before = snap_state(state)
                for action in Action:
                    next_state, _, _ = env.functional_step(state, action)
                    after = snap_state(next_state)
                    n_edges += 1
                    context = (shape, seed, before[1:], action)
                    check(
                        after == ref_step(before, action),
                        'keydoor: differs from the reference model',
                        context,
                    )
                    check_property_on_edge(before, action, after, context)

                    (position, door_before), = doors_and_boxes(before).items()
                    (position_after, door_after), = doors_and_boxes(
                        after
                    ).items()
                    check(position == position_after, 'door moved', context)
                    if door_before != door_after:
                        opening_edges += 1
                        check(
                            door_before[1] == LOCKED
                            and door_after[1] == OPEN
                            and action is Action.ACTUATE
                            and ref_front(before[1], before[2]) == position
                            and before[3] == ('Key', 0, 'YELLOW', None)
                            and after[3] == before[3],
                            'door opened without the key being used',
                            context,
                        )
                    if after not in seen:
                        seen[after] = next_state
                        frontier.append(next_state)
                    check(len(seen) < 200000, 'state space explosion')
            n_states += len(seen)
            check(opening_edges > 0, 'the door can be opened at all')
            check(
                any(
                    list(doors_and_boxes(s).values())[0][1] == OPEN
                    for s in seen
                ),
                'open-door states are reachable',
            )
    return n_states, n_edges


def main():
    try:
        part_factory()
        n_steps = part_sweep()
        n_states, n_edges = part_keydoor()
    finally:
        reset_gv_debug(None)
    print(
        f'OK: {CHECKS} checks, {n_steps} scenario steps, '
        f'{n_states} reachable key-door states, {n_edges} edges'
    )


if __name__ == '__main__':
    main()
