"""Demo for change B (StateSpace / ObservationSpace accept any iterable).

Run from the worktree root:  /venv/bin/python _seed/B/demo.py

Exits 0 on the pristine tree and with the patch applied.  Checks property C01
(closure and totality of steps, rejection of foreign actions without any side
effect, exactness of the space-membership predicates) with reference
predicates embedded below, plus a golden digest of seeded roll-outs.  The
spaces are built from lists, tuples, sets, frozensets, dict views, ... (all of
them legal before the change);  one-shot iterators are checked only when the
tree handles them (feature detection), otherwise a note is printed.
"""
import hashlib
import itertools
import math
import os
import sys
import warnings

warnings.filterwarnings('ignore')
sys.path.insert(0, os.getcwd())

import numpy as np  # noqa: E402

from gym_gridverse.action import Action  # noqa: E402
from gym_gridverse.agent import Agent  # noqa: E402
from gym_gridverse.debugging import reset_gv_debug  # noqa: E402
from gym_gridverse.envs import observation_functions as observation_fs  # noqa: E402
from gym_gridverse.envs import reset_functions as reset_fs  # noqa: E402
from gym_gridverse.envs import reward_functions as reward_fs  # noqa: E402
from gym_gridverse.envs import terminating_functions as terminating_fs  # noqa: E402
from gym_gridverse.envs import transition_functions as transition_fs  # noqa: E402
from gym_gridverse.envs.gridworld import GridWorld  # noqa: E402
from gym_gridverse.geometry import Area, Orientation, Position, Shape  # noqa: E402
from gym_gridverse.grid import Grid  # noqa: E402
from gym_gridverse.grid_object import (  # noqa: E402
    Beacon,
    Box,
    Color,
    Door,
    Exit,
    Floor,
    Hidden,
    Key,
    MovingObstacle,
    NoneGridObject,
    Telepod,
    Wall,
)
from gym_gridverse.spaces import (  # noqa: E402
    ActionSpace,
    ObservationSpace,
    StateSpace,
)
from gym_gridverse.state import State  # noqa: E402
from gym_gridverse.utils.fast_copy import fast_copy  # noqa: E402

CHECKS = 0


def check(condition, message):
    global CHECKS
    CHECKS += 1
    if not condition:
        print(f'FAIL: {message}')
        sys.exit(1)


# --------------------------------------------------------------------------
# canonical encodings (independent of __repr__ / __eq__ of the library)
# --------------------------------------------------------------------------


def enc_obj(obj):
    extra = enc_obj(obj.content) if isinstance(obj, Box) else None
    return (type(obj).__name__, int(obj.state_index), obj.color.name, extra)


def enc_grid(grid):
    return tuple(
        tuple(enc_obj(grid.objects[y][x]) for x in range(grid.shape.width))
        for y in range(grid.shape.height)
    )


def enc_agent(agent):
    return (
        int(agent.position.y),
        int(agent.position.x),
        agent.orientation.name,
        enc_obj(agent.grid_object),
    )


def enc_state(state):
    return (enc_grid(state.grid), enc_agent(state.agent))


# --------------------------------------------------------------------------
# reference membership predicates (written from the property statement)
# --------------------------------------------------------------------------


def ref_state_in_space(state, shape, object_types, colors):
    colors = set(colors) | {Color.NONE}
    grid = state.grid
    if (grid.shape.height, grid.shape.width) != (shape.height, shape.width):
        return False
    if len(grid.objects) != shape.height:
        return False
    for row in grid.objects:
        if len(row) != shape.width:
            return False
        for obj in row:
            if not any(type(obj) is t for t in object_types):
                return False
            if obj.color not in colors:
                return False
    y, x = state.agent.position.y, state.agent.position.x
    if not (0 <= y < shape.height and 0 <= x < shape.width):
        return False
    if not isinstance(state.agent.orientation, Orientation):
        return False
    held = state.agent.grid_object
    if not any(type(held) is t for t in list(object_types) + [NoneGridObject]):
        return False
    return held.color in colors


def ref_observation_in_space(observation, shape, object_types, colors):
    colors = set(colors) | {Color.NONE}
    grid = observation.grid
    if (grid.shape.height, grid.shape.width) != (shape.height, shape.width):
        return False
    for row in grid.objects:
        if len(row) != shape.width:
            return False
        for obj in row:
            if not any(type(obj) is t for t in list(object_types) + [Hidden]):
                return False
            if obj.color not in colors:
                return False
    y, x = observation.agent.position.y, observation.agent.position.x
    if not (0 <= y < shape.height and 0 <= x < shape.width):
        return False
    held = observation.agent.grid_object
    if not any(type(held) is t for t in list(object_types) + [NoneGridObject]):
        return False
    return held.color in colors


# --------------------------------------------------------------------------
# environment assembly through the python API
# --------------------------------------------------------------------------

ALL_COLORS = [Color.NONE, Color.RED, Color.GREEN, Color.BLUE, Color.YELLOW]
MOVE_TURN = [
    Action.MOVE_FORWARD,
    Action.MOVE_BACKWARD,
    Action.MOVE_LEFT,
    Action.MOVE_RIGHT,
    Action.TURN_LEFT,
    Action.TURN_RIGHT,
]


def chain(*names):
    return transition_fs.factory(
        'chain',
        transition_functions=[transition_fs.factory(n) for n in names],
    )


def reward_sum(*specs):
    return reward_fs.factory(
        'reduce_sum',
        reward_functions=[reward_fs.factory(n, **kw) for n, kw in specs],
    )


def term_any(*names):
    return terminating_fs.factory(
        'reduce_any',
        terminating_functions=[terminating_fs.factory(n) for n in names],
    )


GETTING_CLOSER = (
    'getting_closer',
    dict(object_type=Exit, reward_closer=0.2, reward_further=-0.2),
)
LIVING = ('living_reward', dict(reward=-0.05))
REACH = ('reach_exit', dict(reward_on=5.0, reward_off=0.0))


def as_dict_keys(items):
    return dict.fromkeys(items).keys()


def as_reversed_tuple(items):
    return tuple(reversed(list(items)))


def with_duplicates(items):
    items = list(items)
    return items + items[::-1]


# (state objects, state colors, observation objects, observation colors)
CONTAINER_KINDS = [
    (list, list, list, list),
    (tuple, tuple, tuple, tuple),
    (set, frozenset, frozenset, set),
    (as_dict_keys, as_reversed_tuple, with_duplicates, as_dict_keys),
    (with_duplicates, set, as_reversed_tuple, tuple),
]


class Config:
    def __init__(
        self,
        name,
        objects,
        colors,
        reset,
        transitions,
        rewards,
        terminating,
        observation='partially_occluded',
        area=Area((-6, 0), (-3, 3)),
        actions=None,
    ):
        self.name = name
        self.objects = objects
        self.colors = colors
        self.reset = reset
        self.transitions = transitions
        self.rewards = rewards
        self.terminating = terminating
        self.observation = observation
        self.area = area
        self.actions = list(Action) if actions is None else actions
        self.kind = 0

    def build(self):
        reset_function = reset_fs.factory(self.reset[0], **self.reset[1])
        observation_function = observation_fs.factory(
            self.observation, area=self.area
        )
        state = reset_function(rng=np.random.default_rng(0))
        self.state_shape = state.grid.shape
        self.observation_shape = Shape(self.area.height, self.area.width)
        # the spaces are built from a different kind of container for every
        # configuration (all of these were legal on the pristine tree)
        kinds = CONTAINER_KINDS[self.kind % len(CONTAINER_KINDS)]
        return GridWorld(
            StateSpace(
                self.state_shape, kinds[0](self.objects), kinds[1](self.colors)
            ),
            ActionSpace(list(self.actions)),
            ObservationSpace(
                self.observation_shape,
                kinds[2](self.objects),
                kinds[3](self.colors),
            ),
            reset_function,
            chain(*self.transitions),
            observation_function,
            reward_sum(*self.rewards),
            term_any(*self.terminating),
        )


def shipped_like_configs():
    """mirrors of the shipped YAML configurations, plus awkward variants"""
    mem_colors = {Color.RED, Color.GREEN, Color.BLUE, Color.YELLOW}
    return [
        Config(
            'empty.4x4',
            [Wall, Floor, Exit],
            [Color.NONE],
            ('empty', dict(shape=Shape(4, 4))),
            ['move_agent', 'turn_agent'],
            [REACH, GETTING_CLOSER, LIVING],
            ['reach_exit'],
            actions=MOVE_TURN,
        ),
        Config(
            'empty.5x8.random',
            [Wall, Floor, Exit],
            [Color.NONE],
            (
                'empty',
                dict(shape=Shape(5, 8), random_agent=True, random_exit=True),
            ),
            ['move_agent', 'turn_agent'],
            [REACH, GETTING_CLOSER, LIVING],
            ['reach_exit'],
            observation='raytracing',
            area=Area((-2, 0), (-1, 1)),
            actions=MOVE_TURN,
        ),
        Config(
            'four_rooms.7x7',
            [Wall, Floor, Exit],
            [Color.NONE],
            ('rooms', dict(shape=Shape(7, 7), layout=(2, 2))),
            ['move_agent', 'turn_agent'],
            [REACH, GETTING_CLOSER, LIVING],
            ['reach_exit'],
            actions=MOVE_TURN,
        ),
        Config(
            'nine_rooms.10x13',
            [Wall, Floor, Exit],
            [Color.NONE],
            ('rooms', dict(shape=Shape(10, 13), layout=(3, 3))),
            ['move_agent', 'turn_agent'],
            [REACH, GETTING_CLOSER, LIVING],
            ['reach_exit'],
            observation='fully_transparent',
            actions=MOVE_TURN,
        ),
        Config(
            'dynamic_obstacles.5x5',
            [Wall, Floor, Exit, MovingObstacle],
            [Color.NONE],
            (
                'dynamic_obstacles',
                dict(shape=Shape(5, 5), num_obstacles=1, random_agent=False),
            ),
            ['move_agent', 'turn_agent', 'move_obstacles'],
            [
                REACH,
                ('bump_moving_obstacle', dict(reward=-1.0)),
                ('bump_into_wall', dict(reward=-1.0)),
                GETTING_CLOSER,
                LIVING,
            ],
            ['reach_exit', 'bump_moving_obstacle', 'bump_into_wall'],
            actions=MOVE_TURN,
        ),
        Config(
            'dynamic_obstacles.6x9.random',
            [Wall, Floor, Exit, MovingObstacle],
            [Color.NONE],
            (
                'dynamic_obstacles',
                dict(shape=Shape(6, 9), num_obstacles=5, random_agent=True),
            ),
            ['move_agent', 'turn_agent', 'move_obstacles'],
            [
                REACH,
                ('bump_moving_obstacle', dict(reward=-1.0)),
                ('bump_into_wall', dict(reward=-1.0)),
                LIVING,
            ],
            ['reach_exit', 'bump_moving_obstacle', 'bump_into_wall'],
            observation='stochastic_raytracing',
            area=Area((-4, 0), (-2, 2)),
            actions=MOVE_TURN,
        ),
        Config(
            'keydoor.7x7',
            [Wall, Floor, Exit, Door, Key],
            [Color.NONE, Color.YELLOW],
            ('keydoor', dict(shape=Shape(7, 7))),
            ['move_agent', 'turn_agent', 'actuate_door', 'pickndrop'],
            [
                REACH,
                (
                    'pickndrop',
                    dict(object_type=Key, reward_pick=1.0, reward_drop=-1.0),
                ),
                ('actuate_door', dict(reward_open=1.0, reward_close=-1.0)),
                GETTING_CLOSER,
                LIVING,
            ],
            ['reach_exit'],
        ),
        Config(
            'keydoor.5x9',
            [Wall, Floor, Exit, Door, Key],
            [Color.NONE, Color.YELLOW],
            ('keydoor', dict(shape=Shape(5, 9))),
            ['move_agent', 'turn_agent', 'actuate_door', 'pickndrop'],
            [
                REACH,
                (
                    'pickndrop',
                    dict(object_type=Key, reward_pick=1.0, reward_drop=-1.0),
                ),
                ('actuate_door', dict(reward_open=1.0, reward_close=-1.0)),
                LIVING,
            ],
            ['reach_exit'],
            observation='raytracing',
        ),
        Config(
            'crossing.5x5',
            [Wall, Floor, Exit],
            [Color.NONE],
            (
                'crossing',
                dict(shape=Shape(5, 5), num_rivers=1, object_type=Wall),
            ),
            ['move_agent', 'turn_agent'],
            [
                REACH,
                ('bump_into_wall', dict(reward=-1.0)),
                GETTING_CLOSER,
                LIVING,
            ],
            ['reach_exit', 'bump_into_wall'],
            actions=MOVE_TURN,
        ),
        Config(
            'crossing.7x9',
            [Wall, Floor, Exit],
            [Color.NONE],
            (
                'crossing',
                dict(shape=Shape(7, 9), num_rivers=3, object_type=Wall),
            ),
            ['move_agent', 'turn_agent'],
            [REACH, LIVING],
            ['reach_exit'],
            actions=MOVE_TURN,
        ),
        Config(
            'teleport.5x5',
            [Wall, Floor, Exit, Telepod],
            [Color.NONE, Color.RED],
            ('teleport', dict(shape=Shape(5, 5))),
            ['move_agent', 'turn_agent', 'teleport'],
            [REACH, GETTING_CLOSER, LIVING],
            ['reach_exit'],
            actions=MOVE_TURN,
        ),
        Config(
            'teleport.7x7',
            [Wall, Floor, Exit, Telepod],
            [Color.NONE, Color.RED],
            ('teleport', dict(shape=Shape(7, 7))),
            ['move_agent', 'turn_agent', 'teleport'],
            [REACH, GETTING_CLOSER, LIVING],
            ['reach_exit'],
            actions=MOVE_TURN,
        ),
        Config(
            'memory.5x5',
            [Wall, Floor, Exit, Beacon],
            ALL_COLORS,
            ('memory', dict(shape=Shape(5, 5), colors=mem_colors)),
            ['move_agent', 'turn_agent'],
            [
                ('reach_exit_memory', dict(reward_good=5.0, reward_bad=-5.0)),
                LIVING,
            ],
            ['reach_exit'],
            actions=MOVE_TURN,
        ),
        Config(
            'memory.6x9',
            [Wall, Floor, Exit, Beacon],
            ALL_COLORS,
            ('memory', dict(shape=Shape(6, 9), colors=mem_colors)),
            ['move_agent', 'turn_agent'],
            [
                ('reach_exit_memory', dict(reward_good=5.0, reward_bad=-5.0)),
                LIVING,
            ],
            ['reach_exit'],
            actions=MOVE_TURN,
        ),
        Config(
            'memory_four_rooms.7x7',
            [Wall, Floor, Exit, Beacon],
            ALL_COLORS,
            (
                'memory_rooms',
                dict(
                    shape=Shape(7, 7),
                    layout=(2, 2),
                    colors=mem_colors,
                    num_beacons=1,
                    num_exits=2,
                ),
            ),
            ['move_agent', 'turn_agent'],
            [
                ('reach_exit_memory', dict(reward_good=5.0, reward_bad=-5.0)),
                LIVING,
            ],
            ['reach_exit'],
            actions=MOVE_TURN,
        ),
    ]


# --------------------------------------------------------------------------
# the core check of one step
# --------------------------------------------------------------------------


def check_step(env, cfg, state, action, tag):
    before = enc_state(state)
    try:
        next_state, reward, terminal = env.functional_step(state, action)
    except Exception as error:  # pylint: disable=broad-except
        check(False, f'{tag}: step raised {error!r}')
    check(enc_state(state) == before, f'{tag}: input state was modified')
    check(next_state is not state, f'{tag}: next state aliases the input')
    check(
        ref_state_in_space(
            next_state, cfg.state_shape, cfg.objects, cfg.colors
        ),
        f'{tag}: next state not in the state space',
    )
    check(
        env.state_space.contains(next_state) is True,
        f'{tag}: StateSpace.contains rejects the next state',
    )
    check(
        isinstance(reward, float) and math.isfinite(reward),
        f'{tag}: reward {reward!r} is not a finite float',
    )
    check(
        isinstance(terminal, (bool, np.bool_)),
        f'{tag}: terminal {terminal!r} is not boolean',
    )
    return next_state, reward, terminal


def check_observation(env, cfg, state, tag):
    before = enc_state(state)
    try:
        observation = env.functional_observation(state)
    except Exception as error:  # pylint: disable=broad-except
        check(False, f'{tag}: observation raised {error!r}')
    check(enc_state(state) == before, f'{tag}: observation modified the state')
    check(
        ref_observation_in_space(
            observation, cfg.observation_shape, cfg.objects, cfg.colors
        ),
        f'{tag}: observation not in the observation space',
    )
    check(
        env.observation_space.contains(observation) is True,
        f'{tag}: ObservationSpace.contains rejects the observation',
    )
    check(
        enc_obj(observation.agent.grid_object)
        == enc_obj(state.agent.grid_object),
        f'{tag}: observed held item differs',
    )
    return observation


FOREIGN_ACTIONS = [None, 0, 7, -1, 'MOVE_FORWARD', 3.5, (Action.ACTUATE,), object]


def rng_state(env):
    # pylint: disable=protected-access
    return None if env._rng is None else repr(env._rng.bit_generator.state)


def check_rejections(env, cfg, tag):
    """foreign actions -> ValueError, and nothing at all has changed"""
    foreign = list(FOREIGN_ACTIONS) + [
        a for a in Action if a not in cfg.actions
    ]
    for action in foreign:
        state = env.state
        state_before = enc_state(state)
        # pylint: disable=protected-access
        observation_before = env._observation
        rng_before = rng_state(env)
        for call in (
            lambda: env.step(action),
            lambda: env.functional_step(env.state, action),
        ):
            try:
                call()
            except ValueError as error:
                check(
                    'action' in str(error),
                    f'{tag}: unexpected message {error}',
                )
            except Exception as error:  # pylint: disable=broad-except
                check(False, f'{tag}: {action!r} raised {error!r}')
            else:
                check(False, f'{tag}: foreign action {action!r} accepted')
        check(env.state is state, f'{tag}: state replaced after rejection')
        check(
            enc_state(env.state) == state_before,
            f'{tag}: state changed after rejection',
        )
        check(
            env._observation is observation_before,
            f'{tag}: memoized observation dropped after rejection',
        )
        check(rng_state(env) == rng_before, f'{tag}: rng advanced')


# --------------------------------------------------------------------------
# part 1: roll-outs in the shipped-like configurations (+ golden digest)
# --------------------------------------------------------------------------


def rollouts(debug):
    reset_gv_debug(debug)
    digest = hashlib.sha256()
    for kind, cfg in enumerate(shipped_like_configs()):
        cfg.kind = kind
        env = cfg.build()
        check(
            [env.action_space.int_to_action(i) for i in range(len(cfg.actions))]
            == cfg.actions,
            f'{cfg.name}: action space order',
        )
        for seed in (0, 1, 2):
            env.set_seed(seed)
            driver = np.random.default_rng(1000 + seed)
            env.reset()
            tag = f'{cfg.name}/debug={debug}/seed={seed}'
            check(
                ref_state_in_space(
                    env.state, cfg.state_shape, cfg.objects, cfg.colors
                ),
                f'{tag}: reset state not in space',
            )
            for t in range(40):
                observation = check_observation(env, cfg, env.state, tag)
                check(
                    env.observation is env.observation,
                    f'{tag}: observation not memoized',
                )
                if t % 13 == 0:
                    check_rejections(env, cfg, tag)
                action = cfg.actions[driver.integers(len(cfg.actions))]
                state = env.state
                # functional step on a copy of the env rng: must agree with
                # the stateful step that follows
                # pylint: disable=protected-access
                saved = fast_copy(env._rng)
                expected = check_step(env, cfg, state, action, tag)
                env._rng = saved
                reward, terminal = env.step(action)
                check(
                    enc_state(env.state) == enc_state(expected[0])
                    and reward == expected[1]
                    and bool(terminal) == bool(expected[2]),
                    f'{tag}: step and functional_step disagree',
                )
                digest.update(
                    repr(
                        (
                            cfg.name,
                            seed,
                            t,
                            action.name,
                            enc_state(env.state),
                            round(reward, 9),
                            bool(terminal),
                            enc_grid(observation.grid),
                            enc_agent(observation.agent),
                        )
                    ).encode()
                )
                if terminal:
                    env.reset()
    return digest.hexdigest()


# --------------------------------------------------------------------------
# part 2: hand-built awkward states x all actions x all orientations
# --------------------------------------------------------------------------

KITCHEN_OBJECTS = [
    Wall,
    Floor,
    Exit,
    Door,
    Key,
    MovingObstacle,
    Box,
    Telepod,
    Beacon,
]


def kitchen_grids():
    """non-square grids without a wall boundary, any mix of objects"""
    yield 'floor.1x1', Grid.from_shape((1, 1))
    yield 'floor.1x4', Grid.from_shape((1, 4))
    yield 'floor.3x1', Grid.from_shape((3, 1))
    yield 'walls.2x3', Grid.from_shape((2, 3), factory=Wall)

    grid = Grid.from_shape((3, 5))
    grid[0, 0] = Exit()
    grid[0, 1] = Key(Color.YELLOW)
    grid[0, 2] = Door(Door.Status.LOCKED, Color.YELLOW)
    grid[0, 3] = Door(Door.Status.CLOSED, Color.BLUE)
    grid[0, 4] = Door(Door.Status.OPEN, Color.NONE)
    grid[1, 0] = Telepod(Color.RED)  # unpaired
    grid[1, 2] = Box(Key(Color.GREEN))
    grid[1, 4] = MovingObstacle()
    grid[2, 0] = Box(Box(Floor()))
    grid[2, 1] = Telepod(Color.GREEN)
    grid[2, 3] = Telepod(Color.GREEN)
    grid[2, 4] = Beacon(Color.BLUE)
    yield 'mix.3x5', grid

    grid = Grid.from_shape((4, 2))
    grid[0, 0] = Telepod(Color.NONE)
    grid[3, 1] = Telepod(Color.NONE)
    grid[1, 1] = Key(Color.NONE)
    grid[2, 0] = MovingObstacle()
    grid[3, 0] = Wall()
    yield 'mix.4x2', grid


def kitchen_env(shape, observation, area):
    cfg = Config(
        'kitchen',
        KITCHEN_OBJECTS,
        ALL_COLORS,
        None,
        [
            'move_agent',
            'turn_agent',
            'actuate_door',
            'actuate_box',
            'pickndrop',
            'teleport',
            'move_obstacles',
        ],
        [
            LIVING,
            ('bump_moving_obstacle', dict(reward=-1.0)),
            ('bump_into_wall', dict(reward=-1.0)),
            ('actuate_door', dict(reward_open=1.0, reward_close=-1.0)),
            (
                'pickndrop',
                dict(object_type=Key, reward_pick=1.0, reward_drop=-1.0),
            ),
            ('overlap', dict(object_type=Telepod, reward_on=0.5)),
            REACH,
        ],
        ['reach_exit', 'bump_moving_obstacle', 'bump_into_wall'],
        observation=observation,
        area=area,
    )
    cfg.state_shape = shape
    cfg.observation_shape = Shape(area.height, area.width)
    kinds = CONTAINER_KINDS[(shape.height + area.width) % len(CONTAINER_KINDS)]
    env = GridWorld(
        StateSpace(shape, kinds[0](cfg.objects), kinds[1](cfg.colors)),
        ActionSpace(list(Action)),
        ObservationSpace(
            cfg.observation_shape, kinds[2](cfg.objects), kinds[3](cfg.colors)
        ),
        lambda *, rng=None: None,
        chain(*cfg.transitions),
        observation_fs.factory(observation, area=area),
        reward_sum(*cfg.rewards),
        term_any(*cfg.terminating),
    )
    return cfg, env


def kitchen_sink(debug):
    reset_gv_debug(debug)
    digest = hashlib.sha256()
    held_items = [None, Key(Color.YELLOW), Key(Color.NONE), Key(Color.RED)]
    views = [
        ('partially_occluded', Area((-6, 0), (-3, 3))),
        ('fully_transparent', Area((-1, 0), (0, 0))),  # 2x1
        ('raytracing', Area((-2, 1), (-1, 1))),  # agent not on the last row
        ('stochastic_raytracing', Area((0, 0), (-2, 2))),  # 1x5
    ]
    for (name, grid), (k, (observation, area)) in itertools.product(
        kitchen_grids(), enumerate(views)
    ):
        cfg, env = kitchen_env(grid.shape, observation, area)
        env.set_seed(17)
        for position in grid.area.positions():
            if grid[position].blocks_movement and name != 'walls.2x3':
                continue
            for orientation in Orientation:
                held = held_items[
                    (position.y + position.x + orientation.value + k)
                    % len(held_items)
                ]
                for action in Action:
                    state = State(
                        fast_copy(grid),
                        Agent(position, orientation, fast_copy(held)),
                    )
                    key = (
                        f'{name}/{observation}/{position.y},{position.x}'
                        f'/{orientation.name}/{action.name}'
                    )
                    tag = f'{key}/debug={debug}'
                    check(
                        ref_state_in_space(
                            state, cfg.state_shape, cfg.objects, cfg.colors
                        ),
                        f'{tag}: scenario outside the state space',
                    )
                    next_state, reward, terminal = check_step(
                        env, cfg, state, action, tag
                    )
                    check_observation(env, cfg, next_state, tag)
                    digest.update(
                        repr(
                            (
                                key,
                                enc_state(next_state),
                                round(reward, 9),
                                bool(terminal),
                            )
                        ).encode()
                    )
                    for foreign in FOREIGN_ACTIONS:
                        before = enc_state(state)
                        # pylint: disable=protected-access
                        rng_before = rng_state(env)
                        try:
                            env.functional_step(state, foreign)
                        except ValueError:
                            pass
                        except Exception as error:  # noqa
                            check(False, f'{tag}: {foreign!r} -> {error!r}')
                        else:
                            check(False, f'{tag}: {foreign!r} accepted')
                        check(
                            enc_state(state) == before
                            and rng_state(env) == rng_before,
                            f'{tag}: rejection had a side effect',
                        )
    return digest.hexdigest()


# --------------------------------------------------------------------------
# part 3: the membership predicates accept exactly the conforming states
# --------------------------------------------------------------------------


def membership(kinds=(list, list, list, list), one_shot=False):
    shape = Shape(3, 4)
    objects = [Wall, Floor, Key, Door]
    colors = [Color.RED, Color.YELLOW]
    if one_shot:
        state_space = StateSpace(shape, iter(objects), iter(colors))
        observation_space = ObservationSpace(
            Shape(3, 5), (t for t in objects), (c for c in colors)
        )
    else:
        state_space = StateSpace(shape, kinds[0](objects), kinds[1](colors))
        observation_space = ObservationSpace(
            Shape(3, 5), kinds[2](objects), kinds[3](colors)
        )

    def mk(grid=None, position=Position(1, 1), held=None):
        grid = Grid.from_shape((3, 4)) if grid is None else grid
        return State(grid, Agent(position, Orientation.B, held))

    cases = []
    cases.append(mk())
    cases.append(mk(held=Key(Color.RED)))
    cases.append(mk(held=Key(Color.NONE)))
    cases.append(mk(held=Key(Color.BLUE)))  # undeclared colour
    cases.append(mk(held=Exit()))  # undeclared type
    cases.append(mk(held=Hidden()))  # Hidden is never held
    cases.append(mk(grid=Grid.from_shape((4, 3))))  # transposed shape
    cases.append(mk(grid=Grid.from_shape((3, 5))))
    for position in [
        Position(0, 0),
        Position(2, 3),
        Position(-1, 0),
        Position(0, -1),
        Position(3, 0),
        Position(0, 4),
        Position(2, 4),
    ]:
        cases.append(mk(position=position))
    for obj in [
        Wall(),
        Key(Color.YELLOW),
        Key(Color.GREEN),
        Door(Door.Status.LOCKED, Color.RED),
        Door(Door.Status.OPEN, Color.BLUE),
        Exit(),
        Hidden(),
        NoneGridObject(),
        Telepod(Color.RED),
    ]:
        for yx in [(0, 0), (2, 3), (1, 2)]:
            grid = Grid.from_shape((3, 4))
            grid[yx] = obj
            cases.append(mk(grid=grid))

    accepted = 0
    for i, state in enumerate(cases):
        expected = ref_state_in_space(state, shape, objects, colors)
        accepted += expected
        check(
            state_space.contains(state) == expected,
            f'membership: state case {i} expected {expected}',
        )
    check(0 < accepted < len(cases), 'membership: degenerate state cases')

    from gym_gridverse.observation import Observation

    def mko(grid=None, position=Position(2, 2), held=None):
        grid = Grid.from_shape((3, 5)) if grid is None else grid
        return Observation(grid, Agent(position, Orientation.F, held))

    ocases = [
        mko(),
        mko(held=Key(Color.YELLOW)),
        mko(held=Key(Color.GREEN)),
        mko(held=Hidden()),
        mko(held=Exit()),
        mko(grid=Grid.from_shape((5, 3))),
        mko(grid=Grid.from_shape((3, 4))),
        mko(position=Position(3, 2)),
        mko(position=Position(2, 5)),
        mko(position=Position(-1, 2)),
        mko(position=Position(0, 0)),
    ]
    for obj in [
        Hidden(),
        Wall(),
        Key(Color.RED),
        Key(Color.BLUE),
        Exit(),
        NoneGridObject(),
        Door(Door.Status.CLOSED, Color.YELLOW),
    ]:
        for yx in [(0, 0), (2, 4)]:
            grid = Grid.from_shape((3, 5))
            grid[yx] = obj
            ocases.append(mko(grid=grid))
    accepted = 0
    for i, observation in enumerate(ocases):
        expected = ref_observation_in_space(
            observation, Shape(3, 5), objects, colors
        )
        accepted += expected
        check(
            observation_space.contains(observation) == expected,
            f'membership: observation case {i} expected {expected}',
        )
    check(0 < accepted < len(ocases), 'membership: degenerate obs cases')

    # the action space
    action_space = ActionSpace(MOVE_TURN)
    for action in Action:
        check(
            action_space.contains(action) == (action in MOVE_TURN),
            f'membership: action {action}',
        )
    check(action_space.num_actions == 6, 'membership: num_actions')


# --------------------------------------------------------------------------
# part 4 (specific to change B): how the spaces are constructed
# --------------------------------------------------------------------------

# type indices of the built-in objects (order of registration)
TYPE_INDEX = {
    NoneGridObject: 0,
    Hidden: 1,
    Floor: 2,
    Wall: 3,
    Exit: 4,
    Door: 5,
    Key: 6,
    MovingObstacle: 7,
    Box: 8,
    Telepod: 9,
    Beacon: 10,
}
NUM_STATES = {
    NoneGridObject: 1,
    Hidden: 1,
    Floor: 1,
    Wall: 1,
    Exit: 1,
    Door: 3,
    Key: 1,
    MovingObstacle: 1,
    Box: 1,
    Telepod: 1,
    Beacon: 1,
}


def space_summary(space):
    return (
        type(space.object_types).__name__,
        sorted(t.__name__ for t in space.object_types),
        len(space.object_types),
        type(space.colors).__name__,
        sorted(c.name for c in space.colors),
        space.max_type_index,
        space.max_state_index,
        space.max_grid_object_type,
        space.max_grid_object_status,
        space.max_agent_object_type,
        space.max_agent_object_status,
        space.max_object_color,
        space.agent_state_size,
        space.agent_state_shape,
        (space.grid_state_shape.height, space.grid_state_shape.width),
    )


def expected_summary(shape, objects, colors, observation):
    """reference implementation of the public attributes of a space"""
    objects = list(objects)
    colors = set(colors) | {Color.NONE}
    grid_objects = objects + ([Hidden] if observation else [])
    agent_objects = objects + [NoneGridObject]
    grid_type = max(TYPE_INDEX[t] for t in grid_objects)
    grid_status = max(NUM_STATES[t] for t in grid_objects)
    agent_type = max(TYPE_INDEX[t] for t in agent_objects)
    agent_status = max(NUM_STATES[t] for t in agent_objects)
    color = max(c.value for c in colors)
    return (
        'list',
        sorted(t.__name__ for t in objects),
        len(objects),
        'set',
        sorted(c.name for c in colors),
        max(grid_type, agent_type),
        max(grid_status, agent_status),
        grid_type,
        grid_status,
        agent_type,
        agent_status,
        color,
        (
            shape.height,
            # NOTE: the state space reports the height twice (as pristine)
            shape.width if observation else shape.height,
            agent_type,
            agent_status,
            color,
        ),
        5,
        (shape.height, shape.width),
    )


def one_shot_iterators_supported():
    """feature detection: does the tree handle a generator of object types?"""
    space = StateSpace(Shape(2, 2), iter([Floor, Key]), iter([Color.RED]))
    state = State(
        Grid.from_shape((2, 2)),
        Agent(Position(0, 0), Orientation.F, Key(Color.RED)),
    )
    return space.contains(state)


def construction():
    for objects, colors in [
        ([Wall, Floor, Key, Door], [Color.RED, Color.YELLOW]),
        ([Floor], []),
        ([Floor], [Color.NONE]),
        ([Key, Floor, Key], [Color.BLUE, Color.BLUE, Color.NONE]),
        (list(TYPE_INDEX), list(Color)),
        ([Beacon, Telepod, Box, MovingObstacle], [Color.GREEN]),
        ([NoneGridObject, Hidden], [Color.YELLOW]),
    ]:
        for shape in [Shape(1, 1), Shape(3, 5), Shape(6, 3), Shape(2, 7)]:
            for kinds in CONTAINER_KINDS:
                arg_objects = kinds[0](objects)
                arg_colors = kinds[1](colors)
                space = StateSpace(shape, arg_objects, arg_colors)
                check(
                    space_summary(space)
                    == expected_summary(
                        shape, list(arg_objects), colors, False
                    ),
                    f'construction: StateSpace {objects} {colors} {kinds}',
                )
                check(
                    space.object_types == list(arg_objects),
                    'construction: StateSpace.object_types keeps the order',
                )
                check(
                    space.object_types is not arg_objects
                    and space.colors is not arg_colors,
                    'construction: StateSpace aliases its arguments',
                )
                arg_objects = kinds[2](objects)
                arg_colors = kinds[3](colors)
                space = ObservationSpace(shape, arg_objects, arg_colors)
                check(
                    space_summary(space)
                    == expected_summary(shape, list(arg_objects), colors, True),
                    f'construction: ObservationSpace {objects} {colors} {kinds}',
                )
                check(
                    space.object_types == list(arg_objects),
                    'construction: ObservationSpace.object_types keeps order',
                )
                check(
                    (space.area.height, space.area.width)
                    == (shape.height, shape.width)
                    and space.agent_position
                    == Position(shape.height - 1, shape.width // 2),
                    'construction: ObservationSpace area / agent position',
                )

    # the caller's containers can be changed afterwards: no effect
    objects = [Floor, Key]
    colors = [Color.RED]
    state_space = StateSpace(Shape(2, 3), objects, colors)
    observation_space = ObservationSpace(Shape(2, 3), objects, colors)
    objects.append(Wall)
    colors.append(Color.BLUE)
    del objects[0]
    state = State(
        Grid.from_shape((2, 3)),
        Agent(Position(1, 2), Orientation.L, Key(Color.RED)),
    )
    check(state_space.contains(state), 'construction: copy of arguments (1)')
    state.grid[0, 0] = Wall()
    check(
        not state_space.contains(state), 'construction: copy of arguments (2)'
    )
    state.grid[0, 0] = Key(Color.BLUE)
    check(
        not state_space.contains(state), 'construction: copy of arguments (3)'
    )
    check(
        state_space.object_types == [Floor, Key]
        and observation_space.object_types == [Floor, Key],
        'construction: copy of arguments (4)',
    )

    # an even width is refused before the arguments are looked at
    for width in (0, 2, 4):
        objects_iterator = iter([Floor])
        colors_iterator = iter([Color.RED])
        try:
            ObservationSpace(Shape(3, width), objects_iterator, colors_iterator)
        except ValueError:
            pass
        else:
            check(False, 'construction: even width accepted')
        check(
            next(objects_iterator) is Floor
            and next(colors_iterator) is Color.RED,
            'construction: iterators consumed by a refused construction',
        )

    # membership with every kind of container
    for kinds in CONTAINER_KINDS:
        membership(kinds)

    # one-shot iterators: only where the tree supports them
    if one_shot_iterators_supported():
        membership(one_shot=True)
        for objects, colors in [
            ([Wall, Floor, Key, Door], [Color.RED, Color.YELLOW]),
            ([Floor], []),
            (list(TYPE_INDEX), list(Color)),
        ]:
            shape = Shape(4, 5)
            check(
                space_summary(
                    StateSpace(shape, (t for t in objects), iter(colors))
                )
                == expected_summary(shape, objects, colors, False),
                'construction: StateSpace from generators',
            )
            check(
                space_summary(
                    ObservationSpace(shape, iter(objects), (c for c in colors))
                )
                == expected_summary(shape, objects, colors, True),
                'construction: ObservationSpace from generators',
            )
        # ... and in a whole environment
        cfg = shipped_like_configs()[6]  # keydoor: items are held
        reset_function = reset_fs.factory(cfg.reset[0], **cfg.reset[1])
        cfg.state_shape = Shape(7, 7)
        cfg.observation_shape = Shape(7, 7)
        env = GridWorld(
            StateSpace(Shape(7, 7), iter(cfg.objects), iter(cfg.colors)),
            ActionSpace(list(Action)),
            ObservationSpace(
                Shape(7, 7), (t for t in cfg.objects), (c for c in cfg.colors)
            ),
            reset_function,
            chain(*cfg.transitions),
            observation_fs.factory(cfg.observation, area=cfg.area),
            reward_sum(*cfg.rewards),
            term_any(*cfg.terminating),
        )
        env.set_seed(5)
        env.reset()
        driver = np.random.default_rng(5)
        held = 0
        for _ in range(400):
            action = list(Action)[driver.integers(len(Action))]
            check_observation(env, cfg, env.state, 'generators/keydoor')
            check_step(env, cfg, env.state, action, 'generators/keydoor')
            _, terminal = env.step(action)
            held += isinstance(env.state.agent.grid_object, Key)
            if terminal:
                env.reset()
        print(f'one-shot iterators: supported (key held in {held} steps)')
    else:
        print(
            'one-shot iterators: not supported by this tree (pristine '
            'behaviour: the second pass over the iterator is empty)'
        )


# computed on the pristine tree (numpy generator streams are version-stable)
GOLDEN_ROLLOUTS = (
    '122194fadecdb955d70fd864c75bdf9d5c0816a17eaef0adab31f301b67fb581'
)
GOLDEN_KITCHEN = (
    '12a996af21b06d537623895c4acaea32ac4c99d6044288a5e1baff7ce96eab4f'
)


def main():
    digests = {}
    for debug in (True, False):
        digests['rollouts', debug] = rollouts(debug)
        digests['kitchen', debug] = kitchen_sink(debug)
    check(
        digests['rollouts', True] == digests['rollouts', False],
        'debug flag changed the roll-outs',
    )
    check(
        digests['kitchen', True] == digests['kitchen', False],
        'debug flag changed the kitchen-sink results',
    )
    reset_gv_debug(True)
    membership()
    construction()

    print('rollouts digest:', digests['rollouts', True])
    print('kitchen digest :', digests['kitchen', True])
    if GOLDEN_ROLLOUTS is not None:
        check(
            digests['rollouts', True] == GOLDEN_ROLLOUTS,
            'roll-outs differ from the golden digest',
        )
    if GOLDEN_KITCHEN is not None:
        check(
            digests['kitchen', True] == GOLDEN_KITCHEN,
            'kitchen-sink results differ from the golden digest',
        )
    print(f'OK ({CHECKS} checks)')


if __name__ == '__main__':
    main()
