"""C16 demo (change A): numeric representations are faithful.

Run from the worktree root:  /venv/bin/python _seed/A/demo.py

Checks, against a reference implementation embedded below (written from the
documentation of the three encodings, not from the library code):

* per-object encodings of the `default`, `no-overlap` and `compact`
  representations, exhaustively over all objects of many spaces
  (type subsets x colour subsets), for states and for observations;
* the bounds of the advertised spaces;
* channel separation (no-overlap, compact) and gap-freeness (compact);
* positional faithfulness of the `grid`, `agent_id_grid`, `item` and `agent`
  entries on many states/observations (non-square grids, agent in corners
  and on borders, all headings, colour NONE, held items);
* equal representation <=> equal state/observation, equal ones hash alike;
* repeated calls, fresh arrays, several representations alive at once,
  growth of the grid-object registry in between;
* the module-level no-overlap functions called the way external code calls
  them (positional arguments), and -- when available -- with the optional
  pre-computed offsets.

Exits 0 when everything holds.
"""
import copy
import inspect
import itertools as itt
import os
import sys

import numpy as np

# the script lives in _seed/A: import the package of the worktree (the cwd)
sys.path.insert(0, os.getcwd())

from gym_gridverse.agent import Agent
from gym_gridverse.envs import observation_functions as obs_fs
from gym_gridverse.envs import reset_functions as reset_fs
from gym_gridverse.geometry import Orientation, Position, Shape
from gym_gridverse.grid import Grid
from gym_gridverse.grid_object import (
    Beacon,
    Box,
    Color,
    Door,
    Exit,
    Floor,
    GridObject,
    Hidden,
    Key,
    MovingObstacle,
    NoneGridObject,
    Telepod,
    Wall,
)
from gym_gridverse.observation import Observation
from gym_gridverse.representations import representation as rep_module
from gym_gridverse.representations.observation_representations import (
    NoOverlapGridObjectObservationRepresentation,
    make_observation_representation,
)
from gym_gridverse.representations.spaces import SpaceType
from gym_gridverse.representations.state_representations import (
    NoOverlapGridObjectStateRepresentation,
    make_state_representation,
)
from gym_gridverse.rng import make_rng
from gym_gridverse.spaces import ObservationSpace, StateSpace
from gym_gridverse.state import State

NAMES = ('default', 'no-overlap', 'compact')
CHECKS = 0


def check(condition, *context):
    global CHECKS
    CHECKS += 1
    if not condition:
        print('FAILED:', *context)
        sys.exit(1)


# hard-coded facts about the library's built-in objects

TYPE_INDEX = {
    NoneGridObject: 0,
    Hidden: 1,
    Floor: 2,
    Wall: 3,
    Exit: 4,
    Door: 5,
    Key: 6,
    MovingObstacle: 7,
    Box: 8,
    Telepod: 9,
    Beacon: 10,
}
NUM_STATES = {t: 1 for t in TYPE_INDEX}
NUM_STATES[Door] = 3
COLOR_VALUE = {
    Color.NONE: 0,
    Color.RED: 1,
    Color.GREEN: 2,
    Color.BLUE: 3,
    Color.YELLOW: 4,
}

for t, i in TYPE_INDEX.items():
    check(t.type_index() == i, 'type index', t)
    check(t.num_states() == NUM_STATES[t], 'num states', t)
for c, v in COLOR_VALUE.items():
    check(c.value == v, 'colour value', c)


def objects_of_type(object_type, colors):
    """every object of the type, with the given colours"""
    if object_type in (NoneGridObject, Hidden, Floor, Wall, MovingObstacle):
        return [object_type()]
    if object_type is Box:
        return [Box(Floor())]
    if object_type is Door:
        return [
            Door(status, color)
            for status in Door.Status
            for color in sorted(colors, key=lambda c: c.value)
        ]
    return [object_type(color) for color in sorted(colors, key=lambda c: c.value)]


def triple(obj):
    t = type(obj)
    status = obj.state.value if t is Door else 0
    return TYPE_INDEX[t], status, COLOR_VALUE[obj.color]


# reference encodings; `types` includes the implicit NoneGridObject / Hidden


def ref_default(types, colors):
    upper = (
        max(TYPE_INDEX[t] for t in types),
        max(NUM_STATES[t] for t in types),
        max(COLOR_VALUE[c] for c in colors),
    )
    return upper, (lambda obj: triple(obj))


def ref_no_overlap(types, colors):
    mt = max(TYPE_INDEX[t] for t in types)
    ms = max(NUM_STATES[t] for t in types)
    mc = max(COLOR_VALUE[c] for c in colors)
    upper = (mt, mt + ms + 1, mt + ms + mc + 2)

    def convert(obj):
        i, j, k = triple(obj)
        return i, mt + 1 + j, mt + ms + 2 + k

    return upper, convert


def ref_compact(types, colors):
    ordered_types = sorted(types, key=TYPE_INDEX.get)
    ordered_colors = sorted(colors, key=COLOR_VALUE.get)
    counter = itt.count()
    type_code = {t: next(counter) for t in ordered_types}
    status_code = {
        (t, j): next(counter)
        for t in ordered_types
        for j in range(NUM_STATES[t])
    }
    color_code = {c: next(counter) for c in ordered_colors}
    upper = (
        max(type_code.values()),
        max(status_code.values()),
        max(color_code.values()),
    )

    def convert(obj):
        _, j, _ = triple(obj)
        return type_code[type(obj)], status_code[type(obj), j], color_code[obj.color]

    return upper, convert


REFERENCES = {
    'default': ref_default,
    'no-overlap': ref_no_overlap,
    'compact': ref_compact,
}


def check_space(space, upper, context):
    check(space.space_type is SpaceType.CATEGORICAL, 'space type', context)
    check(space.lower_bound.tolist() == [0, 0, 0], 'lower', context)
    check(space.upper_bound.tolist() == list(upper), 'upper', context, space.upper_bound, upper)
    check(np.issubdtype(space.upper_bound.dtype, np.integer), 'dtype', context)


def check_channels(name, codes, context):
    """separation / compactness of the channel value sets"""
    channels = [set(code[i] for code in codes) for i in range(3)]
    if name in ('no-overlap', 'compact'):
        for a, b in itt.combinations(channels, 2):
            check(not (a & b), 'channels overlap', name, context)
        check(
            max(channels[0]) < min(channels[1])
            and max(channels[1]) < min(channels[2]),
            'channel ranges not ordered',
            name,
            context,
        )
    if name == 'compact':
        used = sorted(set().union(*channels))
        check(used == list(range(len(used))), 'gaps', context, used)


def as_key(representation):
    return tuple(
        (key, array.shape, str(array.dtype), array.tobytes())
        for key, array in sorted(representation.items())
    )


class Faithfulness:
    """equal representation <=> equal state, equal ones hash alike"""

    def __init__(self):
        self.by_key = {}
        self.by_item = {}

    def add(self, item, representation, context):
        key = as_key(representation)
        if key in self.by_key:
            other = self.by_key[key]
            check(other == item, 'equal representation, different items', context)
            check(hash(other) == hash(item), 'hash', context)
        else:
            self.by_key[key] = item
        if item in self.by_item:
            check(self.by_item[item] == key, 'equal items, different representations', context)
        else:
            self.by_item[item] = key


STATE_TYPE_SUBSETS = [
    [Floor],
    [Beacon],
    [Door],
    [Floor, Wall],
    [Wall, Floor, Exit],
    [Floor, Wall, Exit, Door, Key],
    [Key, Telepod, Floor],
    [MovingObstacle, Floor, Wall, Exit],
    [Floor, Wall, Exit, Door, Key, MovingObstacle, Telepod, Beacon],
]
OBSERVATION_TYPE_SUBSETS = STATE_TYPE_SUBSETS + [
    [Box],
    [Floor, Box, Wall],
    [Floor, Wall, Exit, Door, Key, MovingObstacle, Box, Telepod, Beacon],
]
COLOR_SUBSETS = [
    [],
    [Color.NONE],
    [Color.RED],
    [Color.YELLOW],
    [Color.BLUE, Color.GREEN],
    [Color.NONE, Color.RED, Color.GREEN, Color.BLUE, Color.YELLOW],
]
STATE_SHAPES = [Shape(2, 2), Shape(2, 5), Shape(4, 3), Shape(3, 3)]
OBSERVATION_SHAPES = [Shape(1, 1), Shape(1, 3), Shape(3, 1), Shape(2, 5), Shape(4, 3)]


def random_grid(rng, shape, cell_objects):
    return Grid(
        [
            [
                copy.deepcopy(cell_objects[rng.integers(len(cell_objects))])
                for _ in range(shape.width)
            ]
            for _ in range(shape.height)
        ]
    )


def border_positions(shape):
    """corners, border cells and the centre"""
    h, w = shape.height, shape.width
    ys = sorted({0, h // 2, h - 1})
    xs = sorted({0, w // 2, w - 1})
    return [Position(y, x) for y in ys for x in xs]


def check_dict_representation(kind, representation, space, item, refs, context):
    """positional faithfulness of one converted state / observation"""
    upper, convert = refs
    converted = representation.convert(item)
    again = representation.convert(item)
    expected_keys = (
        ['grid', 'agent_id_grid', 'agent', 'item']
        if kind == 'state'
        else ['grid', 'agent_id_grid', 'item']
    )
    check(list(converted) == expected_keys, 'keys', context)
    check(as_key(converted) == as_key(again), 'repeated call', context)
    spaces = representation.space
    check(list(spaces) == expected_keys, 'space keys', context)
    for key in expected_keys:
        check(spaces[key].contains(converted[key]), 'contains', key, context)
        check(converted[key] is not again[key], 'fresh arrays', key, context)

    h, w = item.grid.shape.height, item.grid.shape.width
    grid = converted['grid']
    check(grid.shape == (h, w, 3), 'grid shape', context)
    check(np.issubdtype(grid.dtype, np.integer), 'grid dtype', context)
    expected = [
        [list(convert(item.grid[y, x])) for x in range(w)] for y in range(h)
    ]
    check(grid.tolist() == expected, 'grid entries', context)
    check(spaces['grid'].upper_bound.shape == (h, w, 3), 'grid space', context)
    check(
        spaces['grid'].upper_bound.reshape(-1, 3).tolist() == [list(upper)] * (h * w),
        'grid space bounds',
        context,
    )
    check(not spaces['grid'].lower_bound.any(), 'grid space lower', context)

    marker = converted['agent_id_grid']
    check(marker.shape == (h, w), 'marker shape', context)
    expected_marker = [
        [int((y, x) == item.agent.position.yx) for x in range(w)]
        for y in range(h)
    ]
    check(marker.tolist() == expected_marker, 'marker', context)

    check(
        converted['item'].tolist() == list(convert(item.agent.grid_object)),
        'item',
        context,
    )
    check_space(spaces['item'], upper, context)

    if kind == 'state':
        y = (2 * item.agent.position.y - h + 1) / (h - 1)
        x = (2 * item.agent.position.x - w + 1) / (w - 1)
        one_hot = [0.0] * 4
        one_hot[item.agent.orientation.value] = 1.0
        check(converted['agent'].tolist() == [y, x] + one_hot, 'agent', context)
    return converted


def run_spaces(kind):
    rng = make_rng(20240916 if kind == 'state' else 20240917)
    type_subsets = STATE_TYPE_SUBSETS if kind == 'state' else OBSERVATION_TYPE_SUBSETS
    shapes = STATE_SHAPES if kind == 'state' else OBSERVATION_SHAPES
    implicit = [NoneGridObject] if kind == 'state' else [NoneGridObject, Hidden]

    # every representation is built first and kept alive, then used
    # interleaved: several environments in one process must not interfere
    jobs = []
    for n, (types, colors) in enumerate(itt.product(type_subsets, COLOR_SUBSETS)):
        shape = shapes[n % len(shapes)]
        space = (
            StateSpace(shape, types, colors)
            if kind == 'state'
            else ObservationSpace(shape, types, colors)
        )
        make = (
            make_state_representation
            if kind == 'state'
            else make_observation_representation
        )
        representations = {name: make(name, space) for name in NAMES}
        jobs.append((types, colors, shape, space, representations))

    for types, colors, shape, space, representations in jobs:
        all_colors = set(colors) | {Color.NONE}
        all_types = list(types) + implicit
        context = (kind, [t.__name__ for t in types], [c.name for c in colors], shape)

        cell_types = list(types) + ([Hidden] if kind == 'observation' else [])
        cell_objects = [
            obj for t in cell_types for obj in objects_of_type(t, all_colors)
        ]
        held_objects = [
            obj
            for t in list(types) + [NoneGridObject]
            for obj in objects_of_type(t, all_colors)
        ]
        all_objects = [
            obj for t in all_types for obj in objects_of_type(t, all_colors)
        ]

        refs = {
            name: REFERENCES[name](all_types, all_colors) for name in NAMES
        }

        # exhaustive per-object check, through the grid-object representation
        for name in NAMES:
            upper, convert = refs[name]
            gor = representations[name].representations['grid'].grid_object_representation
            check(
                gor is representations[name].representations['item'].grid_object_representation,
                'shared grid-object representation',
                context,
            )
            check_space(gor.space, upper, (name, context))
            codes = []
            for obj in all_objects:
                code = gor.convert(obj)
                check(code.shape == (3,), 'code shape', name, context)
                check(np.issubdtype(code.dtype, np.integer), 'code dtype', name, context)
                check(code.tolist() == list(convert(obj)), 'code', name, obj, context)
                check(gor.space.contains(code), 'code in space', name, obj, context)
                codes.append(tuple(code.tolist()))
            # lossless on objects
            for (a, ca), (b, cb) in itt.combinations(zip(all_objects, codes), 2):
                check((a == b) == (ca == cb), 'object iff', name, a, b, context)
            check_channels(name, codes, context)

        # states / observations of the space
        items = []
        orientations = list(Orientation) if kind == 'state' else [Orientation.F]
        for position in border_positions(shape):
            for orientation in orientations:
                grid = random_grid(rng, shape, cell_objects)
                held = copy.deepcopy(held_objects[rng.integers(len(held_objects))])
                agent = Agent(position, orientation, held)
                items.append((grid, agent))
        # near misses: same grid, one thing changed
        base_grid = random_grid(rng, shape, cell_objects)
        base_agent = Agent(Position(0, 0), orientations[0], NoneGridObject())
        items.append((base_grid, base_agent))
        items.append((copy.deepcopy(base_grid), copy.deepcopy(base_agent)))
        for position in base_grid.area.positions():
            items.append(
                (copy.deepcopy(base_grid), Agent(position, orientations[0], NoneGridObject()))
            )
            for obj in cell_objects:
                grid = copy.deepcopy(base_grid)
                grid[position] = copy.deepcopy(obj)
                items.append((grid, copy.deepcopy(base_agent)))
        for orientation in orientations:
            items.append(
                (copy.deepcopy(base_grid), Agent(Position(0, 0), orientation, NoneGridObject()))
            )
        for obj in held_objects:
            items.append(
                (copy.deepcopy(base_grid), Agent(Position(0, 0), orientations[0], copy.deepcopy(obj)))
            )

        faithfulness = {name: Faithfulness() for name in NAMES}
        for grid, agent in items:
            item = State(grid, agent) if kind == 'state' else Observation(grid, agent)
            check(space.contains(item), 'item not in space', context)
            for name in NAMES:
                converted = check_dict_representation(
                    kind, representations[name], space, item, refs[name], (name, context)
                )
                faithfulness[name].add(item, converted, (name, context))


def run_environment_states():
    """states and observations produced by the library itself"""
    colors = [Color.YELLOW]
    types = [Floor, Wall, Exit, Door, Key]
    for shape, obs_shape in [
        (Shape(5, 9), Shape(7, 7)),
        (Shape(9, 6), Shape(2, 9)),
        (Shape(4, 6), Shape(5, 3)),
    ]:
        state_space = StateSpace(shape, types, colors)
        observation_space = ObservationSpace(obs_shape, types, colors)
        state_reps = {n: make_state_representation(n, state_space) for n in NAMES}
        obs_reps = {
            n: make_observation_representation(n, observation_space) for n in NAMES
        }
        all_colors = {Color.NONE, Color.YELLOW}
        state_refs = {
            n: REFERENCES[n](types + [NoneGridObject], all_colors) for n in NAMES
        }
        obs_refs = {
            n: REFERENCES[n](types + [NoneGridObject, Hidden], all_colors)
            for n in NAMES
        }
        state_faith = {n: Faithfulness() for n in NAMES}
        obs_faith = {n: Faithfulness() for n in NAMES}
        # re-seeding: the same seed twice, then others
        for seed in [0, 0, 1, 2, 3, 4, 5]:
            rng = make_rng(seed)
            state = reset_fs.keydoor(shape, rng=rng)
            for orientation in Orientation:
                state.agent.orientation = orientation
                for held in [NoneGridObject(), Key(Color.YELLOW)]:
                    state.agent.grid_object = held
                    for observe in (
                        obs_fs.fully_transparent,
                        obs_fs.partially_occluded,
                        obs_fs.raytracing,
                    ):
                        observation = observe(
                            state, area=observation_space.area, rng=rng
                        )
                        check(observation_space.contains(observation), 'env obs')
                        for n in NAMES:
                            converted = check_dict_representation(
                                'observation', obs_reps[n], observation_space,
                                observation, obs_refs[n], ('env', n, shape),
                            )
                            obs_faith[n].add(observation, converted, ('env', n))
                    check(state_space.contains(state), 'env state')
                    frozen = copy.deepcopy(state)
                    for n in NAMES:
                        converted = check_dict_representation(
                            'state', state_reps[n], state_space, state,
                            state_refs[n], ('env', n, shape),
                        )
                        state_faith[n].add(frozen, converted, ('env', n))


def run_no_overlap_functions():
    """the module-level functions, called like external code calls them"""
    convert = rep_module.no_overlap_grid_object_representation_convert
    space = rep_module.no_overlap_grid_object_representation_space
    accepts_offsets = 'offsets' in inspect.signature(convert).parameters

    for types, colors in itt.product(OBSERVATION_TYPE_SUBSETS, COLOR_SUBSETS):
        type_set = set(types) | {NoneGridObject, Hidden}
        color_set = set(colors) | {Color.NONE}
        upper, ref_convert = ref_no_overlap(type_set, color_set)
        check_space(space(type_set, color_set), upper, ('function', types, colors))
        mt = max(TYPE_INDEX[t] for t in type_set)
        ms = max(NUM_STATES[t] for t in type_set)
        for t in type_set:
            for obj in objects_of_type(t, color_set):
                code = convert(type_set, color_set, obj)
                check(code.tolist() == list(ref_convert(obj)), 'function convert', obj)
                code = convert(
                    grid_object_types=type_set,
                    grid_object_colors=color_set,
                    grid_object=obj,
                )
                check(code.tolist() == list(ref_convert(obj)), 'function convert kw', obj)
                if accepts_offsets:
                    code = convert(type_set, color_set, obj, offsets=None)
                    check(code.tolist() == list(ref_convert(obj)), 'offsets=None', obj)
                    code = convert(
                        type_set, color_set, obj, offsets=(mt + 1, mt + ms + 2)
                    )
                    check(code.tolist() == list(ref_convert(obj)), 'offsets given', obj)

    if hasattr(rep_module, 'no_overlap_grid_object_representation_offsets'):
        offsets = rep_module.no_overlap_grid_object_representation_offsets
        check(offsets({NoneGridObject}) == (1, 3), 'offsets, single type')
        check(offsets({NoneGridObject, Door}) == (6, 10), 'offsets, door')
        # any iterable, including a one-shot iterator
        check(offsets(iter([Door, NoneGridObject, Hidden])) == (6, 10), 'offsets, iterator')
        check(offsets([Beacon, Floor]) == (11, 13), 'offsets, list')

    # empty sets are an error, before and after
    for args in [(set(), {Color.NONE}), ({Floor}, set())]:
        try:
            space(*args)
        except ValueError:
            check(True)
        else:
            check(False, 'empty set accepted by space', args)
    try:
        convert(set(), {Color.NONE}, Floor())
    except ValueError:
        check(True)
    else:
        check(False, 'empty set accepted by convert')
    # the colours are not needed to convert: an empty colour set is accepted
    check(
        convert({Floor, Door}, set(), Key(Color.BLUE)).tolist() == [6, 6, 13],
        'convert, empty colours',
    )


def run_registry_growth():
    """representations keep their encoding when new object types get registered"""
    state_space = StateSpace(Shape(3, 4), [Floor, Wall, Door], [Color.RED])
    observation_space = ObservationSpace(Shape(3, 5), [Floor, Wall, Door, Box], [Color.RED])
    state_gor = NoOverlapGridObjectStateRepresentation(state_space)
    observation_gor = NoOverlapGridObjectObservationRepresentation(observation_space)
    state_reps = {n: make_state_representation(n, state_space) for n in NAMES}

    objects = [Floor(), Wall(), Door(Door.Status.LOCKED, Color.RED), NoneGridObject()]

    def snapshot():
        out = [state_gor.convert(o).tolist() for o in objects]
        out += [observation_gor.convert(o).tolist() for o in objects + [Hidden(), Box(Floor())]]
        out += [state_gor.space.upper_bound.tolist(), observation_gor.space.upper_bound.tolist()]
        state = State(
            Grid([[Floor(), Wall(), Floor(), Door(Door.Status.OPEN, Color.RED)]] * 3),
            Agent(Position(2, 3), Orientation.L),
        )
        out += [as_key(state_reps[n].convert(state)) for n in NAMES]
        return out

    # converted before anything else (caches, if any, get filled now) ...
    before = snapshot()
    check(before[0] == [2, 6, 10], 'hard-coded state code', before[0])
    check(before[2] == [5, 8, 11], 'hard-coded state code', before[2])
    check(before[4] == [2, 9, 13], 'hard-coded observation code', before[4])
    check(before[10] == [5, 9, 11], 'hard-coded state bounds', before[10])
    check(before[11] == [8, 12, 14], 'hard-coded observation bounds', before[11])

    class Lamp(GridObject):
        state_index = 0
        color = Color.NONE
        blocks_movement = False
        blocks_vision = False
        holdable = False

        @classmethod
        def can_be_represented_in_state(cls):
            return True

        @classmethod
        def num_states(cls):
            return 7

    check(Lamp.type_index() == 11, 'registered type index')
    # ... and after the registry grew: same codes from the old representations
    check(snapshot() == before, 'registry growth changed an existing encoding')

    # representations built before / after the growth agree as well
    late_gor = NoOverlapGridObjectStateRepresentation(state_space)
    for obj in objects:
        check(
            late_gor.convert(obj).tolist() == state_gor.convert(obj).tolist(),
            'late representation',
        )

    # a space with the new type: the offsets follow its 7 statuses
    lamp_space = StateSpace(Shape(2, 2), [Floor, Lamp], [])
    lamp_gor = NoOverlapGridObjectStateRepresentation(lamp_space)
    check(lamp_gor.space.upper_bound.tolist() == [11, 19, 20], 'lamp space')
    check(lamp_gor.convert(Lamp()).tolist() == [11, 12, 20], 'lamp code')
    check(lamp_gor.convert(Floor()).tolist() == [2, 12, 20], 'floor code, lamp space')
    check(lamp_gor.convert(Lamp()).tolist() == [11, 12, 20], 'lamp code, repeated')

    # a type which is not registered has no index:  building the grid-object
    # representation works, using it raises ValueError (every time)
    class Ghost(Lamp, register=False):
        pass

    ghost_space = StateSpace(Shape(2, 2), [Floor, Ghost], [])
    ghost_gor = NoOverlapGridObjectStateRepresentation(ghost_space)
    for _ in range(2):
        for use in (lambda: ghost_gor.space, lambda: ghost_gor.convert(Floor())):
            try:
                use()
            except ValueError:
                check(True)
            else:
                check(False, 'unregistered type accepted')


if __name__ == '__main__':
    run_no_overlap_functions()
    run_spaces('state')
    run_spaces('observation')
    run_environment_states()
    run_registry_growth()
    print(f'OK ({CHECKS} checks)')
